(** C06 — specification of the operators, written as a small bash-style interpreter over the
    *denotation* of a parameter (nothing, or a list of words with a shape), independent of the
    [Expansion] record and of the arms of the model.  Validated against /usr/bin/bash by the
    driver (spec_vs_bash). *)
From BV Require Import Base.Prelude ParamExp.Remove ParamExp.Param.

Inductive shape := Scalar | ListAt | ListStar.
Definition shape_of (r : pref) : shape :=
  match r with
  | RAll c | RArgs c => if c then ListStar else ListAt
  | _ => Scalar
  end.

Definition elems (v : value) : list str :=
  match v with
  | VNone | VUnset => []
  | VStr s => [s]
  | VIdx l => map snd l
  | VAssoc l => map snd l
  end.

(** The words a parameter stands for; [None] = unset.  (Element lookup [get_at] is shared
    with the model: subscripts are not this property's subject.) *)
Definition words (sh : shell) (r : pref) : option (list str) :=
  match r with
  | RPos n => match nth_error (args sh) (n - 1) with Some a => Some [a] | None => None end
  | RArgs _ => match args sh with [] => None | l => Some l end
  | RAll _ => match elems (var sh) with [] => None | l => Some l end
  | RNamed => match get_at (var sh) zero_str with Some a => Some [a] | None => None end
  | RIndex i => match get_at (var sh) i with Some a => Some [a] | None => None end
  end.

Definition render (sp : shape) (ws : list str) : list str :=
  match sp with
  | ListAt => ws
  | _ => [join_with SP ws]
  end.

(** * unset / null / set and the POSIX table *)
Inductive bstate := BUnset | BNull | BSet.
Definition bstate_of (ws : option (list str)) : bstate :=
  match ws with
  | None => BUnset
  | Some l => if is_nil (join_with SP l) then BNull else BSet
  end.

(** POSIX.1-2017 XCU 2.6.2, the table, entry by entry. *)
Definition posix_table (op : cop) (colon : bool) (st : bstate) : action :=
  match op, colon, st with
  | OpDefault, true, BSet => UseParameter | OpDefault, true, BNull => UseWord       | OpDefault, true, BUnset => UseWord
  | OpDefault, false, BSet => UseParameter | OpDefault, false, BNull => UseParameter | OpDefault, false, BUnset => UseWord
  | OpAssign, true, BSet => UseParameter  | OpAssign, true, BNull => AssignWord     | OpAssign, true, BUnset => AssignWord
  | OpAssign, false, BSet => UseParameter  | OpAssign, false, BNull => UseParameter  | OpAssign, false, BUnset => AssignWord
  | OpError, true, BSet => UseParameter   | OpError, true, BNull => ErrorWord       | OpError, true, BUnset => ErrorWord
  | OpError, false, BSet => UseParameter   | OpError, false, BNull => UseParameter   | OpError, false, BUnset => ErrorWord
  | OpAlt, true, BSet => UseWord          | OpAlt, true, BNull => UseEmpty          | OpAlt, true, BUnset => UseEmpty
  | OpAlt, false, BSet => UseWord          | OpAlt, false, BNull => UseWord          | OpAlt, false, BUnset => UseEmpty
  end.

Definition conditional_spec (sh : shell) (r : pref) (op : cop) (colon : bool) (w : str)
  : res (list str * option str) :=
  let ws := words sh r in
  let sp := shape_of r in
  match posix_table op colon (bstate_of ws), ws with
  | UseParameter, Some l => Ok (render sp l, None)
  | UseParameter, None => Ok ([[]], None)            (* not reachable: the table never uses an unset parameter *)
  | UseWord, _ => Ok ([w], None)
  | UseEmpty, None => Ok (match sp with ListAt => [] | _ => [[]] end, None)   (* "${@+w}" with no words: no field at all *)
  | UseEmpty, Some _ => Ok ([[]], None)
  | ErrorWord, _ => Fail
  | AssignWord, _ => match r with RNamed | RIndex _ => Ok ([w], Some w) | _ => Fail end   (* positional and list parameters cannot be assigned this way *)
  end.

(** * Length: characters of the word; number of words for [@]/[*]. *)
Definition length_spec (sh : shell) (r : pref) : res nat :=
  match r with
  | RArgs _ => Ok (length (args sh))
  | RAll _ =>
      match var sh with
      | VNone => if nounset sh then Fail else Ok 0%nat
      | v => Ok (length (elems v))
      end
  | RIndex _ =>
      match words sh r with
      | Some l => Ok (length (join_with SP l))
      | None => if nounset sh && negb (var_exists sh) then Fail else Ok 0%nat
      end
  | _ =>
      match words sh r with
      | Some l => Ok (length (join_with SP l))
      | None => if nounset sh then Fail else Ok 0%nat
      end
  end.

(** * Substring: bash's [verify_substring_values]. *)
Definition slice {A} (l : list A) (a b : Z) : list A := firstn (Z.to_nat (b - a)) (skipn (Z.to_nat a) l).

Inductive bounds := Empty | Range (a b : Z) | BadLength.
Inductive skind := KScalar | KArray | KArgs.
Definition bash_bounds (k : skind) (len off : Z) (olen : option Z) : bounds :=
  let e1 := if off <? 0 then off + len else off in
  if (e1 <? 0) || (len <? e1) || (match k with KArray => len <=? e1 | _ => false end) then Empty
  else match olen with
       | None => Range e1 len
       | Some l =>
           if l <? 0 then
             match k with
             | KScalar => if len + l <? e1 then BadLength else Range e1 (len + l)
             | _ => BadLength
             end
           else Range e1 (Z.min (e1 + l) len)
       end.

Definition substring_spec (sh : shell) (r : pref) (off : Z) (olen : option Z) : res (list str * option str) :=
  let sp := shape_of r in
  match sp with
  | Scalar =>
      match words sh r with
      | None => if nounset sh then Fail else Ok ([[]], None)
      | Some l =>
          let w := join_with SP l in
          match bash_bounds KScalar (Z.of_nat (length w)) off olen with
          | Empty => Ok ([[]], None)
          | Range a b => Ok ([slice w a b], None)
          | BadLength => Fail
          end
      end
  | _ =>
      let ws := match r with RArgs _ => shell_name sh :: args sh | _ => elems (var sh) end in
      if is_nil ws then Ok (render sp [], None)       (* no words: unset, nothing is evaluated *)
      else
      match bash_bounds (match r with RArgs _ => KArgs | _ => KArray end) (Z.of_nat (length ws)) off olen with
      | Empty => Ok (render sp [], None)
      | Range a b => Ok (render sp (slice ws a b), None)
      | BadLength => Fail
      end
  end.

(** bash evaluates the offset only for a parameter that has words, and the length only when the
    offset selects a position inside the value. *)
Definition substring_spec_ev (sh : shell) (r : pref) (off : operand) (olen : option operand)
  : res (list str * option str) * Z :=
  let sp := shape_of r in
  let ws := match sp with
            | Scalar => match words sh r with Some l => [join_with SP l] | None => [] end
            | _ => match r with RArgs _ => shell_name sh :: args sh | _ => elems (var sh) end
            end in
  let k := match sp, r with Scalar, _ => KScalar | _, RArgs _ => KArgs | _, _ => KArray end in
  let len := match sp, ws with Scalar, [w] => Z.of_nat (length w) | _, _ => Z.of_nat (length ws) end in
  if is_nil ws then (substring_spec sh r 0 None, 0)
  else if oerr off then (Fail, 0)
  else match bash_bounds k len (oval off) None with
       | Empty => (substring_spec sh r (oval off) None, oinc off)
       | _ => match olen with
              | None => (substring_spec sh r (oval off) None, oinc off)
              | Some l => if oerr l then (Fail, oinc off)
                          else (substring_spec sh r (oval off) (Some (oval l)), oinc off + oinc l)
              end
       end.

(** * Removal: the oracle of Remove.v applied word by word. *)
Definition removal_oracle (sh : shell) (r : pref) (o : rop) (m : option (str -> bool)) : res (list str * option str) :=
  let f := match m with
           | None => fun s => s
           | Some mm => match o with
                        | RmSmallestPrefix => spec_remove_prefix true mm
                        | RmLargestPrefix => spec_remove_prefix false mm
                        | RmSmallestSuffix => spec_remove_suffix true mm
                        | RmLargestSuffix => spec_remove_suffix false mm
                        end
           end in
  match words sh r, shape_of r with
  | None, Scalar => if nounset sh then Fail else Ok ([[]], None)
  | None, sp => Ok (render sp [], None)
  | Some l, sp => Ok (render sp (map f l), None)
  end.

(** * Keys: the subscripts that are set (0 for a set scalar), as words ([@]) or joined ([*]). *)
Definition keys_spec (sh : shell) (concat : bool) : list str :=
  let ks := match var sh with
            | VStr _ => [zero_str]
            | VIdx l => map (fun kv => show_Z (fst kv)) l
            | VAssoc l => map (fun kv => fst kv) l
            | _ => []
            end in
  render (if concat then ListStar else ListAt) ks.
