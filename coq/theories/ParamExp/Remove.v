(** C06 — prefix/suffix removal: the four loops of brush-core/src/patterns.rs
    [remove_{largest,smallest}_matching_{prefix,suffix}], parametric in the matcher
    ([m t] stands for [re.is_match(t)] of the pattern compiled with both anchors; the matcher
    itself is C08's subject).  Strings are lists of characters, so a Rust byte index obtained
    from [char_indices()] is modelled by the number of characters before it.

    [Current]: the loops as they are written in the unchanged tree.
    [Repaired]: the loops after the proposed [fix:] commits (the two [smallest] loops also test
    the empty prefix/suffix). *)
From BV Require Import Base.Prelude.

Section Remove.
Variable m : str -> bool.

(** [remove_largest_matching_prefix]:
<<
    let indices = s.char_indices().rev();  let mut last_idx = s.len();
    for (idx, _) in indices {
        let prefix = &s[0..last_idx];
        if re.is_match(prefix)? { return Ok(&s[last_idx..]); }
        last_idx = idx;
    }
    Ok(s)
>>
    one iteration per character; iteration j tests the prefix of [n - j] characters
    (n, n-1, …, 1); the empty prefix is never tested. *)
Fixpoint largest_prefix_go (s : str) (last_idx : nat) : str :=
  match last_idx with
  | O => s
  | S idx => if m (firstn last_idx s) then skipn last_idx s else largest_prefix_go s idx
  end.
Definition remove_largest_prefix (s : str) : str := largest_prefix_go s (length s).

(** [remove_smallest_matching_prefix]:
<<
    let mut indices = s.char_indices();
    while indices.next().is_some() {
        let next_index = indices.offset();
        let prefix = &s[0..next_index];
        if re.is_match(prefix)? { return Ok(&s[next_index..]); }
    }
    Ok(s)
>>
    tests the prefixes of 1, 2, …, n characters. [iters] = characters not yet consumed,
    [consumed] = characters consumed before this iteration. *)
Fixpoint smallest_prefix_go_old (s : str) (iters consumed : nat) : str :=
  match iters with
  | O => s
  | S iters' =>
      let next_index := S consumed in
      if m (firstn next_index s) then skipn next_index s else smallest_prefix_go_old s iters' next_index
  end.
Definition remove_smallest_prefix_old (s : str) : str := smallest_prefix_go_old s (length s) 0.

(** [remove_largest_matching_suffix]: [for (idx, _) in s.char_indices()] tests the suffixes
    starting at character 0, 1, …, n-1 (never the empty suffix). *)
Fixpoint largest_suffix_go (s : str) (iters idx : nat) : str :=
  match iters with
  | O => s
  | S iters' => if m (skipn idx s) then firstn idx s else largest_suffix_go s iters' (S idx)
  end.
Definition remove_largest_suffix (s : str) : str := largest_suffix_go s (length s) 0.

(** [remove_smallest_matching_suffix]: [for (idx, _) in s.char_indices().rev()] tests the
    suffixes starting at character n-1, n-2, …, 0 (never the empty suffix). *)
Fixpoint smallest_suffix_go_old (s : str) (iters : nat) : str :=
  match iters with
  | O => s
  | S idx => if m (skipn idx s) then firstn idx s else smallest_suffix_go_old s idx
  end.
Definition remove_smallest_suffix_old (s : str) : str := smallest_suffix_go_old s (length s).

(** The repaired [smallest] loops iterate over
    [s.char_indices().map(|(i, _)| i).chain(once(s.len()))] (forwards for the prefix, reversed
    for the suffix): every cut position 0 … n is tested. *)
Fixpoint smallest_prefix_go (s : str) (iters idx : nat) : str :=
  match iters with
  | O => s
  | S iters' => if m (firstn idx s) then skipn idx s else smallest_prefix_go s iters' (S idx)
  end.
Definition remove_smallest_prefix (s : str) : str := smallest_prefix_go s (S (length s)) 0.

Fixpoint smallest_suffix_go (s : str) (iters : nat) : str :=
  match iters with
  | O => s
  | S idx => if m (skipn idx s) then firstn idx s else smallest_suffix_go s idx
  end.
Definition remove_smallest_suffix (s : str) : str := smallest_suffix_go s (S (length s)).

End Remove.

(** * Specification, independent of bash and of the loops.

    A cut is a position [k ∈ [0, |s|]].  Prefix removal at cut [k] deletes [take k s] and
    returns [drop k s]; it is admissible when the deleted part matches.  The property demands
    the least admissible cut for [#]/… the greatest for [##]; for suffixes the deleted part is
    [drop k s], so the *shortest* suffix is the *greatest* admissible cut.  When no cut is
    admissible the value is returned unchanged. *)
Definition prefix_ok (m : str -> bool) (s : str) (k : nat) : Prop := (k <= length s)%nat /\ m (firstn k s) = true.
Definition suffix_ok (m : str -> bool) (s : str) (k : nat) : Prop := (k <= length s)%nat /\ m (skipn k s) = true.

Inductive removal_spec (ok : nat -> Prop) (shortest_first : bool) (cut : nat -> str) (s : str) : str -> Prop :=
| removal_none : (forall k, ~ ok k) -> removal_spec ok shortest_first cut s s
| removal_at k : ok k ->
    (forall j, ok j -> if shortest_first then (k <= j)%nat else (j <= k)%nat) ->
    removal_spec ok shortest_first cut s (cut k).

(** [${v#p}]: least cut; [${v##p}]: greatest cut; [${v%p}]: shortest suffix = greatest cut;
    [${v%%p}]: longest suffix = least cut. *)
Definition smallest_prefix_spec m s r := removal_spec (prefix_ok m s) true (fun k => skipn k s) s r.
Definition largest_prefix_spec m s r := removal_spec (prefix_ok m s) false (fun k => skipn k s) s r.
Definition smallest_suffix_spec m s r := removal_spec (suffix_ok m s) false (fun k => firstn k s) s r.
Definition largest_suffix_spec m s r := removal_spec (suffix_ok m s) true (fun k => firstn k s) s r.

(** An executable form of the same specification (used as the oracle of the check): search
    the list of all cuts [0 … n] in the required order with [find]. *)
Definition cuts (s : str) : list nat := seq 0 (S (length s)).
Definition spec_remove_prefix (shortest : bool) (m : str -> bool) (s : str) : str :=
  match find (fun k => m (firstn k s)) (if shortest then cuts s else rev (cuts s)) with
  | Some k => skipn k s
  | None => s
  end.
Definition spec_remove_suffix (shortest : bool) (m : str -> bool) (s : str) : str :=
  match find (fun k => m (skipn k s)) (if shortest then rev (cuts s) else cuts s) with
  | Some k => firstn k s
  | None => s
  end.
