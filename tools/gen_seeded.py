#!/usr/bin/env python3
"""Builds /verif/seeded/<id>/ from /var/tmp/mut-out/<prop>/<k>/ (patch.diff, demo files) plus
tools/seeded_results.json (what the checks did) and the validation logs given on the command line."""
import json, os, re, shutil, sys, glob
ROOT = os.path.dirname(os.path.dirname(os.path.abspath(__file__)))
res = json.load(open(os.path.join(ROOT, "tools", "seeded_results.json")))
val = {}
for log in sys.argv[1:]:
    cur = None
    for line in open(log):
        line = line.strip()
        m = re.match(r"=== (C\d+)/(\d)", line)
        if m:
            b = os.path.basename(log)
            k = int(m.group(2)) + (2 if "val2" in b else 4 if "val3" in b else 6 if "val4" in b else 0)
            cur = "%s-%d" % (m.group(1), k); val.setdefault(cur, {})
        elif cur and line.startswith("DEMO"):
            val[cur]["demo"] = line
        elif cur and line.startswith("SUITE"):
            val[cur]["suite"] = line
manual = json.load(open(os.path.join(ROOT, "tools", "seeded_manual.json"))) if os.path.exists(os.path.join(ROOT, "tools", "seeded_manual.json")) else {}
for sid, r in sorted(res.items()):
    prop, k = sid.split("-")
    src = ("/var/tmp/mut-out/%s/%s" % (prop, k) if int(k) <= 2 else
           "/var/tmp/mut-out2/%s/%d" % (prop, int(k) - 2) if int(k) <= 4 else
           "/var/tmp/mut-out3/%s/%d" % (prop, int(k) - 4) if int(k) <= 6 else "/var/tmp/mut-out4/%s/%d" % (prop, int(k) - 6))
    if not os.path.isdir(src):
        continue
    dst = os.path.join(ROOT, "seeded", sid)
    os.makedirs(dst, exist_ok=True)
    for f in os.listdir(src):
        if os.path.isfile(os.path.join(src, f)) and os.path.getsize(os.path.join(src, f)) < 300000 and f != "meta.json":
            shutil.copyfile(os.path.join(src, f), os.path.join(dst, f))
    am = json.load(open(os.path.join(src, "meta.json"))) if os.path.exists(os.path.join(src, "meta.json")) else {}
    v = dict(val.get(sid, {})); v.update(manual.get(sid, {}))
    meta = {"property": prop, "summary": am.get("summary", ""), "mechanism": am.get("mechanism", ""),
            "needs": am.get("needs", ""), "demo_cmd": am.get("demo_cmd", ""),
            "source": "independent sub-agent given only the property text and a scratch worktree of the repository",
            "confirmed": {"applies_to": "/repo HEAD", "suite": v.get("suite", "not re-run"), "demo": v.get("demo", "not re-run"),
                          "how": "tools/validate_seeded.sh (apply in a scratch worktree, cargo build, demo on unchanged and changed binary, tools/run_suite.sh)"},
            "checks_run": r["checks"], "first_result": r["first"], "detected_by": r["detected_by"],
            "ran": "tools/try_seeded.sh seeded/%s/patch.diff <ID> (applies to a scratch worktree of /repo HEAD, runs ./check <ID> through VERIF_REPO, reverts)" % sid}
    json.dump(meta, open(os.path.join(dst, "meta.json"), "w"), indent=1, ensure_ascii=False)
print("seeded dirs:", len(glob.glob(os.path.join(ROOT, "seeded", "*", "meta.json"))))
