#!/usr/bin/env python3
"""Assembles DESIGN.md from docs-src/{head,sec6,tail,summary}.md plus tables generated from
known_findings.json, /repo's commit log and seeded/*/meta.json."""
import json, os, subprocess, glob, re
ROOT = os.path.dirname(os.path.dirname(os.path.abspath(__file__)))
def rd(n): return open(os.path.join(ROOT, "docs-src", n)).read()
d = json.load(open(os.path.join(ROOT, "known_findings.json")))
fixed = [f for f in d["findings"] if f["status"].startswith("fixed")]
openf = [f for f in d["findings"] if not f["status"].startswith("fixed")]
def esc(s): return str(s).replace("|", "\\|").replace("\n", "\\n")
def short(s, n):
    s = esc(s); return s if len(s) <= n else s[:n - 1] + "…"
commits = subprocess.check_output(["git", "-C", "/repo", "log", "--reverse", "--format=%h %s", "94a9ae2..HEAD"]).decode().strip().split("\n")
sec7 = ["## 7. Defects found on the pinned tree: repaired and open", "",
        "Every entry was reproduced on the real binary (and, for bash-parity properties, against bash 5.2.15) from the witness a faithful model produced. "
        "%d classes were repaired by %d `fix:` commits (the unedited pinned suite, 2659 baseline tests, passes on the resulting tree: `tools/run_suite.sh /repo`); %d are open known findings." % (len(fixed), sum(1 for c in commits if " fix:" in " " + c), len(openf)), "",
        "### 7.1 Repaired (entries kept as `fixed: <commit>` in known_findings.json; a fixed entry suppresses nothing)", "",
        "| finding | witness | behaviour before | fix commit |", "|---|---|---|---|"]
for f in fixed:
    sec7.append("| %s | `%s` | %s | %s |" % (f["id"], short(f.get("witness", ""), 70), short(f.get("actual", f.get("what", "")), 90), f["status"][7:]))
sec7 += ["", "### 7.2 Open known findings (the check prints one KNOWN-FINDING line per reproduced entry and exits 0)", "",
         "| finding | witness | expected | brush |", "|---|---|---|---|"]
for f in openf:
    sec7.append("| %s | `%s` | %s | %s |" % (f["id"], short(f.get("witness", ""), 70), short(f.get("expected", ""), 50), short(f.get("actual", f.get("what", "")), 80)))
sec7 += ["", "Not repaired although a patch exists: KF-C16-exit-in-handler, KF-C13-alias-trap-raw, KF-C05-star-empty-ifs (each repair makes a `known_failure` case of the unedited suite pass, which the suite's harness counts as a failure) and KF-C14-nested-subshell-arith / KF-C02-nested-subshell (the repair needs a stored parser snapshot to change).", "",
         "### 7.3 Commits made to /repo (hooks: `verif:`; repairs: `fix:`)", "", "```"] + commits + ["```", ""]
rows = []
for m in sorted(glob.glob(os.path.join(ROOT, "seeded", "*", "meta.json"))):
    j = json.load(open(m)); sid = os.path.basename(os.path.dirname(m))
    rows.append("| %s | %s | %s | %s |" % (sid, short(j.get("summary", ""), 110), short(j.get("needs", ""), 90), short(j.get("detected_by", ""), 150)))
sec11 = ["", "| seeded change | what was changed | needs | detected by |", "|---|---|---|---|"] + rows + [""]
counts = []
for i in range(1, 21):
    pid = "C%02d" % i
    src = open(os.path.join(ROOT, "coq", "theories", "Properties", pid + ".v"), encoding="utf-8").read()
    counts.append("%s: %d" % (pid, len(re.findall(r"^\s*Theorem\s+\w+", src, flags=re.M))))
nfiles = sum(len([f for f in fs if f.endswith(".v")]) for _, _, fs in os.walk(os.path.join(ROOT, "coq", "theories")) if "gen" not in _)
nlines = 0
for dp, dn, fs in os.walk(os.path.join(ROOT, "coq", "theories")):
    for f in fs:
        if f.endswith(".v") and "/gen" not in dp:
            nlines += sum(1 for _ in open(os.path.join(dp, f), encoding="utf-8"))
extra = "\nPinned theorems per property (counted from `Properties/*.v` when this file was generated): " + ", ".join(counts) + ". Hand-written Coq: %d files, %d lines (regenerated tables not counted).\n" % (nfiles, nlines)
out = rd("head.md") + rd("sec6.md") + "\n---------------------------------------------------------------------------------------\n\n" + "\n".join(sec7) + rd("tail.md") + "\n".join(sec11) + rd("summary.md") + extra
open(os.path.join(ROOT, "DESIGN.md"), "w").write(out)
print("DESIGN.md written:", len(out.split("\n")), "lines;", len(fixed), "fixed,", len(openf), "open,", len(rows), "seeded")
