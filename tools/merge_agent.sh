#!/bin/bash
# usage: tools/merge_agent.sh <branch> — merges a builder branch; known_findings.json conflicts are
# resolved as the union of the findings (by id; the branch's version wins for its own ids).
set -u
B=$1
cd /verif
git merge --no-edit "$B" >/var/tmp/merge.log 2>&1 || true
if git status --short | grep -q "^UU known_findings.json\|^AA known_findings.json"; then
python3 - "$B" <<'PY'
import json, subprocess, sys
b = sys.argv[1]
ours = json.loads(subprocess.check_output(["git", "show", "HEAD:known_findings.json"]))
theirs = json.loads(subprocess.check_output(["git", "show", b + ":known_findings.json"]))
ids = {}
for f in ours["findings"]:
    ids[f["id"]] = f
for f in theirs["findings"]:
    ids[f["id"]] = f
out = {"findings": sorted(ids.values(), key=lambda f: (f["property"], f["id"]))}
out["fixed"] = ["fixed: property=%s %s %s (%s)" % (f["property"], f["status"][7:], (f.get("what") or "")[:160].replace("\n", " "), f["id"]) for f in out["findings"] if f["status"].startswith("fixed")]
json.dump(out, open("known_findings.json", "w"), indent=1, ensure_ascii=False)
print("known_findings union:", len(out["findings"]))
PY
git add known_findings.json
fi
for f in $(git status --short | grep "^UU evidence/\|^AA evidence/" | cut -c4-); do git checkout --ours -- "$f"; git add "$f"; done
if git status --short | grep -q "^UU\|^AA\|^DU\|^UD"; then echo "REMAINING CONFLICTS:"; git status --short | grep "^UU\|^AA\|^DU\|^UD"; exit 1; fi
git commit -qm "merge $B" 2>/dev/null || true
git log --oneline -1
