#!/usr/bin/env python3
"""Regenerates /verif/MANIFEST.json from tools/claims.json (one entry per claimed property).
Properties without an entry are listed under not_applicable with the reason given in
claims.json["_not_applicable"][id] (or a default)."""
import json, os, subprocess
ROOT = os.path.dirname(os.path.dirname(os.path.abspath(__file__)))
props = [json.loads(l) for l in open(os.path.join(ROOT, "properties.jsonl"))]
claims = json.load(open(os.path.join(ROOT, "tools", "claims.json")))
na = claims.get("_not_applicable", {})
hooks = claims["_hooks"]
m = {"version": 1, "setup_cmd": "./check --setup", "hooks": hooks,
     "engines": [
         {"name": "coq-models", "path": "/verif/coq", "serves_properties": [], "kind_free_text": "Coq 8.16.1 development (namespace BV): executable Gallina models, specs and theorems; regenerated tables under theories/gen; extracted with ExtrOcamlBasic to the OCaml runner /verif/ocaml"},
         {"name": "harness", "path": "/verif/harness", "serves_properties": [], "kind_free_text": "Rust crate brushverif (+ vbrush = the real brush CLI) built from /repo's working tree with path dependencies; drives the code at API, in-process-shell and process level"},
         {"name": "driver", "path": "/verif/check", "serves_properties": [], "kind_free_text": "python driver: audit, translator, proofs (make + coqc + Print Assumptions), correspondence, property evaluation, failing-input search, evidence"}],
     "checks": [], "notes": claims.get("_notes", ""), "not_applicable": []}
for p in props:
    pid = p["id"]
    if pid in claims:
        c = claims[pid]
        for e in m["engines"]:
            e["serves_properties"].append(pid)
        m["checks"].append({
            "property_id": pid,
            "quick_cmd": "./check %s --tier quick" % pid,
            "thorough_cmd": "./check %s --tier thorough" % pid,
            "evidence_file": "/verif/evidence/%s.json" % pid,
            "replay_cmd_template": "./check %s --replay {path}" % pid,
            "engine": "coq-models",
            "level_claimed": {"category": c.get("category", "proof"), "text": c["text"], "design_ref": "DESIGN.md section 6, " + pid},
            "level_note": c["note"],
            "technique": c["technique"]})
    else:
        m["not_applicable"].append({"property_id": pid, "reason": na.get(pid, "check not built yet in this round (planned, see DESIGN.md section 6); not a claim that the technique cannot apply")})
json.dump(m, open(os.path.join(ROOT, "MANIFEST.json"), "w"), indent=1)
print("claimed:", [c["property_id"] for c in m["checks"]])
