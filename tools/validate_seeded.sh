#!/bin/bash
# usage: tools/validate_seeded.sh <dir with patch.diff, meta.json, demo.sh...>
# Confirms a seeded change: applies to a scratch worktree, builds brush, runs the demo on the unchanged
# and on the changed binary, runs the pinned suite; reverts.
set -u
D=$(readlink -f "$1")
W=${SCRATCH_REPO:-/var/tmp/rw-main}
[ -d "$W" ] || git -C /repo worktree add -q "$W" -b scratch/main-$$
git -C "$W" checkout -q -- . && git -C "$W" reset -q --hard "$(git -C /repo rev-parse HEAD)"
git -C "$W" apply "$D/patch.diff" || { echo "PATCH-DOES-NOT-APPLY"; exit 3; }
(cd "$W" && CARGO_NET_OFFLINE=true cargo build --offline -p brush-shell 2>&1 | tail -2)
echo "--- demo on unchanged binary"
(cd "$D" && BRUSH=/repo/target/debug/brush timeout 120 /repo/target/debug/brush demo.sh 2>&1 | head -30) > /var/tmp/demo-base-$$.txt
cat /var/tmp/demo-base-$$.txt
echo "--- demo on changed binary"
(cd "$D" && BRUSH=$W/target/debug/brush timeout 120 "$W/target/debug/brush" demo.sh 2>&1 | head -30) > /var/tmp/demo-mut-$$.txt
cat /var/tmp/demo-mut-$$.txt
if cmp -s /var/tmp/demo-base-$$.txt /var/tmp/demo-mut-$$.txt; then echo "DEMO-SAME (not demonstrated by demo.sh as run here)"; else echo "DEMO-DIFFERS"; fi
rm -f /var/tmp/demo-base-$$.txt /var/tmp/demo-mut-$$.txt
echo "--- suite"
/verif/tools/run_suite.sh "$W" | head -8
git -C "$W" checkout -q -- .
