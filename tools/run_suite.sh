#!/bin/bash
# usage: tools/run_suite.sh <repo checkout>   — runs the pinned suite there and compares with BASELINE.json
# prints "SUITE ok passed=N missing=0" or the list of baseline tests that no longer pass.
set -u
R=${1:-/repo}
cd "$R" || exit 2
export CARGO_NET_OFFLINE=true
rm -f target/nextest/pb/junit.xml
cargo nextest run --workspace --no-fail-fast --tool-config-file pb:/w/lib/nextest.toml --profile pb --test-threads ${THREADS:-8} --offline > /var/tmp/suite-$$.log 2>&1
python3 - "$R" <<'PY'
import json, sys, xml.etree.ElementTree as ET, glob
R = sys.argv[1]
b = json.load(open('/root/.vp/BASELINE.json'))
want = set(b['stable_pass'])
f = glob.glob(R + '/target/nextest/pb/junit.xml')
if not f:
    print("SUITE no-junit (build failure?)"); sys.exit(2)
passed = set()
for ts in ET.parse(f[0]).getroot().iter('testsuite'):
    for tc in ts.iter('testcase'):
        ok = not any(ch.tag in ('failure', 'error', 'skipped') for ch in tc)
        if ok:
            passed.add(tc.get('classname', '') + '::' + tc.get('name'))
missing = sorted(want - passed)
print("SUITE %s passed=%d missing=%d" % ("ok" if not missing else "FAIL", len(want & passed), len(missing)))
for m in missing[:40]:
    print("  missing:", m)
sys.exit(0 if not missing else 1)
PY
rc=$?
tail -3 /var/tmp/suite-$$.log; rm -f /var/tmp/suite-$$.log
exit $rc
