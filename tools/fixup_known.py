#!/usr/bin/env python3
"""Normalises known_findings.json: sorts findings and regenerates the `fixed` log lines
(`fixed: property=<id> <commit> <what failed>`) from the findings whose status is `fixed: <commit>`."""
import json, os, sys
ROOT = os.path.dirname(os.path.dirname(os.path.abspath(__file__)))
p = os.path.join(ROOT, "known_findings.json")
d = json.load(open(p))
flips = dict(a.split("=") for a in sys.argv[1:])
for f in d["findings"]:
    if f["id"] in flips:
        f["status"] = "fixed: " + flips[f["id"]]
d["findings"].sort(key=lambda f: (f["property"], f["id"]))
d["fixed"] = ["fixed: property=%s %s %s (%s)" % (f["property"], f["status"][7:], (f.get("what") or "")[:160].replace("\n", " "), f["id"])
              for f in d["findings"] if f["status"].startswith("fixed")]
json.dump(d, open(p, "w"), indent=1, ensure_ascii=False)
print(len(d["findings"]), "findings,", len(d["fixed"]), "fixed")
