#!/bin/bash
# usage: tools/try_seeded.sh <patch.diff> <ID> [tier]
# Applies the patch to a scratch worktree of /repo (so that concurrent builds against /repo are not
# disturbed), runs ./check <ID> against it through VERIF_REPO, and reverts. Prints the verdict line(s).
set -u
P=$(readlink -f "$1"); ID=$2; TIER=${3:-quick}
W=${SCRATCH_REPO:-/var/tmp/rw-main}
[ -d "$W" ] || git -C /repo worktree add -q "$W" -b scratch/main-$$
git -C "$W" checkout -q -- . && git -C "$W" reset -q --hard "$(git -C /repo rev-parse HEAD)"
git -C "$W" apply "$P" || { echo "PATCH-DOES-NOT-APPLY"; exit 3; }
cd ${VERIF_DIR:-/verif}
cp evidence/$ID.json /var/tmp/ev-$ID-$$.json 2>/dev/null
VERIF_REPO="$W" timeout 3000 ./check "$ID" --tier "$TIER" 2>/var/tmp/try-$ID-$$.err | tail -8
rc=${PIPESTATUS[0]}
echo "exit=$rc"
cp /var/tmp/ev-$ID-$$.json evidence/$ID.json 2>/dev/null; rm -f /var/tmp/ev-$ID-$$.json
git -C "$W" checkout -q -- .
exit $rc
