//! C01: "no input crashes the shell". Subcommand `c01`; case fields: <kind> <arg>*
//!   sh <script> [<opts>]     in-process shell run      -> `<status> <hex out> <hex err>`
//!   brace <word>             word::parse_brace_expansions -> `OK <hex json>`
//!   word <word>              word::parse               -> `OK <hex json>` | `ERR`
//!   hlall <line>             highlight_command at every char-boundary cursor -> `OK <n>`
//!   completeall <line>       Shell::complete at every char-boundary position -> `OK <n>`
//!   prompt <PS1>             Shell::compose_prompt      -> `OK <hex>` | `ERR`
//!   casemap <s>              `OK <hex upper(first char)> <hex lower(first char)>`
//!   case <s>                 Rust's Unicode tables: `OK <hex s.to_lowercase()> <hex upper(first)>`
//! Every case runs under catch_unwind (`PANIC <hex msg>`) and a watchdog: a case that exceeds
//! C01_TIMEOUT_MS prints `TIMEOUT` and the process exits with status 3 (the driver re-feeds the
//! unanswered cases to a fresh process).
use crate::util::{hex, panic_msg, unhex_str};
use std::sync::atomic::{AtomicU64, Ordering};

static DEADLINE_MS: AtomicU64 = AtomicU64::new(0);
static LAST_LOC: std::sync::Mutex<String> = std::sync::Mutex::new(String::new());

fn now_ms() -> u64 {
    std::time::SystemTime::now()
        .duration_since(std::time::UNIX_EPOCH)
        .map(|d| d.as_millis() as u64)
        .unwrap_or(0)
}

pub fn run(sub: &str, cases: &[Vec<String>]) -> bool {
    if sub != "c01" {
        return false;
    }
    main_c01(cases);
    true
}

fn arg(c: &[String], i: usize) -> String {
    unhex_str(c.get(i).map(|s| s.as_str()).unwrap_or("-"))
}

fn boundaries(s: &str) -> Vec<usize> {
    let mut v: Vec<usize> = s.char_indices().map(|(i, _)| i).collect();
    v.push(s.len());
    v
}

fn main_c01(cases: &[Vec<String>]) {
    let timeout_ms: u64 = std::env::var("C01_TIMEOUT_MS")
        .ok()
        .and_then(|s| s.parse().ok())
        .unwrap_or(10_000);
    std::panic::set_hook(Box::new(|info| {
        if let (Some(l), Ok(mut g)) = (info.location(), LAST_LOC.lock()) {
            *g = format!("{}:{}", l.file(), l.line());
        }
    }));
    std::thread::spawn(move || {
        loop {
            std::thread::sleep(std::time::Duration::from_millis(25));
            let d = DEADLINE_MS.load(Ordering::SeqCst);
            if d != 0 && now_ms() > d {
                println!("TIMEOUT");
                std::process::exit(3);
            }
        }
    });
    let rt = tokio::runtime::Builder::new_multi_thread()
        .worker_threads(2)
        .enable_all()
        .build()
        .expect("rt");
    let mut shared_shell: Option<brush_core::Shell> = None;
    for c in cases {
        let kind = arg(c, 0);
        DEADLINE_MS.store(now_ms() + timeout_ms, Ordering::SeqCst);
        let r = std::panic::catch_unwind(std::panic::AssertUnwindSafe(|| -> String {
            match kind.as_str() {
                "sh" => {
                    let script = arg(c, 1);
                    let opts = arg(c, 2);
                    let r = crate::sh::run_script(&rt, "s", &script, &opts);
                    format!("{} {} {}", r.status, hex(&r.out), hex(&r.err))
                }
                "brace" => {
                    let w = arg(c, 1);
                    let opts = brush_parser::ParserOptions::default();
                    match brush_parser::word::parse_brace_expansions(&w, &opts) {
                        Ok(v) => format!(
                            "OK {}",
                            hex(serde_json::to_string(&v).unwrap_or_default().as_bytes())
                        ),
                        Err(_) => "ERR".to_string(),
                    }
                }
                "word" => {
                    let w = arg(c, 1);
                    let opts = brush_parser::ParserOptions::default();
                    match brush_parser::word::parse(&w, &opts) {
                        Ok(v) => format!(
                            "OK {}",
                            hex(serde_json::to_string(&v).unwrap_or_default().as_bytes())
                        ),
                        Err(_) => "ERR".to_string(),
                    }
                }
                "case" => {
                    let s = arg(c, 1);
                    let l = s.to_lowercase();
                    let u = l
                        .chars()
                        .next()
                        .map(|ch| ch.to_uppercase().to_string())
                        .unwrap_or_default();
                    format!("OK {} {}", hex(l.as_bytes()), hex(u.as_bytes()))
                }
                "casemap" => {
                    // Rust's case mapping of the FIRST character, as sequences
                    let s = arg(c, 1);
                    let (u, l) = s
                        .chars()
                        .next()
                        .map(|ch| (ch.to_uppercase().to_string(), ch.to_lowercase().to_string()))
                        .unwrap_or_default();
                    format!("OK {} {}", hex(u.as_bytes()), hex(l.as_bytes()))
                }
                "hlall" | "completeall" | "prompt" => {
                    if shared_shell.is_none() {
                        let out = std::fs::File::options()
                            .write(true)
                            .open("/dev/null")
                            .expect("devnull");
                        shared_shell =
                            rt.block_on(async { crate::sh::new_shell(&out, &out, "noenv").await.ok() });
                    }
                    let Some(shell) = shared_shell.as_mut() else {
                        return "NOSHELL".to_string();
                    };
                    let line = arg(c, 1);
                    match kind.as_str() {
                        "hlall" => {
                            let mut n = 0usize;
                            for cur in boundaries(&line) {
                                let h = brush_interactive::highlighting::highlight_command(
                                    shell, &line, cur,
                                );
                                // touch every span's text: slicing at a bad offset panics here
                                for sp in h.spans() {
                                    n += h.text(sp).len().min(1);
                                }
                                n += 1;
                            }
                            format!("OK {n}")
                        }
                        "completeall" => {
                            let mut n = 0usize;
                            for pos in boundaries(&line) {
                                let r = rt.block_on(async { shell.complete(&line, pos).await });
                                if let Ok(c) = r {
                                    n += c.candidates.len();
                                }
                            }
                            format!("OK {n}")
                        }
                        _ => {
                            let _ = shell.env_mut().set_global(
                                "PS1",
                                brush_core::ShellVariable::new(line.clone()),
                            );
                            match rt.block_on(async { shell.compose_prompt().await }) {
                                Ok(p) => format!("OK {}", hex(p.as_bytes())),
                                Err(_) => "ERR".to_string(),
                            }
                        }
                    }
                }
                _ => "?kind".to_string(),
            }
        }));
        DEADLINE_MS.store(0, Ordering::SeqCst);
        match r {
            Ok(s) => println!("{s}"),
            Err(e) => {
                // a panic may have left the shared shell in a broken state
                shared_shell = None;
                let loc = LAST_LOC.lock().map(|g| g.clone()).unwrap_or_default();
                println!(
                    "PANIC {} {}",
                    hex(panic_msg(&e).as_bytes()),
                    hex(loc.as_bytes())
                );
            }
        }
    }
}
