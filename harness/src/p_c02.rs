//! C02/C03: `c02` subcommand. Case fields: <script>
//! Runs the script through `Shell::run_string` in an in-process shell and prints
//! `<status> <flow> <$? afterwards> <hex stdout>` where flow is N | B<k> | C<k> | R | X,
//! or `PANIC <hex msg>`.
use crate::sh::new_shell;
use crate::util::{hex, panic_msg, unhex_str};
use std::io::{Read, Seek};

fn tmpfile(tag: &str) -> std::fs::File {
    let dir = std::env::var("VERIF_SCRATCH").unwrap_or_else(|_| "/var/tmp".to_string());
    let p = format!(
        "{dir}/bvcf-{tag}-{}-{}",
        std::process::id(),
        std::time::SystemTime::now()
            .duration_since(std::time::UNIX_EPOCH)
            .map(|d| d.as_nanos())
            .unwrap_or(0)
    );
    let f = std::fs::File::options()
        .read(true)
        .write(true)
        .create_new(true)
        .open(&p)
        .expect("tmpfile");
    let _ = std::fs::remove_file(&p);
    f
}

fn run_one(rt: &tokio::runtime::Runtime, script: &str) -> (i32, String, i32, Vec<u8>) {
    let mut out = tmpfile("o");
    let err = tmpfile("e");
    let (status, flow, last) = rt.block_on(async {
        let mut shell = match new_shell(&out, &err, "").await {
            Ok(s) => s,
            Err(_) => return (-2, "?".to_string(), -2),
        };
        let params = shell.default_exec_params();
        let si = brush_core::SourceInfo::from("verif");
        match shell.run_string(script.to_string(), &si, &params).await {
            Ok(res) => {
                let flow = match res.next_control_flow {
                    brush_core::ExecutionControlFlow::Normal => "N".to_string(),
                    brush_core::ExecutionControlFlow::BreakLoop { levels } => format!("B{levels}"),
                    brush_core::ExecutionControlFlow::ContinueLoop { levels } => {
                        format!("C{levels}")
                    }
                    brush_core::ExecutionControlFlow::ReturnFromFunctionOrScript => "R".to_string(),
                    brush_core::ExecutionControlFlow::ExitShell => "X".to_string(),
                };
                (
                    i32::from(u8::from(res.exit_code)),
                    flow,
                    i32::from(shell.last_exit_status()),
                )
            }
            Err(_) => (-1, "E".to_string(), -1),
        }
    });
    let mut o = vec![];
    let _ = out.rewind();
    let _ = out.read_to_end(&mut o);
    (status, flow, last, o)
}

pub fn run(sub: &str, cases: &[Vec<String>]) -> bool {
    if sub != "c02" {
        return false;
    }
    // Each case runs on a worker thread; a case that does not finish within the limit is
    // reported as TIMEOUT and its thread is abandoned (the process exits after the last case).
    let limit = std::time::Duration::from_secs(
        std::env::var("VERIF_CASE_TIMEOUT")
            .ok()
            .and_then(|s| s.parse().ok())
            .unwrap_or(10),
    );
    for c in cases {
        let script = unhex_str(c.first().map(|s| s.as_str()).unwrap_or("-"));
        let (tx, rx) = std::sync::mpsc::channel();
        std::thread::spawn(move || {
            let r = std::panic::catch_unwind(std::panic::AssertUnwindSafe(|| {
                let rt = tokio::runtime::Builder::new_multi_thread()
                    .worker_threads(1)
                    .enable_all()
                    .build()
                    .expect("rt");
                run_one(&rt, &script)
            }));
            let line = match r {
                Ok((status, flow, last, out)) => {
                    format!("{} {} {} {}", status, flow, last, hex(&out))
                }
                Err(e) => format!("PANIC {}", hex(panic_msg(&e).as_bytes())),
            };
            let _ = tx.send(line);
        });
        match rx.recv_timeout(limit) {
            Ok(line) => println!("{line}"),
            Err(_) => println!("TIMEOUT"),
        }
    }
    use std::io::Write;
    let _ = std::io::stdout().flush();
    std::process::exit(0);
}
