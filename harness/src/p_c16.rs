//! C16 (also used by C18's process-level exploration).
//!
//! `trapsproc`: process-level runs of the real CLI (`vbrush`, built from /repo by this crate).
//!   Case fields: <frontend c|f|s[:flags]> <shell: v = vbrush | b = /usr/bin/bash> <script> (<file name> <file content>)*
//!   Output: `<exit status> <hex stdout> <elapsed ms>` (status -1: killed by signal / timeout: `TIMEOUT`).
//!   Every case runs in its own process group, killed when the case ends; the child is capped by
//!   RLIMIT_CPU and RLIMIT_AS. Wall budget per case: env VERIF_CASE_TIMEOUT (seconds, default 20),
//!   CPU budget: VERIF_CASE_CPU (seconds, default = wall budget + 10).
//!   The script may refer to `$D` (exported): the case's private scratch directory where the
//!   extra files (sourced scripts) are written.
use crate::util::{hex, unhex_str};
use std::io::{Read, Write};
use std::process::{Command, Stdio};
use std::time::{Duration, Instant};

pub fn run(sub: &str, cases: &[Vec<String>]) -> bool {
    match sub {
        "trapsproc" => {
            main_proc(cases);
            true
        }
        _ => false,
    }
}

fn vbrush_path() -> std::path::PathBuf {
    if let Ok(p) = std::env::var("VERIF_VBRUSH") {
        return p.into();
    }
    let exe = std::env::current_exe().expect("current_exe");
    exe.parent().expect("parent").join("vbrush")
}

fn main_proc(cases: &[Vec<String>]) {
    let base = std::env::var("VERIF_SCRATCH").unwrap_or_else(|_| "/var/tmp".to_string());
    let dir = format!("{base}/traps-{}", std::process::id());
    let _ = std::fs::create_dir_all(&dir);
    let vb = vbrush_path();
    let wall: u64 = std::env::var("VERIF_CASE_TIMEOUT").ok().and_then(|s| s.parse().ok()).unwrap_or(20);
    let cpu: u64 = std::env::var("VERIF_CASE_CPU").ok().and_then(|s| s.parse().ok()).unwrap_or(wall + 10);
    for (k, c) in cases.iter().enumerate() {
        // front-end, optionally followed by ":" and blank-separated invocation flags (e.g. "s:-t", "f:-e")
        let fe_full = c.first().map(|s| unhex_str(s)).unwrap_or_default();
        let (fe, flags) = match fe_full.split_once(':') {
            Some((a, b)) => (a.to_string(), b.to_string()),
            None => (fe_full.clone(), String::new()),
        };
        let which = c.get(1).map(|s| unhex_str(s)).unwrap_or_default();
        let script = c.get(2).map(|s| unhex_str(s)).unwrap_or_default();
        let cdir = format!("{dir}/{k}");
        let _ = std::fs::create_dir_all(&cdir);
        let mut i = 3;
        while i + 1 < c.len() {
            let name = unhex_str(&c[i]);
            let content = unhex_str(&c[i + 1]);
            let _ = std::fs::write(format!("{cdir}/{name}"), content);
            i += 2;
        }
        let mut cmd = if which == "b" {
            let mut c = Command::new("/usr/bin/bash");
            c.arg("--norc").arg("--noprofile");
            c
        } else {
            let mut c = Command::new(&vb);
            c.arg("--norc").arg("--noprofile").arg("--no-config");
            c
        };
        for f in flags.split(' ').filter(|f| !f.is_empty()) {
            cmd.arg(f);
        }
        cmd.env_clear()
            .env("PATH", "/usr/bin:/bin")
            .env("D", &cdir)
            .env("HOME", &cdir)
            .current_dir(&cdir)
            .stdout(Stdio::piped())
            .stderr(Stdio::null());
        match fe.as_str() {
            "c" => {
                cmd.arg("-c").arg(&script).stdin(Stdio::null());
            }
            "f" => {
                let p = format!("{cdir}/main.sh");
                let _ = std::fs::write(&p, &script);
                cmd.arg(&p).stdin(Stdio::null());
            }
            _ => {
                cmd.stdin(Stdio::piped());
            }
        }
        // own process group per case: everything the case forks (also orphans of a runaway
        // recursion, in brush or in the bash oracle) is killed when the case ends or times out
        {
            use std::os::unix::process::CommandExt as _;
            cmd.process_group(0);
            // caps inherited by everything the case forks: CPU seconds and address space
            #[allow(unsafe_code)]
            // SAFETY: setrlimit(2) is async-signal-safe; nothing else happens between fork and exec.
            unsafe {
                cmd.pre_exec(move || {
                    let c = libc::rlimit { rlim_cur: cpu, rlim_max: cpu };
                    libc::setrlimit(libc::RLIMIT_CPU, &c);
                    let a = libc::rlimit { rlim_cur: 6 << 30, rlim_max: 6 << 30 };
                    libc::setrlimit(libc::RLIMIT_AS, &a);
                    Ok(())
                });
            }
        }
        let line = match cmd.spawn() {
            Err(e) => format!("SPAWNFAIL {}", hex(e.to_string().as_bytes())),
            Ok(mut child) => {
                if let Some(mut si) = child.stdin.take() {
                    let _ = si.write_all(script.as_bytes());
                    drop(si);
                }
                let mut so = child.stdout.take().expect("stdout");
                let t = std::thread::spawn(move || {
                    let mut v = vec![];
                    let _ = so.read_to_end(&mut v);
                    v
                });
                let start = Instant::now();
                let mut status = None;
                while start.elapsed() < Duration::from_secs(wall) {
                    match child.try_wait() {
                        Ok(Some(st)) => {
                            status = Some(st);
                            break;
                        }
                        Ok(None) => std::thread::sleep(Duration::from_millis(2)),
                        Err(_) => break,
                    }
                }
                #[allow(unsafe_code)]
                // SAFETY: plain killpg(2) on the group created for this case.
                unsafe {
                    libc::killpg(child.id() as i32, libc::SIGKILL);
                }
                if status.is_none() {
                    let _ = child.kill();
                    let _ = child.wait();
                    let _ = t.join();
                    "TIMEOUT".to_string()
                } else {
                    let out = t.join().unwrap_or_default();
                    let code = status.and_then(|s| s.code()).unwrap_or(-1);
                    let ms = start.elapsed().as_millis();
                    format!(
                        "{} {} {}",
                        hex(code.to_string().as_bytes()),
                        hex(&out),
                        hex(ms.to_string().as_bytes())
                    )
                }
            }
        };
        println!("{line}");
        let _ = std::fs::remove_dir_all(&cdir);
    }
    let _ = std::fs::remove_dir_all(&dir);
}

