//! C18: `depth` — in-process session. Case fields: <maxdepth or _> <n> then n times <command>, then
//! (<file name> <file content>)* written to the scratch directory `$D`.
//!   One `run_string` per command on one shell; after each, the scope-stack and call-stack depths
//!   read from the serde dump of `Shell`, the status and the control flow. Stops after ExitShell.
//!   Output: (scopes frames status flow)* as hex fields, or `PANIC <hex msg>`.
use crate::util::{hex, panic_msg, unhex_str};
use brush_builtins::ShellBuilderExt;

pub fn run(sub: &str, cases: &[Vec<String>]) -> bool {
    if sub != "depth" {
        return false;
    }
    // this subcommand runs the shell in-process and its language spawns no child processes; the
    // harness process itself is capped so that a runaway cannot exhaust the machine
    #[allow(unsafe_code)]
    // SAFETY: plain setrlimit(2) on this process.
    unsafe {
        let a = libc::rlimit { rlim_cur: 8 << 30, rlim_max: 8 << 30 };
        libc::setrlimit(libc::RLIMIT_AS, &a);
    }
    // deeply nested programs recurse deeply through the interpreter's futures (debug build):
    // run on a thread with a large stack rather than on the 8 MiB main thread
    let owned: Vec<Vec<String>> = cases.to_vec();
    let h = std::thread::Builder::new()
        .stack_size(256 << 20)
        .spawn(move || main_depth(&owned))
        .expect("thread");
    let _ = h.join();
    true
}

fn depths(shell: &brush_core::Shell) -> (usize, usize) {
    let v = serde_json::to_value(shell).unwrap_or(serde_json::Value::Null);
    let scopes = v
        .get("env")
        .and_then(|e| e.get("scopes"))
        .and_then(|s| s.as_array())
        .map(|a| a.len())
        .unwrap_or(usize::MAX);
    let frames = v
        .get("call_stack")
        .and_then(|c| c.get("frames"))
        .and_then(|s| s.as_array())
        .map(|a| a.len())
        .unwrap_or(usize::MAX);
    (scopes, frames)
}

fn main_depth(cases: &[Vec<String>]) {
    let rt = tokio::runtime::Builder::new_multi_thread()
        .worker_threads(2)
        .enable_all()
        .build()
        .expect("rt");
    let base = std::env::var("VERIF_SCRATCH").unwrap_or_else(|_| "/var/tmp".to_string());
    let dir = format!("{base}/depth-{}", std::process::id());
    let _ = std::fs::create_dir_all(&dir);
    for c in cases {
        let md = c.first().map(|s| unhex_str(s)).unwrap_or_default();
        let n: usize = c.get(1).map(|s| unhex_str(s)).and_then(|s| s.parse().ok()).unwrap_or(0);
        let cmds: Vec<String> = (0..n).filter_map(|i| c.get(2 + i)).map(|s| unhex_str(s)).collect();
        // remaining pairs: files
        let mut i = 2 + n;
        while i + 1 < c.len() {
            let _ = std::fs::write(format!("{dir}/{}", unhex_str(&c[i])), unhex_str(&c[i + 1]));
            i += 2;
        }
        let dirc = dir.clone();
        let r = std::panic::catch_unwind(std::panic::AssertUnwindSafe(|| {
            rt.block_on(async {
                let out = std::fs::File::options().write(true).open("/dev/null").expect("null");
                let mut fds = std::collections::HashMap::new();
                fds.insert(0, brush_core::openfiles::null().expect("null"));
                fds.insert(1, brush_core::openfiles::OpenFile::from(out.try_clone().expect("clone")));
                fds.insert(2, brush_core::openfiles::OpenFile::from(out));
                let b = brush_core::Shell::builder()
                    .profile(brush_core::ProfileLoadBehavior::Skip)
                    .rc(brush_core::RcLoadBehavior::Skip)
                    .default_builtins(brush_builtins::BuiltinSet::BashMode)
                    .shell_name("brush".to_string())
                    .do_not_inherit_env(true)
                    .fds(fds)
                    .maybe_max_function_call_depth(md.parse::<usize>().ok());
                let mut shell = b.build().await.expect("shell");
                let params = shell.default_exec_params();
                let si = brush_core::SourceInfo::from("verif");
                let _ = shell
                    .run_string(format!("D={dirc}; PATH=/usr/bin:/bin"), &si, &params)
                    .await;
                let mut fields: Vec<String> = vec![];
                for cmd in &cmds {
                    let res = shell.run_string(cmd.clone(), &si, &params).await;
                    let (sc, fr) = depths(&shell);
                    let flow = match &res {
                        Ok(r) => match r.next_control_flow {
                            brush_core::ExecutionControlFlow::Normal => "n",
                            brush_core::ExecutionControlFlow::ReturnFromFunctionOrScript => "r",
                            brush_core::ExecutionControlFlow::ExitShell => "x",
                            _ => "b",
                        },
                        Err(_) => "e",
                    };
                    fields.push(sc.to_string());
                    fields.push(fr.to_string());
                    fields.push(shell.last_exit_status().to_string());
                    fields.push(flow.to_string());
                    if flow == "x" {
                        break;
                    }
                }
                fields
            })
        }));
        match r {
            Ok(f) => println!(
                "{}",
                f.iter().map(|s| hex(s.as_bytes())).collect::<Vec<_>>().join(" ")
            ),
            Err(e) => println!("PANIC {}", hex(panic_msg(&e).as_bytes())),
        }
    }
    let _ = std::fs::remove_dir_all(&dir);
}
