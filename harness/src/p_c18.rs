//! C18: `iterfp` — generic leak detector. Case fields: <np> prologue commands…, <nb> body commands…, then
//! (<file name> <file content>)*. One shell; the prologue runs once, then the body 1, 2 and 50 times in all;
//! after 1, 2 and 50 iterations EVERY integer-valued field and EVERY array/map length of the serde dump of
//! `Shell` is recorded. Output: the paths whose value after 2 or 50 iterations differs from the value after 1,
//! as `path=v1/v2/v50` fields (none: the k-th iteration leaves the shell as the first did).
//!
//! `depth` — in-process session. Case fields: <maxdepth or _> <n> then n times <command>, then
//! (<file name> <file content>)* written to the scratch directory `$D`.
//!   One `run_string` per command on one shell; after each, the scope-stack and call-stack depths
//!   read from the serde dump of `Shell`, the status and the control flow. Stops after ExitShell.
//!   Output: (scopes frames status flow)* as hex fields, or `PANIC <hex msg>`.
use crate::util::{hex, panic_msg, unhex_str};
use brush_builtins::ShellBuilderExt;

pub fn run(sub: &str, cases: &[Vec<String>]) -> bool {
    if sub != "depth" && sub != "iterfp" {
        return false;
    }
    let iterfp = sub == "iterfp";
    // this subcommand runs the shell in-process and its language spawns no child processes; the
    // harness process itself is capped so that a runaway cannot exhaust the machine
    #[allow(unsafe_code)]
    // SAFETY: plain setrlimit(2) on this process.
    unsafe {
        let a = libc::rlimit { rlim_cur: 8 << 30, rlim_max: 8 << 30 };
        libc::setrlimit(libc::RLIMIT_AS, &a);
    }
    // deeply nested programs recurse deeply through the interpreter's futures (debug build):
    // run on a thread with a large stack rather than on the 8 MiB main thread
    let owned: Vec<Vec<String>> = cases.to_vec();
    let h = std::thread::Builder::new()
        .stack_size(256 << 20)
        .spawn(move || if iterfp { main_iterfp(&owned) } else { main_depth(&owned) })
        .expect("thread");
    let _ = h.join();
    true
}

fn depths(shell: &brush_core::Shell) -> (usize, usize) {
    let v = serde_json::to_value(shell).unwrap_or(serde_json::Value::Null);
    let scopes = v
        .get("env")
        .and_then(|e| e.get("scopes"))
        .and_then(|s| s.as_array())
        .map(|a| a.len())
        .unwrap_or(usize::MAX);
    let frames = v
        .get("call_stack")
        .and_then(|c| c.get("frames"))
        .and_then(|s| s.as_array())
        .map(|a| a.len())
        .unwrap_or(usize::MAX);
    (scopes, frames)
}

fn main_depth(cases: &[Vec<String>]) {
    let rt = tokio::runtime::Builder::new_multi_thread()
        .worker_threads(2)
        .enable_all()
        .build()
        .expect("rt");
    let base = std::env::var("VERIF_SCRATCH").unwrap_or_else(|_| "/var/tmp".to_string());
    let dir = format!("{base}/depth-{}", std::process::id());
    let _ = std::fs::create_dir_all(&dir);
    for c in cases {
        let md = c.first().map(|s| unhex_str(s)).unwrap_or_default();
        let n: usize = c.get(1).map(|s| unhex_str(s)).and_then(|s| s.parse().ok()).unwrap_or(0);
        let cmds: Vec<String> = (0..n).filter_map(|i| c.get(2 + i)).map(|s| unhex_str(s)).collect();
        // remaining pairs: files
        let mut i = 2 + n;
        while i + 1 < c.len() {
            let _ = std::fs::write(format!("{dir}/{}", unhex_str(&c[i])), unhex_str(&c[i + 1]));
            i += 2;
        }
        let dirc = dir.clone();
        let r = std::panic::catch_unwind(std::panic::AssertUnwindSafe(|| {
            rt.block_on(async {
                let out = std::fs::File::options().write(true).open("/dev/null").expect("null");
                let mut fds = std::collections::HashMap::new();
                fds.insert(0, brush_core::openfiles::null().expect("null"));
                fds.insert(1, brush_core::openfiles::OpenFile::from(out.try_clone().expect("clone")));
                fds.insert(2, brush_core::openfiles::OpenFile::from(out));
                let b = brush_core::Shell::builder()
                    .profile(brush_core::ProfileLoadBehavior::Skip)
                    .rc(brush_core::RcLoadBehavior::Skip)
                    .default_builtins(brush_builtins::BuiltinSet::BashMode)
                    .shell_name("brush".to_string())
                    .do_not_inherit_env(true)
                    .fds(fds)
                    .maybe_max_function_call_depth(md.parse::<usize>().ok());
                let mut shell = b.build().await.expect("shell");
                let params = shell.default_exec_params();
                let si = brush_core::SourceInfo::from("verif");
                let _ = shell
                    .run_string(format!("D={dirc}; PATH=/usr/bin:/bin"), &si, &params)
                    .await;
                let mut fields: Vec<String> = vec![];
                for cmd in &cmds {
                    let res = shell.run_string(cmd.clone(), &si, &params).await;
                    let (sc, fr) = depths(&shell);
                    let flow = match &res {
                        Ok(r) => match r.next_control_flow {
                            brush_core::ExecutionControlFlow::Normal => "n",
                            brush_core::ExecutionControlFlow::ReturnFromFunctionOrScript => "r",
                            brush_core::ExecutionControlFlow::ExitShell => "x",
                            _ => "b",
                        },
                        Err(_) => "e",
                    };
                    fields.push(sc.to_string());
                    fields.push(fr.to_string());
                    fields.push(shell.last_exit_status().to_string());
                    fields.push(flow.to_string());
                    if flow == "x" {
                        break;
                    }
                }
                fields
            })
        }));
        match r {
            Ok(f) => println!(
                "{}",
                f.iter().map(|s| hex(s.as_bytes())).collect::<Vec<_>>().join(" ")
            ),
            Err(e) => println!("PANIC {}", hex(panic_msg(&e).as_bytes())),
        }
    }
    let _ = std::fs::remove_dir_all(&dir);
}


fn fingerprint(v: &serde_json::Value, path: &str, out: &mut std::collections::BTreeMap<String, i128>) {
    match v {
        serde_json::Value::Number(n) => {
            if let Some(i) = n.as_i64() {
                out.insert(path.to_string(), i128::from(i));
            } else if let Some(u) = n.as_u64() {
                out.insert(path.to_string(), i128::from(u));
            }
        }
        serde_json::Value::Array(a) => {
            out.insert(format!("{path}#len"), a.len() as i128);
            for (i, x) in a.iter().enumerate() {
                fingerprint(x, &format!("{path}[{i}]"), out);
            }
        }
        serde_json::Value::Object(o) => {
            out.insert(format!("{path}#len"), o.len() as i128);
            for (k, x) in o {
                fingerprint(x, &format!("{path}.{k}"), out);
            }
        }
        _ => {}
    }
}

fn main_iterfp(cases: &[Vec<String>]) {
    let rt = tokio::runtime::Builder::new_multi_thread()
        .worker_threads(2)
        .enable_all()
        .build()
        .expect("rt");
    let base = std::env::var("VERIF_SCRATCH").unwrap_or_else(|_| "/var/tmp".to_string());
    let dir = format!("{base}/iterfp-{}", std::process::id());
    let _ = std::fs::create_dir_all(&dir);
    for c in cases {
        let get = |i: usize| c.get(i).map(|s| unhex_str(s)).unwrap_or_default();
        let np: usize = get(0).parse().unwrap_or(0);
        let pro: Vec<String> = (0..np).map(|i| get(1 + i)).collect();
        let nb: usize = get(1 + np).parse().unwrap_or(0);
        let body: Vec<String> = (0..nb).map(|i| get(2 + np + i)).collect();
        let mut i = 2 + np + nb;
        while i + 1 < c.len() {
            let _ = std::fs::write(format!("{dir}/{}", unhex_str(&c[i])), unhex_str(&c[i + 1]));
            i += 2;
        }
        let _ = std::fs::create_dir_all(format!("{dir}/work"));
        let dirc = dir.clone();
        let r = std::panic::catch_unwind(std::panic::AssertUnwindSafe(|| {
            rt.block_on(async {
                let out = std::fs::File::options().write(true).open("/dev/null").expect("null");
                let mut fds = std::collections::HashMap::new();
                fds.insert(0, brush_core::openfiles::null().expect("null"));
                fds.insert(1, brush_core::openfiles::OpenFile::from(out.try_clone().expect("clone")));
                fds.insert(2, brush_core::openfiles::OpenFile::from(out));
                let mut shell = brush_core::Shell::builder()
                    .profile(brush_core::ProfileLoadBehavior::Skip)
                    .rc(brush_core::RcLoadBehavior::Skip)
                    .default_builtins(brush_builtins::BuiltinSet::BashMode)
                    .shell_name("brush".to_string())
                    .do_not_inherit_env(true)
                    .fds(fds)
                    .build()
                    .await
                    .expect("shell");
                let params = shell.default_exec_params();
                let si = brush_core::SourceInfo::from("verif");
                let _ = shell
                    .run_string(format!("D={dirc}; PATH=/usr/bin:/bin; cd $D"), &si, &params)
                    .await;
                for cmd in &pro {
                    let _ = shell.run_string(cmd.clone(), &si, &params).await;
                }
                let mut fps = vec![];
                let mut done = 0;
                for target in [1usize, 2, 50] {
                    while done < target {
                        for cmd in &body {
                            let _ = shell.run_string(cmd.clone(), &si, &params).await;
                        }
                        done += 1;
                    }
                    let v = serde_json::to_value(&shell).unwrap_or(serde_json::Value::Null);
                    let mut m = std::collections::BTreeMap::new();
                    fingerprint(&v, "", &mut m);
                    fps.push(m);
                }
                let mut keys: std::collections::BTreeSet<String> = std::collections::BTreeSet::new();
                for m in &fps {
                    keys.extend(m.keys().cloned());
                }
                let mut fields = vec![];
                for k in keys {
                    let g = |m: &std::collections::BTreeMap<String, i128>| {
                        m.get(&k).map_or("-".to_string(), |x| x.to_string())
                    };
                    let (a, b, c50) = (g(&fps[0]), g(&fps[1]), g(&fps[2]));
                    if a != b || a != c50 {
                        fields.push(format!("{k}={a}/{b}/{c50}"));
                    }
                }
                fields
            })
        }));
        match r {
            Ok(f) => println!(
                "OK {}",
                f.iter().map(|s| hex(s.as_bytes())).collect::<Vec<_>>().join(" ")
            ),
            Err(e) => println!("PANIC {}", hex(panic_msg(&e).as_bytes())),
        }
    }
    let _ = std::fs::remove_dir_all(&dir);
}
