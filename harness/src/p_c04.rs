//! C04/C05: word expansion through the real shell.
//!
//! `xp`: case fields (hex): ctx ifs opts word NARGS arg* NVARS (name kind ...)* NDIR name*
//!   ctx:  arg | assign | arrelem | herestr | redir | casew | cond
//!   ifs:  "U" (unset) | "S"+value ;  opts: letters f n F e d b(no brace expansion)
//!   var:  name "s" value | name "a" N elem*
//!   The variables, positional parameters, IFS and options are installed through the API (never
//!   through the parser); only `word` is shell syntax.  argv is captured by a registered
//!   builtin `cap` (exact strings, no printing), stdin by `capin`.
//!   Output: `OK N field*` | `ERR` | `PANIC msg`  (fields hex, same wire format as the model).
//! `wparse`: fields: word flags -> JSON of brush_parser::word::parse (flags: c = tilde after colon,
//!   e = extglob), or `ERR`.
//! `bparse`: fields: word -> JSON of brush_parser::word::parse_brace_expansions.
use crate::util::{hex, panic_msg, unhex_str};
use brush_builtins::ShellBuilderExt;
use std::io::Read;
use std::sync::Mutex;

static CAPTURED: Mutex<Vec<Vec<String>>> = Mutex::new(Vec::new());
static CAPTURED_IN: Mutex<Vec<Vec<u8>>> = Mutex::new(Vec::new());

struct CapCommand {}

impl brush_core::builtins::SimpleCommand for CapCommand {
    fn get_content(
        _name: &str,
        _content_type: brush_core::builtins::ContentType,
        _options: &brush_core::builtins::ContentOptions,
    ) -> Result<String, brush_core::Error> {
        Ok("zz".into())
    }

    fn execute<SE: brush_core::ShellExtensions, I: Iterator<Item = S>, S: AsRef<str>>(
        _context: brush_core::ExecutionContext<'_, SE>,
        args: I,
    ) -> Result<brush_core::ExecutionResult, brush_core::Error> {
        let v: Vec<String> = args.map(|a| a.as_ref().to_owned()).collect();
        if let Ok(mut g) = CAPTURED.lock() {
            g.push(v);
        }
        Ok(brush_core::ExecutionResult::success())
    }
}

struct CapInCommand {}

impl brush_core::builtins::SimpleCommand for CapInCommand {
    fn get_content(
        _name: &str,
        _content_type: brush_core::builtins::ContentType,
        _options: &brush_core::builtins::ContentOptions,
    ) -> Result<String, brush_core::Error> {
        Ok("zzin".into())
    }

    fn execute<SE: brush_core::ShellExtensions, I: Iterator<Item = S>, S: AsRef<str>>(
        context: brush_core::ExecutionContext<'_, SE>,
        _args: I,
    ) -> Result<brush_core::ExecutionResult, brush_core::Error> {
        let mut buf = vec![];
        let _ = context.stdin().read_to_end(&mut buf);
        if let Ok(mut g) = CAPTURED_IN.lock() {
            g.push(buf);
        }
        Ok(brush_core::ExecutionResult::success())
    }
}

async fn new_shell() -> Result<brush_core::Shell, brush_core::Error> {
    let mut fds = std::collections::HashMap::new();
    fds.insert(0, brush_core::openfiles::null()?);
    fds.insert(1, brush_core::openfiles::null()?);
    fds.insert(2, brush_core::openfiles::null()?);
    brush_core::Shell::builder()
        .profile(brush_core::ProfileLoadBehavior::Skip)
        .rc(brush_core::RcLoadBehavior::Skip)
        .default_builtins(brush_builtins::BuiltinSet::BashMode)
        .builtin("zz", brush_core::builtins::simple_builtin::<CapCommand, _>())
        .builtin("zzin", brush_core::builtins::simple_builtin::<CapInCommand, _>())
        .shell_name("brush".to_string())
        .do_not_inherit_env(true)
        .fds(fds)
        .build()
        .await
}

struct Case {
    ctx: String,
    ifs: String,
    opts: String,
    word: String,
    args: Vec<String>,
    vars: Vec<(String, Option<String>, Vec<String>)>,
    names: Vec<String>,
}

fn parse_case(f: &[String]) -> Option<Case> {
    let mut i = 4;
    let n: usize = f.get(i)?.parse().ok()?;
    i += 1;
    let args = f.get(i..i + n)?.to_vec();
    i += n;
    let nv: usize = f.get(i)?.parse().ok()?;
    i += 1;
    let mut vars = vec![];
    for _ in 0..nv {
        let name = f.get(i)?.clone();
        let kind = f.get(i + 1)?.clone();
        i += 2;
        if kind == "s" {
            vars.push((name, Some(f.get(i)?.clone()), vec![]));
            i += 1;
        } else {
            let k: usize = f.get(i)?.parse().ok()?;
            i += 1;
            vars.push((name, None, f.get(i..i + k)?.to_vec()));
            i += k;
        }
    }
    let nd: usize = f.get(i)?.parse().ok()?;
    i += 1;
    let names = f.get(i..i + nd)?.to_vec();
    Some(Case {
        ctx: f[0].clone(),
        ifs: f[1].clone(),
        opts: f[2].clone(),
        word: f[3].clone(),
        args,
        vars,
        names,
    })
}

fn make_dir(base: &std::path::Path, names: &[String], fresh: Option<usize>) -> std::path::PathBuf {
    use std::hash::{Hash, Hasher};
    let mut h = std::collections::hash_map::DefaultHasher::new();
    names.hash(&mut h);
    let d = match fresh {
        Some(k) => base.join(format!("r{k}")),
        None => base.join(format!("d{:016x}", h.finish())),
    };
    if !d.exists() {
        let _ = std::fs::create_dir_all(&d);
        for n in names {
            let _ = std::fs::write(d.join(n), b"");
        }
    }
    d
}

/// the per-process scratch directory of the current case; its path is replaced by `@BASE@` in every
/// reported field so that `~+`-style results are comparable with the model and with bash
static BASE_DIR: Mutex<String> = Mutex::new(String::new());

fn ok_line(fields: &[String]) -> String {
    let base = BASE_DIR.lock().map(|g| g.clone()).unwrap_or_default();
    let mut s = format!("{} {}", hex(b"OK"), hex(fields.len().to_string().as_bytes()));
    for f in fields {
        s.push(' ');
        if base.is_empty() {
            s.push_str(&hex(f.as_bytes()));
        } else {
            s.push_str(&hex(f.replace(&base, "@BASE@").as_bytes()));
        }
    }
    s
}

fn err_line() -> String {
    hex(b"ERR")
}

fn run_case(rt: &tokio::runtime::Runtime, base: &std::path::Path, ci: usize, c: &Case) -> String {
    let has = |ch: char| c.opts.contains(ch);
    let sub = c.vars.iter().find(|(n, _, _)| n == "cwdsub__").and_then(|(_, v, _)| v.clone());
    let mut dir = match &sub {
        // a case that works in a subdirectory gets a parent of its own (holding nothing but that subdirectory)
        Some(sub) => {
            use std::hash::{Hash, Hasher};
            let mut h = std::collections::hash_map::DefaultHasher::new();
            c.names.hash(&mut h);
            sub.hash(&mut h);
            let d = base.join(format!("s{:016x}", h.finish()));
            let _ = std::fs::create_dir_all(&d);
            d
        }
        None => make_dir(base, &c.names, if c.ctx == "redir" { Some(ci) } else { None }),
    };
    if let Ok(mut g) = BASE_DIR.lock() {
        *g = dir.to_string_lossy().into_owned();
    }
    // the pseudo variable `cwdsub__` names a subdirectory (any characters but '/') to work in: `~+`, `~0`
    if let Some(sub) = &sub {
        let d2 = dir.join(sub);
        if !d2.exists() {
            let _ = std::fs::create_dir_all(&d2);
            for n in &c.names {
                let _ = std::fs::write(d2.join(n), b"");
            }
        }
        dir = d2;
    }
    if let Ok(mut g) = CAPTURED.lock() {
        g.clear();
    }
    if let Ok(mut g) = CAPTURED_IN.lock() {
        g.clear();
    }
    let script = match c.ctx.as_str() {
        "arg" => format!("zz {}", c.word),
        "assign" => format!("y__={}", c.word),
        "arrelem" => format!("y__=({})", c.word),
        "herestr" => format!("zzin <<<{}", c.word),
        "redir" => format!("zz >{}", c.word),
        // boolean contexts: the word is compared with the quoted reference variable ref__
        "casew" => format!("case {} in \"$ref__\") zz 1;; *) zz 0;; esac", c.word),
        "casep" => format!("case \"$ref__\" in {}) zz 1;; *) zz 0;; esac", c.word),
        "cond" => format!("if [[ {} == \"$ref__\" ]]; then zz 1; else zz 0; fi", c.word),
        "condp" => format!("if [[ \"$ref__\" == {} ]]; then zz 1; else zz 0; fi", c.word),
        "condn" => format!("if [[ -n {} ]]; then zz 1; else zz 0; fi", c.word),
        // several operations in ONE shell: the script is given verbatim, every `zz` call is reported
        "multi" => c.word.clone(),
        _ => return hex(b"BADCTX"),
    };
    let (status, shell) = rt.block_on(async {
        let mut shell = match new_shell().await {
            Ok(s) => s,
            Err(_) => return (-2, None),
        };
        let _ = shell.set_working_dir(&dir);
        let _ = shell.env_mut().unset("OLDPWD");
        {
            let o = shell.options_mut();
            o.disable_filename_globbing = has('f');
            o.expand_non_matching_patterns_to_null = has('n');
            o.fail_expansion_on_globs_without_match = has('F');
            o.extended_globbing = has('e');
            o.glob_matches_dotfiles = has('d');
            o.perform_brace_expansion = !has('b');
        }
        *shell.current_shell_args_mut() = c.args.clone();
        for (name, sval, arr) in &c.vars {
            if name == "cwdsub__" {
                continue;
            }
            let var = match sval {
                Some(v) => brush_core::ShellVariable::new(v.clone()),
                None => brush_core::ShellVariable::new(brush_core::variables::ShellValue::indexed_array_from_strings(arr.clone())),
            };
            let _ = shell.env_mut().set_global(name.clone(), var);
        }
        if c.ifs == "U" {
            let _ = shell.env_mut().unset("IFS");
        } else {
            let _ = shell
                .env_mut()
                .set_global("IFS", brush_core::ShellVariable::new(c.ifs[1..].to_string()));
        }
        let params = shell.default_exec_params();
        let si = brush_core::SourceInfo::from("verif");
        let r = shell.run_string(script, &si, &params).await;
        let st = match r {
            Ok(res) => i32::from(u8::from(res.exit_code)),
            Err(_) => -1,
        };
        (st, Some(shell))
    });
    let Some(shell) = shell else {
        return hex(b"NOSHELL");
    };
    let line = match c.ctx.as_str() {
        "assign" => {
            if status != 0 {
                err_line()
            } else {
                match shell.env().get("y__") {
                    Some((_, v)) => match v.value() {
                        brush_core::variables::ShellValue::String(s) => ok_line(&[s.clone()]),
                        _ => hex(b"NOTSCALAR"),
                    },
                    None => err_line(),
                }
            }
        }
        "arrelem" => {
            if status != 0 {
                err_line()
            } else {
                match shell.env().get("y__") {
                    Some((_, v)) => ok_line(&v.value().element_values(&shell)),
                    None => err_line(),
                }
            }
        }
        "herestr" => {
            let g = CAPTURED_IN.lock().map(|g| g.clone()).unwrap_or_default();
            if status != 0 || g.len() != 1 {
                err_line()
            } else {
                ok_line(&[String::from_utf8_lossy(&g[0]).into_owned()])
            }
        }
        "redir" => {
            let g = CAPTURED.lock().map(|g| g.clone()).unwrap_or_default();
            if status != 0 || g.len() != 1 {
                err_line()
            } else {
                let mut now: Vec<String> = std::fs::read_dir(&dir)
                    .map(|d| {
                        d.filter_map(|e| e.ok())
                            .map(|e| e.file_name().to_string_lossy().into_owned())
                            .collect()
                    })
                    .unwrap_or_default();
                now.retain(|n| !c.names.contains(n));
                now.sort();
                // an existing name as target leaves no new entry: report the truncated one? The
                // driver only uses targets that are not existing names.
                ok_line(&now)
            }
        }
        "multi" => {
            let g = CAPTURED.lock().map(|g| g.clone()).unwrap_or_default();
            let mut f = vec![g.len().to_string()];
            for call in &g {
                f.push((call.len() - 1).to_string());
                f.extend(call[1..].iter().cloned());
            }
            ok_line(&f)
        }
        _ => {
            let g = CAPTURED.lock().map(|g| g.clone()).unwrap_or_default();
            if status != 0 || g.len() != 1 {
                err_line()
            } else {
                ok_line(&g[0][1..])
            }
        }
    };
    if c.ctx == "redir" {
        let _ = std::fs::remove_dir_all(&dir);
    }
    line
}

pub fn run(sub: &str, cases: &[Vec<String>]) -> bool {
    match sub {
        "xp" => main_xp(cases),
        "wparse" => main_wparse(cases),
        "bparse" => main_bparse(cases),
        _ => return false,
    }
    true
}

fn main_xp(cases: &[Vec<String>]) {
    let rt = tokio::runtime::Builder::new_multi_thread()
        .worker_threads(2)
        .enable_all()
        .build()
        .expect("rt");
    let scratch = std::env::var("VERIF_SCRATCH").unwrap_or_else(|_| "/var/tmp".to_string());
    let base = std::path::PathBuf::from(format!("{scratch}/xp-{}", std::process::id()));
    let _ = std::fs::create_dir_all(&base);
    for (ci, c) in cases.iter().enumerate() {
        let f: Vec<String> = c.iter().map(|s| unhex_str(s)).collect();
        let r = std::panic::catch_unwind(std::panic::AssertUnwindSafe(|| match parse_case(&f) {
            Some(case) => run_case(&rt, &base, ci, &case),
            None => hex(b"BADCASE"),
        }));
        match r {
            Ok(l) => println!("{l}"),
            Err(e) => println!("PANIC {}", hex(panic_msg(&e).as_bytes())),
        }
    }
    let _ = std::fs::remove_dir_all(&base);
}

fn popts(flags: &str) -> brush_parser::ParserOptions {
    brush_parser::ParserOptions {
        enable_extended_globbing: flags.contains('e'),
        tilde_expansion_at_word_start: true,
        tilde_expansion_after_colon: flags.contains('c'),
        ..Default::default()
    }
}

fn main_wparse(cases: &[Vec<String>]) {
    for c in cases {
        let f: Vec<String> = c.iter().map(|s| unhex_str(s)).collect();
        let r = std::panic::catch_unwind(|| {
            let word = f.first().cloned().unwrap_or_default();
            let flags = f.get(1).cloned().unwrap_or_default();
            match brush_parser::word::parse(&word, &popts(&flags)) {
                Ok(p) => serde_json::to_string(&p).unwrap_or_else(|_| "ERR".into()),
                Err(_) => "ERR".to_string(),
            }
        });
        match r {
            Ok(l) => println!("{}", hex(l.as_bytes())),
            Err(e) => println!("PANIC {}", hex(panic_msg(&e).as_bytes())),
        }
    }
}

fn main_bparse(cases: &[Vec<String>]) {
    for c in cases {
        let f: Vec<String> = c.iter().map(|s| unhex_str(s)).collect();
        let r = std::panic::catch_unwind(|| {
            let word = f.first().cloned().unwrap_or_default();
            match brush_parser::word::parse_brace_expansions(&word, &popts("")) {
                Ok(p) => serde_json::to_string(&p).unwrap_or_else(|_| "ERR".into()),
                Err(_) => "ERR".to_string(),
            }
        });
        match r {
            Ok(l) => println!("{}", hex(l.as_bytes())),
            Err(e) => println!("PANIC {}", hex(panic_msg(&e).as_bytes())),
        }
    }
}
