//! C06: parameter-expansion operators. Subcommand `c06`.
//! Case fields: <script> <extglob 0/1> <haspattern 0/1> <pattern text> <nstrings> <string>*
//! Runs the script in a fresh in-process shell and, when pattern pieces are given, asks the
//! code's own matcher (`Pattern::exactly_matches`, the function the removal loops call through
//! `to_regex(true, true)`) about every listed string.
//! Output: `<status> <hex stdout> <stderr nonempty 0/1> <bits>` or `PANIC <hex msg>`;
//! bits: one of 0/1/E per string ("-" when there are none).
use crate::util::{hex, panic_msg, unhex_str};

pub fn run(sub: &str, cases: &[Vec<String>]) -> bool {
    if sub != "c06" {
        return false;
    }
    let rt = tokio::runtime::Builder::new_multi_thread()
        .worker_threads(2)
        .enable_all()
        .build()
        .expect("rt");
    for c in cases {
        let f: Vec<String> = c.iter().map(|s| unhex_str(s)).collect();
        let r = std::panic::catch_unwind(std::panic::AssertUnwindSafe(|| {
            let script = f.first().cloned().unwrap_or_default();
            let extglob = f.get(1).map(|s| s == "1").unwrap_or(true);
            let np: usize = f.get(2).and_then(|s| s.parse().ok()).unwrap_or(0);
            let pattern_text = f.get(3).cloned().unwrap_or_default();
            let i = 4;
            let ns: usize = f.get(i).and_then(|s| s.parse().ok()).unwrap_or(0);
            let strings: Vec<String> = f.iter().skip(i + 1).take(ns).cloned().collect();
            let mut bits = String::new();
            if np > 0 {
                let pat = brush_core::patterns::Pattern::from(pattern_text.as_str()).set_extended_globbing(extglob);
                for s in &strings {
                    bits.push(match pat.exactly_matches(s) {
                        Ok(true) => '1',
                        Ok(false) => '0',
                        Err(_) => 'E',
                    });
                }
            }
            let out = crate::sh::run_script(&rt, "s", &script, "");
            (out.status, out.out, !out.err.is_empty(), bits)
        }));
        match r {
            Ok((st, out, err, bits)) => println!(
                "{} {} {} {}",
                st,
                hex(&out),
                if err { "1" } else { "0" },
                hex(bits.as_bytes())
            ),
            Err(e) => println!("PANIC {}", hex(panic_msg(&e).as_bytes())),
        }
    }
    true
}
