//! C15 — delivery modes, completeness decision, parse purity.
//!
//! Subcommands (fields are hex-encoded, see util.rs):
//!   c15cls    <opts> <text>           -> class of Shell::parse_string(text): ok | atend | near | tok:<Variant>
//!   c15chunks <opts> <text>           -> the chunks MinimalInputBackend::read_line hands over when <text>
//!                                        is the process's standard input (fd 0 is redirected per case)
//!   c15parse  <api> <opts> <text>     -> digest of the parse result, in this (long-lived) process;
//!                                        api: tok | word | arith | prog
//!   c15fresh  <api> <opts> <text>     -> the same, each case in a fresh process
//!   c15lru    <cap> <key>*            -> h|m per lookup-then-insert on cached::LruCache, "|", key order
//!   c15concat <opts> <t1> <t2>        -> eq | ne: parse_string(t1++t2).complete_commands ==
//!                                        parse_string(t1).. ++ shift_lines(parse_string(t2)..)
//! opts: letters e (extglob) p (posix) s (sh) t (tilde at word start) c (tilde after colon); "-" = none.
use crate::util::{hex, panic_msg, unhex, unhex_str};
use brush_builtins::ShellBuilderExt;
use std::io::Write;

/// A runaway parse (e.g. the tokenizer hang on an empty quoted here-document tag reported for C19)
/// must die instead of exhausting the machine: cap the address space of this harness process.
fn limit_memory() {
    let lim = libc::rlimit {
        rlim_cur: 6 << 30,
        rlim_max: 6 << 30,
    };
    // SAFETY: plain setrlimit call with a valid struct; failure is ignored.
    let _ = unsafe { libc::setrlimit(libc::RLIMIT_AS, &lim) };
}

pub fn run(sub: &str, cases: &[Vec<String>]) -> bool {
    if sub.starts_with("c15") {
        limit_memory();
    }
    match sub {
        "c15cls" => each(cases, cls),
        "c15chunks" => each(cases, chunks),
        "c15parse" => each(cases, parse_case),
        "c15fresh" => fresh(cases),
        "c15lru" => each(cases, lru),
        "c15concat" => each(cases, concat),
        _ => return false,
    }
    true
}

fn each(cases: &[Vec<String>], f: fn(&mut Ctx, &[String]) -> String) {
    let mut ctx = Ctx::new();
    let out = std::io::stdout();
    for c in cases {
        let r = std::panic::catch_unwind(std::panic::AssertUnwindSafe(|| f(&mut ctx, c)));
        let line = match r {
            Ok(l) => l,
            Err(e) => format!("PANIC {}", hex(panic_msg(&e).as_bytes())),
        };
        let mut o = out.lock();
        let _ = writeln!(o, "{line}");
        let _ = o.flush();
    }
}

struct Ctx {
    rt: tokio::runtime::Runtime,
    shell: Option<brush_core::Shell>,
    shell_ref: Option<brush_interactive::ShellRef>,
}

impl Ctx {
    fn new() -> Self {
        let rt = tokio::runtime::Builder::new_current_thread()
            .enable_all()
            .build()
            .expect("rt");
        Self {
            rt,
            shell: None,
            shell_ref: None,
        }
    }

    fn make_shell(&self) -> brush_core::Shell {
        self.rt.block_on(async {
            brush_core::Shell::builder()
                .profile(brush_core::ProfileLoadBehavior::Skip)
                .rc(brush_core::RcLoadBehavior::Skip)
                .default_builtins(brush_builtins::BuiltinSet::BashMode)
                .shell_name("brush".to_string())
                .do_not_inherit_env(true)
                .build()
                .await
                .expect("shell")
        })
    }

    /// One shell per process; its parse-affecting options are switched per case (the memoised
    /// parse_string is a process-wide table shared by all shells anyway).
    fn shell_with(&mut self, opts: &str) -> &brush_core::Shell {
        if self.shell.is_none() {
            self.shell = Some(self.make_shell());
        }
        let sh = self.shell.as_mut().expect("shell");
        set_opts(sh, opts);
        sh
    }
}

fn set_opts(sh: &mut brush_core::Shell, opts: &str) {
    let o = sh.options_mut();
    o.extended_globbing = opts.contains('e');
    o.posix_mode = opts.contains('p');
    o.sh_mode = opts.contains('s');
}

fn field(c: &[String], i: usize) -> String {
    unhex_str(c.get(i).map(|s| s.as_str()).unwrap_or("-"))
}

fn class_of(r: &Result<brush_parser::ast::Program, brush_parser::ParseError>) -> String {
    match r {
        Ok(_) => "ok".to_string(),
        Err(brush_parser::ParseError::ParsingAtEndOfInput) => "atend".to_string(),
        Err(brush_parser::ParseError::ParsingNear(_)) => "near".to_string(),
        Err(brush_parser::ParseError::Tokenizing { inner, .. }) => {
            // variant name = Debug output up to the first '(' or ' '
            let d = format!("{inner:?}");
            let name: String = d
                .chars()
                .take_while(|c| c.is_ascii_alphanumeric() || *c == '_')
                .collect();
            format!("tok:{name}")
        }
    }
}

fn cls(ctx: &mut Ctx, c: &[String]) -> String {
    let opts = field(c, 0);
    let text = field(c, 1);
    let sh = ctx.shell_with(&opts);
    hex(class_of(&sh.parse_string(text)).as_bytes())
}

/// Points fd 0 at a fresh temporary file holding `text`.
fn redirect_stdin(text: &[u8]) {
    let dir = std::env::var("VERIF_SCRATCH").unwrap_or_else(|_| "/var/tmp".to_string());
    let p = format!(
        "{dir}/bv-c15-{}-{}",
        std::process::id(),
        std::time::SystemTime::now()
            .duration_since(std::time::UNIX_EPOCH)
            .map(|d| d.as_nanos())
            .unwrap_or(0)
    );
    std::fs::write(&p, text).expect("write stdin file");
    let f = std::fs::File::open(&p).expect("open stdin file");
    let _ = std::fs::remove_file(&p);
    use std::os::fd::AsRawFd;
    // SAFETY: dup2 onto fd 0 of this single-threaded harness process; `f` stays open until after.
    let rc = unsafe { libc::dup2(f.as_raw_fd(), 0) };
    assert!(rc == 0, "dup2 failed");
}

fn chunks(ctx: &mut Ctx, c: &[String]) -> String {
    use brush_interactive::InputBackend;
    let opts = field(c, 0);
    let text = unhex(c.get(1).map(|s| s.as_str()).unwrap_or("-"));
    if ctx.shell_ref.is_none() {
        let sh = ctx.make_shell();
        ctx.shell_ref = Some(std::sync::Arc::new(tokio::sync::Mutex::new(sh)));
    }
    let sref = ctx.shell_ref.clone().expect("ref");
    {
        let mut g = sref.try_lock().expect("lock");
        set_opts(&mut g, &opts);
    }
    redirect_stdin(&text);
    let mut backend = brush_interactive::MinimalInputBackend;
    let mut out: Vec<String> = vec![];
    // every read_line call returns one program; Eof ends the case (and leaves std's stdin
    // buffer empty, so the next case starts clean)
    for _ in 0..100_000 {
        let prompt = brush_interactive::InteractivePrompt {
            prompt: String::new(),
            alt_side_prompt: String::new(),
            continuation_prompt: String::new(),
        };
        match backend.read_line(&sref, prompt) {
            Ok(brush_interactive::ReadResult::Input(s)) => out.push(hex(s.as_bytes())),
            Ok(brush_interactive::ReadResult::Eof) => break,
            Ok(_) => {
                out.push(hex(b"?other"));
                break;
            }
            Err(e) => {
                // drain what is left so that the next case is not polluted
                let mut sink = String::new();
                let _ = std::io::Read::read_to_string(&mut std::io::stdin().lock(), &mut sink);
                out.push(hex(format!("?err {e}").as_bytes()));
                break;
            }
        }
    }
    if out.is_empty() {
        "-".to_string()
    } else {
        out.join(" ")
    }
}

fn parser_options(opts: &str) -> brush_parser::ParserOptions {
    brush_parser::ParserOptions {
        enable_extended_globbing: opts.contains('e'),
        posix_mode: opts.contains('p'),
        sh_mode: opts.contains('s'),
        tilde_expansion_at_word_start: opts.contains('t'),
        tilde_expansion_after_colon: opts.contains('c'),
        ..Default::default()
    }
}

fn digest(s: &str) -> String {
    use std::hash::{Hash, Hasher};
    #[allow(deprecated)]
    let mut h = std::hash::SipHasher::new_with_keys(0x0123_4567, 0x89ab_cdef);
    s.hash(&mut h);
    let head: String = s.chars().take(160).collect();
    format!("{} {} {}", hex(format!("{:016x}", h.finish()).as_bytes()), hex(s.len().to_string().as_bytes()), hex(head.as_bytes()))
}

fn parse_result(ctx: &mut Ctx, api: &str, opts: &str, text: &str) -> String {
    match api {
        "tok" => {
            let po = parser_options(opts);
            format!("{:?}", brush_parser::tokenize_str_with_options(text, &po.tokenizer_options()))
        }
        "word" => format!("{:?}", brush_parser::word::parse(text, &parser_options(opts))),
        "arith" => format!("{:?}", brush_parser::arithmetic::parse(text)),
        "prog" => {
            let sh = ctx.shell_with(opts);
            format!("{:?}", sh.parse_string(text.to_string()))
        }
        _ => "?api".to_string(),
    }
}

fn parse_case(ctx: &mut Ctx, c: &[String]) -> String {
    let api = field(c, 0);
    let opts = field(c, 1);
    let text = field(c, 2);
    digest(&parse_result(ctx, &api, &opts, &text))
}

fn fresh(cases: &[Vec<String>]) {
    let me = std::env::current_exe().expect("exe");
    for c in cases {
        let line = c.join(" ");
        let out = std::process::Command::new(&me)
            .arg("c15parse")
            .stdin(std::process::Stdio::piped())
            .stdout(std::process::Stdio::piped())
            .stderr(std::process::Stdio::null())
            .spawn()
            .and_then(|mut ch| {
                if let Some(mut si) = ch.stdin.take() {
                    let _ = si.write_all(line.as_bytes());
                    let _ = si.write_all(b"\n");
                }
                ch.wait_with_output()
            });
        match out {
            Ok(o) => {
                let s = String::from_utf8_lossy(&o.stdout);
                println!("{}", s.lines().next().unwrap_or("DIED"));
            }
            Err(_) => println!("DIED"),
        }
    }
}

fn lru(_ctx: &mut Ctx, c: &[String]) -> String {
    use cached::Cached;
    let cap: usize = field(c, 0).parse().unwrap_or(1);
    let mut cache: cached::LruCache<String, String> =
        cached::LruCache::builder().max_size(cap).build().expect("lru");
    let mut out: Vec<String> = vec![];
    for k in &c[1..] {
        let k = unhex_str(k);
        // the shape the `cached` macro expands to: cache_get, on a miss compute and cache_set
        if cache.cache_get(&k).is_some() {
            out.push(hex(b"h"));
        } else {
            out.push(hex(b"m"));
            cache.cache_set(k.clone(), k.clone());
        }
    }
    out.push(hex(b"|"));
    for k in cache.key_order() {
        out.push(hex(k.as_bytes()));
    }
    out.join(" ")
}

fn shift_json(v: &mut serde_json::Value, dl: u64, di: u64) {
    match v {
        serde_json::Value::Object(m) => {
            let is_pos = m.len() == 3 && m.contains_key("index") && m.contains_key("line") && m.contains_key("column");
            if is_pos {
                if let Some(l) = m.get("line").and_then(|x| x.as_u64()) {
                    m.insert("line".into(), serde_json::Value::from(l + dl));
                }
                if let Some(i) = m.get("index").and_then(|x| x.as_u64()) {
                    m.insert("index".into(), serde_json::Value::from(i + di));
                }
            } else {
                for (_, x) in m.iter_mut() {
                    shift_json(x, dl, di);
                }
            }
        }
        serde_json::Value::Array(a) => {
            for x in a.iter_mut() {
                shift_json(x, dl, di);
            }
        }
        _ => {}
    }
}

fn commands_json(p: &brush_parser::ast::Program) -> Vec<serde_json::Value> {
    match serde_json::to_value(p) {
        Ok(serde_json::Value::Object(m)) => match m.get("complete_commands") {
            Some(serde_json::Value::Array(a)) => a.clone(),
            _ => vec![serde_json::Value::from("?shape")],
        },
        _ => vec![serde_json::Value::from("?shape")],
    }
}

fn concat(ctx: &mut Ctx, c: &[String]) -> String {
    let opts = field(c, 0);
    let t1 = field(c, 1);
    let t2 = field(c, 2);
    let sh = ctx.shell_with(&opts);
    let (p1, p2, p12) = (
        sh.parse_string(t1.clone()),
        sh.parse_string(t2.clone()),
        sh.parse_string(format!("{t1}{t2}")),
    );
    match (p1, p2, p12) {
        (Ok(a), Ok(b), Ok(ab)) => {
            let mut exp = commands_json(&a);
            let dl = t1.matches('\n').count() as u64;
            let di = t1.chars().count() as u64;
            for mut x in commands_json(&b) {
                shift_json(&mut x, dl, di);
                exp.push(x);
            }
            let got = commands_json(&ab);
            if exp == got {
                hex(b"eq")
            } else {
                format!("{} {}", hex(b"ne"), hex(format!("{} vs {}", serde_json::Value::Array(exp), serde_json::Value::Array(got)).chars().take(600).collect::<String>().as_bytes()))
            }
        }
        (a, b, ab) => format!("{} {} {} {}", hex(b"err"), hex(class_of(&a).as_bytes()), hex(class_of(&b).as_bytes()), hex(class_of(&ab).as_bytes())),
    }
}
