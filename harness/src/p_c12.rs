//! C12: in-process view of subshell isolation. `subsh`: case fields <setup script> <script>.
//! Builds a shell, runs the setup, serialises the whole `Shell` (serde), runs the script (which
//! does its work inside subshell contexts), serialises again, and prints which top-level fields
//! of `struct Shell` differ (for `env`: which variable names). Fields that legitimately move
//! with any command ($?, PIPESTATUS, $_, BASH_COMMAND, …) are left out.
use crate::util::{hex, panic_msg, unhex_str};

const VOLATILE_FIELDS: &[&str] = &[
    "last_exit_status",
    "last_exit_status_change_count",
    "last_pipeline_statuses",
];
const VOLATILE_VARS: &[&str] = &[
    "_",
    "BASH_COMMAND",
    "LINENO",
    "RANDOM",
    "SRANDOM",
    "SECONDS",
    "PIPESTATUS",
    "EPOCHSECONDS",
    "EPOCHREALTIME",
];

fn env_vars(v: &serde_json::Value) -> std::collections::BTreeMap<String, serde_json::Value> {
    // scopes: [[kind, {variables: {name: var}}], ...] -> "<scope index>/<name>" -> var
    let mut out = std::collections::BTreeMap::new();
    if let Some(scopes) = v.get("scopes").and_then(|s| s.as_array()) {
        for (i, sc) in scopes.iter().enumerate() {
            if let Some(vars) = sc
                .get(1)
                .and_then(|m| m.get("variables"))
                .and_then(|m| m.as_object())
            {
                for (n, var) in vars {
                    if !VOLATILE_VARS.contains(&n.as_str()) {
                        out.insert(format!("{i}/{n}"), var.clone());
                    }
                }
            }
        }
    }
    out
}

fn diff(a: &serde_json::Value, b: &serde_json::Value) -> Vec<String> {
    let mut out = vec![];
    let (Some(ma), Some(mb)) = (a.as_object(), b.as_object()) else {
        return vec!["!not-an-object".to_string()];
    };
    let mut keys: Vec<&String> = ma.keys().chain(mb.keys()).collect();
    keys.sort();
    keys.dedup();
    for k in keys {
        if VOLATILE_FIELDS.contains(&k.as_str()) {
            continue;
        }
        let (va, vb) = (ma.get(k), mb.get(k));
        if k == "env" {
            let (ea, eb) = (
                va.map(env_vars).unwrap_or_default(),
                vb.map(env_vars).unwrap_or_default(),
            );
            let mut names: Vec<&String> = ea.keys().chain(eb.keys()).collect();
            names.sort();
            names.dedup();
            for n in names {
                if ea.get(n) != eb.get(n) {
                    out.push(format!("env:{n}"));
                }
            }
        } else if va != vb {
            out.push(k.clone());
        }
    }
    out
}

fn case(rt: &tokio::runtime::Runtime, c: &[String]) -> String {
    let setup = unhex_str(c.first().map(|s| s.as_str()).unwrap_or("-"));
    let script = unhex_str(c.get(1).map(|s| s.as_str()).unwrap_or("-"));
    let r = crate::sh::run_script(rt, "s", &setup, "noenv");
    let Some(mut shell) = r.shell else {
        return hex(b"!noshell");
    };
    let before = serde_json::to_value(&shell).unwrap_or(serde_json::Value::Null);
    let fields: Vec<String> = before
        .as_object()
        .map(|m| m.keys().cloned().collect())
        .unwrap_or_default();
    rt.block_on(async {
        let params = shell.default_exec_params();
        let si = brush_core::SourceInfo::from("verif");
        let _ = shell.run_string(script, &si, &params).await;
    });
    let after = serde_json::to_value(&shell).unwrap_or(serde_json::Value::Null);
    let d = diff(&before, &after);
    format!(
        "{} {}",
        hex(fields.join(",").as_bytes()),
        hex(d.join(",").as_bytes())
    )
}

pub fn run(sub: &str, cases: &[Vec<String>]) -> bool {
    if sub != "subsh" {
        return false;
    }
    let rt = tokio::runtime::Builder::new_multi_thread()
        .worker_threads(2)
        .enable_all()
        .build()
        .expect("rt");
    for c in cases {
        let r = std::panic::catch_unwind(std::panic::AssertUnwindSafe(|| case(&rt, c)));
        match r {
            Ok(s) => println!("{s}"),
            Err(e) => println!("PANIC {}", hex(panic_msg(&e).as_bytes())),
        }
    }
    true
}
