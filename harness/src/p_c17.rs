//! C17: drives the real job table (`Shell::jobs_mut()`: add through `cmd &`, `poll`, `wait_all`,
//! the `wait %n` builtin) with op sequences whose task completions are controlled through
//! FIFOs, and prints the table after every op in the format of the model (Conc/EntryJobs.v).
//! Case fields: <cur|fix> (ignored by the code) then ops: A | E | F <task> | P | W | J <id> | M <n> <spec>*n
//! (E: like A but the job ends with an expansion error; M: `wait %spec...` with specs <number>, + or -).
//! Job k (k-th `A`, numbered from 1) runs `{ cat <fifo k> >/dev/null; echo x > <marker k>; } &`;
//! `F k` opens and closes the FIFO for writing, i.e. lets task k finish.
use crate::util::{hex, panic_msg, unhex_str};
use brush_builtins::ShellBuilderExt;
use std::path::{Path, PathBuf};

async fn new_shell() -> Option<brush_core::Shell> {
    let mut fds = std::collections::HashMap::new();
    fds.insert(0, brush_core::openfiles::null().ok()?);
    fds.insert(1, brush_core::openfiles::null().ok()?);
    fds.insert(2, brush_core::openfiles::null().ok()?);
    brush_core::Shell::builder()
        .profile(brush_core::ProfileLoadBehavior::Skip)
        .rc(brush_core::RcLoadBehavior::Skip)
        .default_builtins(brush_builtins::BuiltinSet::BashMode)
        .fds(fds)
        .build()
        .await
        .ok()
}

/// Wall-clock budget of one awaited operation (launch, `wait %..`, `wait_all`): an operation that does not return
/// within it is a result value (`!timeout:<op>`), not a hang of the harness.
const OP_BUDGET_SECS: u64 = 4;

/// Runs `f` under the budget; `None` when the budget ran out (the future is dropped, i.e. cancelled).
async fn with_budget<F: std::future::Future>(f: F) -> Option<F::Output> {
    let (tx, rx) = tokio::sync::oneshot::channel::<()>();
    std::thread::spawn(move || {
        std::thread::sleep(std::time::Duration::from_secs(OP_BUDGET_SECS));
        let _ = tx.send(());
    });
    tokio::select! {
        r = f => Some(r),
        _ = rx => None,
    }
}

fn fifo(dir: &Path, t: usize) -> PathBuf {
    dir.join(format!("f{t}"))
}
fn marker(dir: &Path, t: usize) -> PathBuf {
    dir.join(format!("m{t}"))
}

/// lets task `t` finish: the writer side of its FIFO is opened (blocks until `cat` has it open)
/// and closed again
fn release(dir: &Path, t: usize) {
    // non-blocking open with a deadline: without a reader the open fails (ENXIO) instead of blocking for ever
    use std::os::unix::fs::OpenOptionsExt;
    const O_NONBLOCK: i32 = 0o4000;
    let p = fifo(dir, t);
    for _ in 0..1000 {
        match std::fs::OpenOptions::new().write(true).custom_flags(O_NONBLOCK).open(&p) {
            Ok(f) => {
                drop(f);
                return;
            }
            Err(_) => std::thread::sleep(std::time::Duration::from_millis(5)),
        }
    }
}

fn wait_marker(dir: &Path, t: usize) {
    let m = marker(dir, t);
    for _ in 0..1600 {
        if m.exists() {
            return;
        }
        std::thread::sleep(std::time::Duration::from_millis(5));
    }
}

fn task_of(job: &brush_core::jobs::Job) -> usize {
    // the command line contains ".../f<k> "
    let cl = &job.command_line;
    if let Some(pos) = cl.find("/f") {
        let rest: String = cl[pos + 2..].chars().take_while(char::is_ascii_digit).collect();
        return rest.parse().unwrap_or(0);
    }
    // nested directories: take the last "/f<digits>"
    0
}

fn show_table(shell: &brush_core::Shell) -> String {
    let mut v = vec![];
    for j in &shell.jobs().jobs {
        let a = match j.annotation() {
            brush_core::jobs::JobAnnotation::Current => '+',
            brush_core::jobs::JobAnnotation::Previous => '-',
            brush_core::jobs::JobAnnotation::None => '_',
        };
        let s = match j.state {
            brush_core::jobs::JobState::Running => 'R',
            brush_core::jobs::JobState::Done => 'D',
            brush_core::jobs::JobState::Stopped => 'S',
            brush_core::jobs::JobState::Unknown => 'U',
        };
        v.push(format!("{}{}{}", j.id, a, s));
    }
    v.join(",")
}

fn ids(jobs: &[&brush_core::jobs::Job]) -> String {
    jobs.iter().map(|j| j.id.to_string()).collect::<Vec<_>>().join(",")
}

async fn run_case(k: usize, c: &[String]) -> Vec<String> {
    let base = std::env::var("VERIF_SCRATCH").unwrap_or_else(|_| "/var/tmp".to_string());
    let dir = PathBuf::from(format!("{base}/c17j-{}-{k}", std::process::id()));
    let _ = std::fs::remove_dir_all(&dir);
    let _ = std::fs::create_dir_all(&dir);
    let mut out = vec![];
    let Some(mut shell) = new_shell().await else {
        return vec!["!noshell".to_string()];
    };
    let params = shell.default_exec_params();
    let si = brush_core::SourceInfo::from("verif");
    let ops: Vec<String> = c.iter().skip(1).map(|f| unhex_str(f)).collect();
    let mut fresh = 1usize;
    let mut released: std::collections::HashSet<usize> = std::collections::HashSet::new();
    let mut i = 0;
    let mut stuck = false;
    while i < ops.len() && !stuck {
        match ops[i].as_str() {
            "A" | "E" => {
                // E: the job ends with an expansion error after its marker is written
                let t = fresh;
                fresh += 1;
                let _ = std::process::Command::new("mkfifo").arg(fifo(&dir, t)).status();
                let tail = if ops[i] == "E" { " : ${nope_such_var:?gone};" } else { "" };
                let script = format!(
                    "{{ cat {} >/dev/null; echo x > {};{} }} &",
                    fifo(&dir, t).display(),
                    marker(&dir, t).display(),
                    tail
                );
                if with_budget(shell.run_string(script, &si, &params)).await.is_none() {
                    out.push(format!("!timeout:{}", ops[i]));
                    stuck = true;
                } else {
                    out.push(show_table(&shell));
                }
                i += 1;
            }
            "F" => {
                let t: usize = ops.get(i + 1).and_then(|s| s.parse().ok()).unwrap_or(0);
                if t >= 1 && t < fresh && !released.contains(&t) {
                    let d = dir.clone();
                    let _ = tokio::task::spawn_blocking(move || {
                        release(&d, t);
                        wait_marker(&d, t);
                    })
                    .await;
                    released.insert(t);
                }
                out.push(show_table(&shell));
                i += 2;
            }
            "P" => {
                // poll until no job whose task has been released is left (bounded)
                let mut removed: Vec<String> = vec![];
                for _ in 0..1200 {
                    match shell.jobs_mut().poll() {
                        Ok(res) => {
                            for (j, _) in &res {
                                removed.push(j.id.to_string());
                            }
                        }
                        Err(_) => {
                            removed.push("!err".to_string());
                            break;
                        }
                    }
                    let pending = shell
                        .jobs()
                        .jobs
                        .iter()
                        .any(|j| released.contains(&task_of(j)));
                    if !pending {
                        break;
                    }
                    let _ = tokio::task::spawn_blocking(|| {
                        std::thread::sleep(std::time::Duration::from_millis(5));
                    })
                    .await;
                }
                out.push(format!("rm={}|{}", removed.join(","), show_table(&shell)));
                i += 1;
            }
            "W" => {
                let todo: Vec<usize> = (1..fresh).filter(|t| !released.contains(t)).collect();
                let live: Vec<usize> = shell.jobs().jobs.iter().map(task_of).collect();
                let d = dir.clone();
                let td = todo.clone();
                let releaser = std::thread::spawn(move || {
                    std::thread::sleep(std::time::Duration::from_millis(30));
                    for t in td {
                        release(&d, t);
                    }
                });
                let r = with_budget(shell.jobs_mut().wait_all()).await;
                let mut line = match r {
                    Some(Ok(jobs)) => format!("ret={}", ids(&jobs.iter().collect::<Vec<_>>())),
                    Some(Err(_)) => "ret=!err".to_string(),
                    None => {
                        stuck = true;
                        "ret=!timeout:W".to_string()
                    }
                };
                // the property itself: when wait_all returns, every live job's effects are visible
                let missing: Vec<String> = live
                    .iter()
                    .filter(|t| **t != 0 && !marker(&dir, **t).exists())
                    .map(ToString::to_string)
                    .collect();
                if !missing.is_empty() {
                    line.push_str(&format!("!unfinished:{}", missing.join(",")));
                }
                let _ = releaser.join();
                for t in todo {
                    released.insert(t);
                }
                line.push('|');
                line.push_str(&show_table(&shell));
                out.push(line);
                i += 1;
            }
            "J" | "M" => {
                // `wait %s1 %s2 ...`: J <id> is M 1 <id>. The harness resolves the specs on its own (by job
                // number / by the current and previous marks) to know which tasks to let finish and which
                // markers must exist when `wait` returns.
                let (specs, used): (Vec<String>, usize) = if ops[i] == "J" {
                    (vec![ops.get(i + 1).cloned().unwrap_or_default()], 2)
                } else {
                    let n: usize = ops.get(i + 1).and_then(|s| s.parse().ok()).unwrap_or(0);
                    ((0..n).filter_map(|k| ops.get(i + 2 + k).cloned()).collect(), 2 + n)
                };
                let mut targets: Vec<usize> = vec![];
                for sp in &specs {
                    let found = match sp.as_str() {
                        "+" => shell.jobs().jobs.iter().find(|j| j.is_current()).map(task_of),
                        "-" => shell.jobs().jobs.iter().find(|j| j.is_prev()).map(task_of),
                        num => {
                            let id: usize = num.parse().unwrap_or(0);
                            shell.jobs().jobs.iter().find(|j| j.id == id).map(task_of)
                        }
                    };
                    if let Some(t) = found {
                        if t != 0 {
                            targets.push(t);
                        }
                    }
                }
                let todo: Vec<usize> = targets.iter().copied().filter(|t| !released.contains(t)).collect();
                let d = dir.clone();
                let td = todo.clone();
                let th = std::thread::spawn(move || {
                    std::thread::sleep(std::time::Duration::from_millis(20));
                    for t in td {
                        release(&d, t);
                    }
                });
                for t in &todo {
                    released.insert(*t);
                }
                let cmd = format!(
                    "wait {}",
                    specs.iter().map(|s| format!("%{s}")).collect::<Vec<_>>().join(" ")
                );
                let st = match with_budget(shell.run_string(cmd.clone(), &si, &params)).await {
                    Some(Ok(r)) => u8::from(r.exit_code).to_string(),
                    Some(Err(_)) => "!err".to_string(),
                    None => {
                        stuck = true;
                        format!("!timeout:{cmd}")
                    }
                };
                let mut line = format!("s={st}");
                let missing: Vec<String> = targets
                    .iter()
                    .filter(|t| !marker(&dir, **t).exists())
                    .map(ToString::to_string)
                    .collect();
                if !missing.is_empty() {
                    line.push_str(&format!("!unfinished:{}", missing.join(",")));
                }
                let _ = th.join();
                line.push('|');
                line.push_str(&show_table(&shell));
                out.push(line);
                i += used;
            }
            _ => {
                out.push("!badop".to_string());
                i += 1;
            }
        }
    }
    // let every remaining `cat` go
    let todo: Vec<usize> = (1..fresh).filter(|t| !released.contains(t)).collect();
    let d = dir.clone();
    let _ = tokio::task::spawn_blocking(move || {
        for t in todo {
            release(&d, t);
        }
    })
    .await;
    if !stuck {
        let _ = with_budget(shell.jobs_mut().wait_all()).await;
    }
    drop(shell);
    let _ = std::fs::remove_dir_all(&dir);
    out
}

pub fn run(sub: &str, cases: &[Vec<String>]) -> bool {
    if sub != "c17_jobs" {
        return false;
    }
    let rt = tokio::runtime::Builder::new_multi_thread()
        .worker_threads(4)
        .enable_all()
        .build()
        .expect("rt");
    for (k, c) in cases.iter().enumerate() {
        let r = std::panic::catch_unwind(std::panic::AssertUnwindSafe(|| {
            rt.block_on(run_case(k, c))
        }));
        match r {
            Ok(fields) => println!(
                "{}",
                fields
                    .iter()
                    .map(|f| hex(f.as_bytes()))
                    .collect::<Vec<_>>()
                    .join(" ")
            ),
            Err(e) => println!("PANIC {}", hex(panic_msg(&e).as_bytes())),
        }
    }
    true
}
