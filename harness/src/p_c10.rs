//! C10: `c10_heredoc` subcommand. Case field: <input>. Runs `brush_parser::tokenize_str` and prints
//! `OK (<kind> <text>)*` (kind O = operator, W = word) or `ERR <message>`.
use crate::util::{hex, panic_msg, unhex_str};

pub fn run(sub: &str, cases: &[Vec<String>]) -> bool {
    if sub != "c10_heredoc" {
        return false;
    }
    for case in cases {
        let input = unhex_str(case.first().map(|s| s.as_str()).unwrap_or("-"));
        let r = std::panic::catch_unwind(|| brush_parser::tokenize_str(&input));
        match r {
            Ok(Ok(tokens)) => {
                let mut line = hex(b"OK");
                for t in &tokens {
                    let (k, s) = match t {
                        brush_parser::Token::Operator(s, _) => ("O", s),
                        brush_parser::Token::Word(s, _) => ("W", s),
                    };
                    line.push(' ');
                    line.push_str(&hex(k.as_bytes()));
                    line.push(' ');
                    line.push_str(&hex(s.as_bytes()));
                }
                println!("{line}");
            }
            Ok(Err(e)) => println!("{} {}", hex(b"ERR"), hex(format!("{e}").as_bytes())),
            Err(e) => println!("PANIC {}", hex(panic_msg(&e).as_bytes())),
        }
    }
    true
}
