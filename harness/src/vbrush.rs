//! The real `brush` entry point, rebuilt from /repo's working tree by the harness.
fn main() {
    brush_shell::entry::run();
}
