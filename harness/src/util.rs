//! Case I/O: one case per line, fields separated by single blanks, each field hex-encoded
//! UTF-8 ("-" stands for the empty string).
use std::io::BufRead;

pub fn hex(s: &[u8]) -> String {
    if s.is_empty() {
        return "-".to_string();
    }
    let mut out = String::with_capacity(s.len() * 2);
    for b in s {
        out.push_str(&format!("{b:02x}"));
    }
    out
}

pub fn unhex(s: &str) -> Vec<u8> {
    if s == "-" {
        return vec![];
    }
    let b = s.as_bytes();
    let mut out = Vec::with_capacity(b.len() / 2);
    let mut i = 0;
    while i + 1 < b.len() {
        let h = (b[i] as char).to_digit(16).unwrap_or(0) as u8;
        let l = (b[i + 1] as char).to_digit(16).unwrap_or(0) as u8;
        out.push(h * 16 + l);
        i += 2;
    }
    out
}

pub fn unhex_str(s: &str) -> String {
    String::from_utf8_lossy(&unhex(s)).into_owned()
}

/// Reads all cases from stdin: each is a vector of raw fields (still encoded).
pub fn read_cases() -> Vec<Vec<String>> {
    let stdin = std::io::stdin();
    let mut v = vec![];
    for line in stdin.lock().lines() {
        let Ok(line) = line else { break };
        if line.is_empty() {
            continue;
        }
        v.push(line.split(' ').map(|s| s.to_string()).collect());
    }
    v
}

pub fn panic_msg(e: &Box<dyn std::any::Any + Send>) -> String {
    if let Some(s) = e.downcast_ref::<&str>() {
        (*s).to_string()
    } else if let Some(s) = e.downcast_ref::<String>() {
        s.clone()
    } else {
        "?".to_string()
    }
}
