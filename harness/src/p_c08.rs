//! C08: glob / bracket / extglob matching.
//!
//! `glob_re`  fields: <opts> <pattern>                      -> `<hex regex>` | `ERR`
//!            (brush_parser::pattern::pattern_to_regex_str; opts contains `e` for extglob)
//! `glob_m`   fields: <opts> <pattern> <alphabet> <maxlen>  -> one field, one char per string of the
//!            length-lexicographic enumeration of all strings over <alphabet> up to <maxlen>:
//!            `1` match, `0` no match, `E` error (Pattern::exactly_matches; opts: `e` extglob, `i` nocase)
//! `glob_ms`  fields: <opts> <pattern> <ignored> <string>*  -> same, for the listed strings
//! `glob_sh`  fields: <kind> <opts> <pattern> <quoted-prefix> <string>*
//!            in-process shell, end to end; kind: case | cond | rp | rpp | rs | rss
//!            opts: comma separated shopt names switched on (extglob, nocasematch)
//!            -> for case/cond one field of 0/1/E chars; for r* one output field per string
//! `glob_fs`  fields: <opts> <pattern> <name>*              -> pathname expansion of <pattern> in a
//!            fresh directory holding the names (a name ending in `/` is a directory, `d/f` a file in d)
//!            -> one field per resulting word, in order
use crate::util::{hex, panic_msg, unhex_str};

fn enum_strings(alpha: &[char], maxlen: usize) -> Vec<String> {
    let mut out = vec![String::new()];
    let mut prev = vec![String::new()];
    for _ in 0..maxlen {
        let mut next = Vec::with_capacity(prev.len() * alpha.len());
        for p in &prev {
            for c in alpha {
                let mut s = p.clone();
                s.push(*c);
                next.push(s);
            }
        }
        out.extend(next.iter().cloned());
        prev = next;
    }
    out
}

fn match_bits(opts: &str, pat: &str, strings: &[String]) -> String {
    let p = brush_core::patterns::Pattern::from(pat)
        .set_extended_globbing(opts.contains('e'))
        .set_case_insensitive(opts.contains('i'));
    let mut out = String::with_capacity(strings.len());
    for s in strings {
        out.push(match p.exactly_matches(s) {
            Ok(true) => '1',
            Ok(false) => '0',
            Err(_) => 'E',
        });
    }
    out
}

fn sq(s: &str) -> String {
    // single-quote for the shell
    let mut o = String::from("'");
    for c in s.chars() {
        if c == '\'' {
            o.push_str("'\\''");
        } else {
            o.push(c);
        }
    }
    o.push('\'');
    o
}

pub fn shell_script(kind: &str, opts: &str, pat: &str, qpre: &str, strings: &[String]) -> String {
    let mut sc = String::new();
    for o in ["extglob", "nocasematch"] {
        let on = opts.split(',').any(|x| x == o);
        sc.push_str(&format!("shopt -{} {o}\n", if on { "s" } else { "u" }));
    }
    sc.push_str(&format!("p={}\nq={}\n", sq(pat), sq(qpre)));
    sc.push_str("for s in");
    for s in strings {
        sc.push(' ');
        sc.push_str(&sq(s));
    }
    sc.push_str("; do\n");
    let body = match kind {
        "case" => "case $s in \"$q\"$p) printf 1;; *) printf 0;; esac",
        "cond" => "if [[ $s == \"$q\"$p ]]; then printf 1; else printf 0; fi",
        "rp" => "printf '%s\\0' \"${s#\"$q\"$p}\"",
        "rpp" => "printf '%s\\0' \"${s##\"$q\"$p}\"",
        "rs" => "printf '%s\\0' \"${s%\"$q\"$p}\"",
        "rss" => "printf '%s\\0' \"${s%%\"$q\"$p}\"",
        _ => "printf E",
    };
    sc.push_str(body);
    sc.push_str("\ndone\n");
    sc
}

pub fn run(sub: &str, cases: &[Vec<String>]) -> bool {
    match sub {
        "glob_re" => {
            for c in cases {
                let opts = unhex_str(c.first().map_or("-", |s| s.as_str()));
                let pat = unhex_str(c.get(1).map_or("-", |s| s.as_str()));
                let r = std::panic::catch_unwind(|| {
                    brush_parser::pattern::pattern_to_regex_str(&pat, opts.contains('e'))
                });
                match r {
                    Ok(Ok(s)) => println!("{}", hex(s.as_bytes())),
                    Ok(Err(_)) => println!("{}", hex(b"ERR")),
                    Err(e) => println!("PANIC {}", hex(panic_msg(&e).as_bytes())),
                }
            }
            true
        }
        "glob_m" | "glob_ms" => {
            let mut memo: Option<(String, usize, Vec<String>)> = None;
            for c in cases {
                let opts = unhex_str(c.first().map_or("-", |s| s.as_str()));
                let pat = unhex_str(c.get(1).map_or("-", |s| s.as_str()));
                let strings: Vec<String> = if sub == "glob_m" {
                    let alpha = unhex_str(c.get(2).map_or("-", |s| s.as_str()));
                    let n: usize = unhex_str(c.get(3).map_or("-", |s| s.as_str())).parse().unwrap_or(0);
                    let hit = matches!(&memo, Some((a, k, _)) if *a == alpha && *k == n);
                    if !hit {
                        let al: Vec<char> = alpha.chars().collect();
                        memo = Some((alpha.clone(), n, enum_strings(&al, n)));
                    }
                    memo.as_ref().map(|m| m.2.clone()).unwrap_or_default()
                } else {
                    c.iter().skip(3).map(|s| unhex_str(s)).collect()
                };
                let r = std::panic::catch_unwind(|| match_bits(&opts, &pat, &strings));
                match r {
                    Ok(s) => println!("{}", hex(s.as_bytes())),
                    Err(e) => println!("PANIC {}", hex(panic_msg(&e).as_bytes())),
                }
            }
            true
        }
        "glob_sh" => {
            let rt = tokio::runtime::Builder::new_multi_thread()
                .worker_threads(2)
                .enable_all()
                .build()
                .expect("rt");
            for c in cases {
                let f = |i: usize| unhex_str(c.get(i).map_or("-", |s| s.as_str()));
                let (kind, opts, pat, qpre) = (f(0), f(1), f(2), f(3));
                let strings: Vec<String> = c.iter().skip(4).map(|s| unhex_str(s)).collect();
                let script = shell_script(&kind, &opts, &pat, &qpre, &strings);
                let r = std::panic::catch_unwind(std::panic::AssertUnwindSafe(|| {
                    crate::sh::run_script(&rt, "s", &script, "")
                }));
                match r {
                    Ok(r) => {
                        if kind == "case" || kind == "cond" {
                            let mut o = String::from_utf8_lossy(&r.out).into_owned();
                            if o.len() != strings.len() || !r.err.is_empty() {
                                // an error aborted the loop: mark the rest
                                while o.chars().count() < strings.len() {
                                    o.push('E');
                                }
                            }
                            println!("{}", hex(o.as_bytes()));
                        } else {
                            let mut parts: Vec<&[u8]> = r.out.split(|b| *b == 0).collect();
                            parts.pop();
                            let mut fields: Vec<String> = parts.iter().map(|p| hex(p)).collect();
                            while fields.len() < strings.len() {
                                fields.push(hex(b"\x01E"));
                            }
                            println!("{}", fields.join(" "));
                        }
                    }
                    Err(e) => println!("PANIC {}", hex(panic_msg(&e).as_bytes())),
                }
            }
            true
        }
        "glob_flip" => {
            // fields: <option name> <pattern> <quoted prefix> <string>*
            // ONE shell: the option is switched off, on, off, on around the same pattern text; 4 x n bits
            let rt = tokio::runtime::Builder::new_multi_thread()
                .worker_threads(2)
                .enable_all()
                .build()
                .expect("rt");
            for c in cases {
                let f = |i: usize| unhex_str(c.get(i).map_or("-", |s| s.as_str()));
                let (optname, pat, qpre) = (f(0), f(1), f(2));
                let strings: Vec<String> = c.iter().skip(3).map(|s| unhex_str(s)).collect();
                let mut sc = String::new();
                let other = if optname == "extglob" { "shopt -u nocasematch\n" } else { "shopt -s extglob\n" };
                sc.push_str(other);
                sc.push_str(&format!("p={}\nq={}\n", sq(&pat), sq(&qpre)));
                for state in ["u", "s", "u", "s"] {
                    sc.push_str(&format!("shopt -{state} {optname}\nfor s in"));
                    for s in &strings {
                        sc.push(' ');
                        sc.push_str(&sq(s));
                    }
                    sc.push_str("; do\ncase $s in \"$q\"$p) printf 1;; *) printf 0;; esac\ndone\n");
                }
                let r = std::panic::catch_unwind(std::panic::AssertUnwindSafe(|| {
                    crate::sh::run_script(&rt, "s", &sc, "")
                }));
                match r {
                    Ok(r) => {
                        let mut o = String::from_utf8_lossy(&r.out).into_owned();
                        while o.chars().count() < 4 * strings.len() {
                            o.push('E');
                        }
                        println!("{}", hex(o.as_bytes()));
                    }
                    Err(e) => println!("PANIC {}", hex(panic_msg(&e).as_bytes())),
                }
            }
            true
        }
        "glob_fs" => {
            let rt = tokio::runtime::Builder::new_multi_thread()
                .worker_threads(2)
                .enable_all()
                .build()
                .expect("rt");
            let base = std::env::var("VERIF_SCRATCH").unwrap_or_else(|_| "/var/tmp".to_string());
            for (k, c) in cases.iter().enumerate() {
                let f = |i: usize| unhex_str(c.get(i).map_or("-", |s| s.as_str()));
                let (opts, pat) = (f(0), f(1));
                let names: Vec<String> = c.iter().skip(2).map(|s| unhex_str(s)).collect();
                let dir = format!("{base}/c08fs-{}-{k}", std::process::id());
                let _ = std::fs::remove_dir_all(&dir);
                let _ = std::fs::create_dir_all(&dir);
                for n in &names {
                    let path = format!("{dir}/{n}");
                    if n.ends_with('/') {
                        let _ = std::fs::create_dir_all(&path);
                    } else {
                        if let Some(parent) = std::path::Path::new(&path).parent() {
                            let _ = std::fs::create_dir_all(parent);
                        }
                        let _ = std::fs::write(&path, b"");
                    }
                }
                let mut sc = String::new();
                for o in opts.split(',') {
                    if !o.is_empty() {
                        sc.push_str(&format!("shopt -s {o}\n"));
                    }
                }
                if opts.split(',').any(|o| o == "flipdotglob") {
                    // one shell: dotglob off, on, off around the same pattern text; the three word lists separated by \x01
                    sc = sc.replace("shopt -s flipdotglob\n", "");
                    sc.push_str(&format!("cd {}\nIFS=\np={}\n", sq(&dir), sq(&pat)));
                    sc.push_str("shopt -u dotglob\nprintf '%s\\0' $p\nprintf '\\1\\0'\nshopt -s dotglob\nprintf '%s\\0' $p\nprintf '\\1\\0'\nshopt -u dotglob\nprintf '%s\\0' $p\n");
                } else {
                    sc.push_str(&format!("cd {}\nIFS=\np={}\nprintf '%s\\0' $p\n", sq(&dir), sq(&pat)));
                }
                let r = std::panic::catch_unwind(std::panic::AssertUnwindSafe(|| {
                    crate::sh::run_script(&rt, "s", &sc, "")
                }));
                let _ = std::fs::remove_dir_all(&dir);
                match r {
                    Ok(r) => {
                        let mut parts: Vec<&[u8]> = r.out.split(|b| *b == 0).collect();
                        parts.pop();
                        let fields: Vec<String> = parts.iter().map(|p| hex(p)).collect();
                        if fields.is_empty() {
                            println!("{}", hex(b"\x01NONE"));
                        } else {
                            println!("{}", fields.join(" "));
                        }
                    }
                    Err(e) => println!("PANIC {}", hex(panic_msg(&e).as_bytes())),
                }
            }
            true
        }
        _ => false,
    }
}
