//! In-process shell runs: `sh` subcommand. Case fields: <mode> <script> [<opts>]
//! mode: "s" = run_string, "c" = run_dash_c_command (runs EXIT trap etc.)
//! Output: `<status> <hex stdout> <hex stderr>` or `PANIC <hex msg>`.
use crate::util::{hex, panic_msg, unhex_str};
use brush_builtins::ShellBuilderExt;
use std::io::{Read, Seek};

pub struct RunOut {
    pub status: i32,
    pub out: Vec<u8>,
    pub err: Vec<u8>,
    pub shell: Option<brush_core::Shell>,
}

fn tmpfile() -> std::fs::File {
    // anonymous file: O_TMPFILE-like via create+unlink
    let dir = std::env::var("VERIF_SCRATCH").unwrap_or_else(|_| "/var/tmp".to_string());
    let p = format!(
        "{dir}/bv-{}-{:?}-{}",
        std::process::id(),
        std::thread::current().id(),
        std::time::SystemTime::now()
            .duration_since(std::time::UNIX_EPOCH)
            .map(|d| d.as_nanos())
            .unwrap_or(0)
    );
    let f = std::fs::File::options()
        .read(true)
        .write(true)
        .create_new(true)
        .open(&p)
        .expect("tmpfile");
    let _ = std::fs::remove_file(&p);
    f
}

pub async fn new_shell(
    out: &std::fs::File,
    err: &std::fs::File,
    opts: &str,
) -> Result<brush_core::Shell, brush_core::Error> {
    let mut fds = std::collections::HashMap::new();
    fds.insert(0, brush_core::openfiles::null()?);
    fds.insert(1, brush_core::openfiles::OpenFile::from(out.try_clone()?));
    fds.insert(2, brush_core::openfiles::OpenFile::from(err.try_clone()?));
    let has = |k: &str| opts.split(',').any(|o| o == k);
    let b = brush_core::Shell::builder()
        .profile(brush_core::ProfileLoadBehavior::Skip)
        .rc(brush_core::RcLoadBehavior::Skip)
        .default_builtins(brush_builtins::BuiltinSet::BashMode)
        .shell_name("brush".to_string())
        .posix(has("posix"))
        .sh_mode(has("sh"))
        .do_not_inherit_env(has("noenv"))
        .interactive(has("interactive"))
        .fds(fds);
    b.build().await
}

pub fn run_script(rt: &tokio::runtime::Runtime, mode: &str, script: &str, opts: &str) -> RunOut {
    let mut out = tmpfile();
    let mut err = tmpfile();
    let (status, shell) = rt.block_on(async {
        let mut shell = match new_shell(&out, &err, opts).await {
            Ok(s) => s,
            Err(_) => return (-2, None),
        };
        let r = if mode == "c" {
            shell.run_dash_c_command(script.to_string()).await
        } else {
            let params = shell.default_exec_params();
            let si = brush_core::SourceInfo::from("verif");
            shell.run_string(script.to_string(), &si, &params).await
        };
        let st = match r {
            Ok(res) => i32::from(u8::from(res.exit_code)),
            Err(_) => -1,
        };
        (st, Some(shell))
    });
    let mut o = vec![];
    let mut e = vec![];
    let _ = out.rewind();
    let _ = out.read_to_end(&mut o);
    let _ = err.rewind();
    let _ = err.read_to_end(&mut e);
    RunOut {
        status,
        out: o,
        err: e,
        shell,
    }
}

pub fn run(sub: &str, cases: &[Vec<String>]) -> bool {
    if sub != "sh" {
        return false;
    }
    main_sh(cases);
    true
}

fn main_sh(cases: &[Vec<String>]) {
    let rt = tokio::runtime::Builder::new_multi_thread()
        .worker_threads(2)
        .enable_all()
        .build()
        .expect("rt");
    for c in cases {
        let mode = c.first().map(|s| s.as_str()).unwrap_or("s").to_string();
        let script = unhex_str(c.get(1).map(|s| s.as_str()).unwrap_or("-"));
        let opts = c.get(2).cloned().unwrap_or_default();
        let opts = opts.as_str();
        let r = std::panic::catch_unwind(std::panic::AssertUnwindSafe(|| {
            run_script(&rt, &mode, &script, opts)
        }));
        match r {
            Ok(r) => println!("{} {} {}", r.status, hex(&r.out), hex(&r.err)),
            Err(e) => println!("PANIC {}", hex(panic_msg(&e).as_bytes())),
        }
    }
}
