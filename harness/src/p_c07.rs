//! C07: arithmetic.
//! `arith_parse`: case = <input>; prints `ok <s-expression of the AST>` or `err`.
//! `arith_eval`: case = <nounset 0|1> <expr> <observed names, blank separated> (<name> <value>)*;
//!   the variables are preset as plain scalars in an in-process shell, the expression goes through
//!   `brush_parser::arithmetic::parse` and `brush_core::arithmetic::Evaluatable::eval` (the path
//!   of `let`, and of `$(( ))`/`(( ))` after word expansion); prints
//!   `ok <value> <obs>*` / `err <class> <obs>*` / `PANIC <msg>`; obs = `=value` or `!` (unset).
use crate::util::{hex, panic_msg, unhex_str};
use brush_core::arithmetic::{EvalError, Evaluatable};
use brush_parser::ast;

fn binop(o: &ast::BinaryOperator) -> &'static str {
    match o {
        ast::BinaryOperator::Power => "Power",
        ast::BinaryOperator::Multiply => "Multiply",
        ast::BinaryOperator::Divide => "Divide",
        ast::BinaryOperator::Modulo => "Modulo",
        ast::BinaryOperator::Comma => "Comma",
        ast::BinaryOperator::Add => "Add",
        ast::BinaryOperator::Subtract => "Subtract",
        ast::BinaryOperator::ShiftLeft => "ShiftLeft",
        ast::BinaryOperator::ShiftRight => "ShiftRight",
        ast::BinaryOperator::LessThan => "LessThan",
        ast::BinaryOperator::LessThanOrEqualTo => "LessThanOrEqualTo",
        ast::BinaryOperator::GreaterThan => "GreaterThan",
        ast::BinaryOperator::GreaterThanOrEqualTo => "GreaterThanOrEqualTo",
        ast::BinaryOperator::Equals => "Equals",
        ast::BinaryOperator::NotEquals => "NotEquals",
        ast::BinaryOperator::BitwiseAnd => "BitwiseAnd",
        ast::BinaryOperator::BitwiseXor => "BitwiseXor",
        ast::BinaryOperator::BitwiseOr => "BitwiseOr",
        ast::BinaryOperator::LogicalAnd => "LogicalAnd",
        ast::BinaryOperator::LogicalOr => "LogicalOr",
    }
}

fn target(t: &ast::ArithmeticTarget) -> String {
    match t {
        ast::ArithmeticTarget::Variable(n) => format!("(var {n})"),
        ast::ArithmeticTarget::ArrayElement(n, i) => format!("(elem {n} {})", show(i)),
    }
}

pub fn show(e: &ast::ArithmeticExpr) -> String {
    match e {
        ast::ArithmeticExpr::Literal(v) => format!("(lit {v})"),
        ast::ArithmeticExpr::Reference(t) => format!("(ref {})", target(t)),
        ast::ArithmeticExpr::UnaryOp(o, a) => {
            let n = match o {
                ast::UnaryOperator::UnaryPlus => "UnaryPlus",
                ast::UnaryOperator::UnaryMinus => "UnaryMinus",
                ast::UnaryOperator::BitwiseNot => "BitwiseNot",
                ast::UnaryOperator::LogicalNot => "LogicalNot",
            };
            format!("(un {n} {})", show(a))
        }
        ast::ArithmeticExpr::BinaryOp(o, a, b) => {
            format!("(bin {} {} {})", binop(o), show(a), show(b))
        }
        ast::ArithmeticExpr::Conditional(c, t, f) => {
            format!("(cond {} {} {})", show(c), show(t), show(f))
        }
        ast::ArithmeticExpr::Assignment(t, v) => format!("(assign {} {})", target(t), show(v)),
        ast::ArithmeticExpr::UnaryAssignment(o, t) => {
            let n = match o {
                ast::UnaryAssignmentOperator::PrefixIncrement => "PrefixIncrement",
                ast::UnaryAssignmentOperator::PrefixDecrement => "PrefixDecrement",
                ast::UnaryAssignmentOperator::PostfixIncrement => "PostfixIncrement",
                ast::UnaryAssignmentOperator::PostfixDecrement => "PostfixDecrement",
            };
            format!("(incr {n} {})", target(t))
        }
        ast::ArithmeticExpr::BinaryAssignment(o, t, v) => {
            format!("(binassign {} {} {})", binop(o), target(t), show(v))
        }
    }
}

fn err_class(e: &EvalError) -> &'static str {
    match e {
        EvalError::DivideByZero => "div0",
        EvalError::NegativeExponent => "negexp",
        EvalError::ParseError(_) => "parse",
        EvalError::ExpandingUnsetVariable(_) => "unset",
        EvalError::RecursionLimitExceeded => "reclimit",
        EvalError::FailedToAccessArray => "array-access",
        EvalError::FailedToUpdateEnvironment => "update-env",
        EvalError::FailedToTokenizeExpression => "tokenize",
        EvalError::FailedToExpandExpression(_) => "expand",
    }
}

fn main_parse(cases: &[Vec<String>]) {
    for c in cases {
        let input = unhex_str(c.first().map(|s| s.as_str()).unwrap_or("-"));
        let r = std::panic::catch_unwind(|| brush_parser::arithmetic::parse(&input));
        match r {
            Ok(Ok(e)) => println!("{} {}", hex(b"ok"), hex(show(&e).as_bytes())),
            Ok(Err(_)) => println!("{}", hex(b"err")),
            Err(e) => println!("PANIC {}", hex(panic_msg(&e).as_bytes())),
        }
    }
}

fn fresh_shell(rt: &tokio::runtime::Runtime) -> brush_core::Shell {
    let out = std::fs::File::options()
        .write(true)
        .open("/dev/null")
        .expect("null");
    rt.block_on(async { crate::sh::new_shell(&out, &out, "noenv").await })
        .expect("shell")
}

fn eval_case(
    shell: &mut brush_core::Shell,
    baseline: &std::collections::HashSet<String>,
    c: &[String],
) -> String {
    // isolation between cases: drop every variable an earlier case may have created
    let stale: Vec<String> = shell
        .env()
        .iter()
        .map(|(n, _)| n.clone())
        .filter(|n| !baseline.contains(n))
        .collect();
    for n in stale {
        let _ = shell.env_mut().unset(&n);
    }
    let nounset = c.first().map(|s| unhex_str(s)).unwrap_or_default() == "1";
    let expr = unhex_str(c.get(1).map(|s| s.as_str()).unwrap_or("-"));
    let obs_s = unhex_str(c.get(2).map(|s| s.as_str()).unwrap_or("-"));
    let obs: Vec<&str> = obs_s.split(' ').filter(|s| !s.is_empty()).collect();
    let mut presets = vec![];
    let mut i = 3;
    while i + 1 < c.len() {
        presets.push((unhex_str(&c[i]), unhex_str(&c[i + 1])));
        i += 2;
    }
    for n in obs.iter().copied().chain(presets.iter().map(|p| p.0.as_str())) {
        let _ = shell.env_mut().unset(n);
    }
    for (n, v) in &presets {
        shell
            .env_mut()
            .update_or_add(
                n.as_str(),
                brush_core::variables::ShellValueLiteral::Scalar(v.clone()),
                |_| Ok(()),
                brush_core::env::EnvironmentLookup::Anywhere,
                brush_core::env::EnvironmentScope::Global,
            )
            .expect("preset");
    }
    shell.options_mut().treat_unset_variables_as_error = nounset;
    let mut out = vec![];
    match brush_parser::arithmetic::parse(&expr) {
        Err(_) => {
            out.push(hex(b"err"));
            out.push(hex(b"parse"));
        }
        Ok(parsed) => match parsed.eval(shell) {
            Ok(v) => {
                out.push(hex(b"ok"));
                out.push(hex(v.to_string().as_bytes()));
            }
            Err(e) => {
                out.push(hex(b"err"));
                out.push(hex(err_class(&e).as_bytes()));
            }
        },
    }
    for n in &obs {
        match shell.env_var(n) {
            Some(var) if var.value().is_set() => {
                let v = var.value().to_cow_str(shell).to_string();
                out.push(hex(format!("={v}").as_bytes()));
            }
            _ => out.push(hex(b"!")),
        }
    }
    out.join(" ")
}

fn main_eval(cases: &[Vec<String>]) {
    let rt = tokio::runtime::Builder::new_current_thread()
        .enable_all()
        .build()
        .expect("rt");
    let mut shell = fresh_shell(&rt);
    let baseline: std::collections::HashSet<String> =
        shell.env().iter().map(|(n, _)| n.clone()).collect();
    for c in cases {
        let r = std::panic::catch_unwind(std::panic::AssertUnwindSafe(|| {
            eval_case(&mut shell, &baseline, c)
        }));
        match r {
            Ok(line) => println!("{line}"),
            Err(e) => {
                println!("PANIC {}", hex(panic_msg(&e).as_bytes()));
                shell = fresh_shell(&rt);
            }
        }
    }
}

pub fn run(sub: &str, cases: &[Vec<String>]) -> bool {
    match sub {
        "arith_parse" => {
            main_parse(cases);
            true
        }
        "arith_eval" => {
            // the shell evaluates on its main thread (8 MiB stack by default)
            let cases = cases.to_vec();
            let h = std::thread::Builder::new()
                .stack_size(8 << 20)
                .spawn(move || main_eval(&cases))
                .expect("thread");
            let _ = h.join();
            true
        }
        _ => false,
    }
}
