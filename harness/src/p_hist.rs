//! C20: drives `Shell::{add_to_history,save_history}`, new sessions on one HISTFILE and
//! the `history -d/-c` builtin; prints the observable state after every op in the same
//! format as the model's `show_world`.
//! Case fields: <nlines> line* then ops: A sid now cmd | S sid | X sid | W sid | N | D sid off | C sid | T
//! (`now` is ignored by the code: the clock is real; the observed stamp is printed.)
use crate::util::{hex, unhex_str};
use brush_builtins::ShellBuilderExt;

async fn new_session(path: &std::path::Path, ts: bool) -> Option<brush_core::Shell> {
    let mut fds = std::collections::HashMap::new();
    fds.insert(0, brush_core::openfiles::null().ok()?);
    fds.insert(1, brush_core::openfiles::null().ok()?);
    fds.insert(2, brush_core::openfiles::null().ok()?);
    let b = brush_core::Shell::builder()
        .profile(brush_core::ProfileLoadBehavior::Skip)
        .rc(brush_core::RcLoadBehavior::Skip)
        .default_builtins(brush_builtins::BuiltinSet::BashMode)
        .interactive(true)
        .do_not_inherit_env(true)
        .fds(fds)
        .var(
            "HISTFILE",
            brush_core::ShellVariable::new(path.to_string_lossy().to_string()),
        );
    let mut sh = b.build().await.ok()?;
    set_ts(&mut sh, ts);
    Some(sh)
}

fn set_ts(sh: &mut brush_core::Shell, ts: bool) {
    if ts {
        let _ = sh
            .env_mut()
            .set_global("HISTTIMEFORMAT", brush_core::ShellVariable::new("%s ".to_string()));
    } else {
        let _ = sh.env_mut().unset("HISTTIMEFORMAT");
    }
}

fn show(path: &std::path::Path, sessions: &[brush_core::Shell], out: &mut Vec<String>) {
    let data = std::fs::read(path).unwrap_or_default();
    let text = String::from_utf8_lossy(&data).into_owned();
    let mut lines: Vec<&str> = text.split('\n').collect();
    let complete = lines.last().is_some_and(|l| l.is_empty());
    if complete {
        lines.pop();
    }
    out.push(hex(b"F"));
    out.push(hex(lines.len().to_string().as_bytes()));
    for l in &lines {
        out.push(hex(l.as_bytes()));
    }
    if !complete {
        out.push(hex(b"!unterminated"));
    }
    out.push(hex(b"H"));
    out.push(hex(sessions.len().to_string().as_bytes()));
    for s in sessions {
        let Some(h) = s.history() else {
            out.push(hex(b"!nohistory"));
            continue;
        };
        out.push(hex(h.count().to_string().as_bytes()));
        for it in h.iter() {
            out.push(hex(it.command_line.as_bytes()));
            match it.timestamp {
                Some(t) => out.push(hex(t.timestamp().to_string().as_bytes())),
                None => out.push(hex(b"-")),
            }
            out.push(hex(if it.dirty { b"1" } else { b"0" }));
        }
    }
}

pub fn run(sub: &str, cases: &[Vec<String>]) -> bool {
    if sub != "hist" {
        return false;
    }
    main_hist(cases);
    true
}

fn main_hist(cases: &[Vec<String>]) {
    let rt = tokio::runtime::Builder::new_multi_thread()
        .worker_threads(2)
        .enable_all()
        .build()
        .expect("rt");
    let dir = std::env::var("VERIF_SCRATCH").unwrap_or_else(|_| "/var/tmp".to_string());
    for (ci, c) in cases.iter().enumerate() {
        let path = std::path::PathBuf::from(format!("{dir}/bvhist-{}-{ci}", std::process::id()));
        let r = std::panic::catch_unwind(std::panic::AssertUnwindSafe(|| {
            let f: Vec<String> = c.iter().map(|s| unhex_str(s)).collect();
            let n: usize = f.first().and_then(|s| s.parse().ok()).unwrap_or(0);
            let mut content = String::new();
            for l in f.iter().skip(1).take(n) {
                content.push_str(l);
                content.push('\n');
            }
            let _ = std::fs::write(&path, content);
            let mut i = 1 + n;
            let mut sessions: Vec<brush_core::Shell> = vec![];
            let mut ts = false;
            let mut out: Vec<String> = vec![];
            rt.block_on(async {
                while i < f.len() {
                    let sid = |k: usize| f.get(k).and_then(|s| s.parse::<usize>().ok()).unwrap_or(usize::MAX);
                    match f[i].as_str() {
                        "A" => {
                            if let Some(s) = sessions.get_mut(sid(i + 1)) {
                                let _ = s.add_to_history(f.get(i + 3).map(|s| s.as_str()).unwrap_or(""));
                            }
                            i += 4;
                        }
                        "S" => {
                            if let Some(s) = sessions.get_mut(sid(i + 1)) {
                                let _ = s.save_history();
                            }
                            i += 2;
                        }
                        "X" => {
                            // a save whose write fails: HISTFILE points at /dev/full for this one call
                            if let Some(s) = sessions.get_mut(sid(i + 1)) {
                                let _ = s.env_mut().set_global(
                                    "HISTFILE",
                                    brush_core::ShellVariable::new("/dev/full".to_string()),
                                );
                                let _ = s.save_history();
                                let _ = s.env_mut().set_global(
                                    "HISTFILE",
                                    brush_core::ShellVariable::new(path.to_string_lossy().to_string()),
                                );
                            }
                            i += 2;
                        }
                        "N" => {
                            if let Some(s) = new_session(&path, ts).await {
                                sessions.push(s);
                            }
                            i += 1;
                        }
                        "D" => {
                            if let Some(s) = sessions.get_mut(sid(i + 1)) {
                                let params = s.default_exec_params();
                                let si = brush_core::SourceInfo::from("verif");
                                let off = f.get(i + 2).cloned().unwrap_or_default();
                                let _ = s.run_string(format!("history -d {off}"), &si, &params).await;
                            }
                            i += 3;
                        }
                        "W" => {
                            if let Some(s) = sessions.get_mut(sid(i + 1)) {
                                let params = s.default_exec_params();
                                let si = brush_core::SourceInfo::from("verif");
                                let _ = s.run_string("history -w".to_string(), &si, &params).await;
                            }
                            i += 2;
                        }
                        "C" => {
                            if let Some(s) = sessions.get_mut(sid(i + 1)) {
                                let params = s.default_exec_params();
                                let si = brush_core::SourceInfo::from("verif");
                                let _ = s.run_string("history -c".to_string(), &si, &params).await;
                            }
                            i += 2;
                        }
                        "T" => {
                            ts = !ts;
                            for s in &mut sessions {
                                set_ts(s, ts);
                            }
                            i += 1;
                        }
                        _ => break,
                    }
                    show(&path, &sessions, &mut out);
                }
            });
            out
        }));
        let _ = std::fs::remove_file(&path);
        match r {
            Ok(out) => println!("{}", out.join(" ")),
            Err(e) => println!("PANIC {}", hex(crate::util::panic_msg(&e).as_bytes())),
        }
    }
}
