//! C19: drives `brush_interactive::highlighting::highlight_command` and, through the public
//! tokenizer / word parser API, reconstructs what the highlighter consumed (token positions in
//! characters, word-piece byte indices, nested command texts) so that the Coq model of the span
//! builder can be replayed on exactly that input.
//!
//! Subcommand `hl`. Case fields: <line> <cursor> [<opts>]   (opts, comma separated: "sh" = sh mode
//! shell; "bqraw" = the tree under test highlights the raw text of backquoted substitutions, see
//! translator/ex_c19.py)
//! Output fields: `C` nspans (start end kind)*  |  `PANIC` msg     then   `TREE` <tree fields>
//!   prog   := `E` | `P` ntok token*
//!   token  := `O` sc ec | `W` sc ec flags pieces
//!   flags  := 7 chars 0/1: contains'=' keyword alias function builtin found starts-with'-'
//!   pieces := `X` | `L` n piece*
//!   piece  := `Q` s e | `V` s e | `A` s e | `T` s e | `D` s e n piece* | `B` s e cmd prog | `S` s e cmd prog
use crate::util::{hex, panic_msg, unhex_str};
use brush_builtins::ShellBuilderExt;
use brush_interactive::highlighting::{HighlightKind, highlight_command};

fn kind_no(k: HighlightKind) -> usize {
    match k {
        HighlightKind::Default => 0,
        HighlightKind::Comment => 1,
        HighlightKind::Arithmetic => 2,
        HighlightKind::Parameter => 3,
        HighlightKind::CommandSubstitution => 4,
        HighlightKind::Quoted => 5,
        HighlightKind::Operator => 6,
        HighlightKind::Assignment => 7,
        HighlightKind::HyphenOption => 8,
        HighlightKind::Function => 9,
        HighlightKind::Keyword => 10,
        HighlightKind::Builtin => 11,
        HighlightKind::Alias => 12,
        HighlightKind::ExternalCommand => 13,
        HighlightKind::NotFoundCommand => 14,
        HighlightKind::UnknownCommand => 15,
    }
}

fn push(out: &mut Vec<String>, s: &str) {
    out.push(hex(s.as_bytes()));
}

fn pushn(out: &mut Vec<String>, n: usize) {
    out.push(hex(n.to_string().as_bytes()));
}

/// Independent char-index -> byte-offset conversion (not the table of highlighting.rs):
/// walks the string; indices past the end give the length.
fn char_to_byte(line: &str, ci: usize) -> usize {
    let mut n = 0usize;
    let mut b = 0usize;
    for ch in line.chars() {
        if n == ci {
            return b;
        }
        n += 1;
        b += ch.len_utf8();
    }
    b
}

fn word_flags(shell: &brush_core::Shell, w: &str) -> String {
    let found = if brush_core::sys::fs::contains_path_separator(w) {
        shell.absolute_path(std::path::Path::new(w)).exists()
    } else {
        shell.find_first_executable_in_path(w).is_some()
    };
    let bits = [
        w.contains('='),
        shell.is_keyword(w),
        shell.aliases().contains_key(w),
        shell.funcs().get(w).is_some(),
        shell.builtins().contains_key(w),
        found,
        w.starts_with('-'),
    ];
    bits.iter().map(|b| if *b { '1' } else { '0' }).collect()
}

/// `top`: the whole input line; `g`: global byte offset of the word the piece belongs to;
/// `bqraw`: the code under test highlights the raw text between backquotes (sliced out of `top`
/// at the piece's global range) instead of the unescaped command string of the word parser.
fn dump_piece(
    shell: &brush_core::Shell,
    p: &brush_parser::word::WordPieceWithSource,
    out: &mut Vec<String>,
    depth: usize,
    top: &str,
    g: usize,
    bqraw: bool,
) {
    use brush_parser::word::WordPiece as WP;
    let leaf = |tag: &str, out: &mut Vec<String>| {
        push(out, tag);
        pushn(out, p.start_index);
        pushn(out, p.end_index);
    };
    match &p.piece {
        WP::SingleQuotedText(_) | WP::AnsiCQuotedText(_) | WP::EscapeSequence(_) => leaf("Q", out),
        WP::ParameterExpansion(_) | WP::TildeExpansion(_) => leaf("V", out),
        WP::ArithmeticExpression(_) => leaf("A", out),
        WP::Text(_) => leaf("T", out),
        WP::DoubleQuotedSequence(subs) | WP::GettextDoubleQuotedSequence(subs) => {
            leaf("D", out);
            pushn(out, subs.len());
            for s in subs {
                dump_piece(shell, s, out, depth, top, g, bqraw);
            }
        }
        WP::BackquotedCommandSubstitution(cmd) => {
            leaf("B", out);
            let gs = g + p.start_index;
            let ge = g + p.end_index;
            let text: &str = if bqraw {
                top.get((gs + 1)..ge.saturating_sub(1)).unwrap_or_default()
            } else {
                cmd.as_str()
            };
            push(out, text);
            dump_prog(shell, text, out, depth + 1, top, gs + 1, bqraw);
        }
        WP::CommandSubstitution(cmd) => {
            leaf("S", out);
            push(out, cmd);
            dump_prog(shell, cmd, out, depth + 1, top, g + p.start_index + 2, bqraw);
        }
    }
}

fn dump_prog(
    shell: &brush_core::Shell,
    line: &str,
    out: &mut Vec<String>,
    depth: usize,
    top: &str,
    off: usize,
    bqraw: bool,
) {
    if depth > 200 {
        push(out, "E");
        return;
    }
    let popts = shell.parser_options();
    let Ok(tokens) = brush_parser::tokenize_str_with_options(line, &popts.tokenizer_options()) else {
        push(out, "E");
        return;
    };
    push(out, "P");
    pushn(out, tokens.len());
    for t in &tokens {
        match t {
            brush_parser::Token::Operator(_, loc) => {
                push(out, "O");
                pushn(out, loc.start.index);
                pushn(out, loc.end.index);
            }
            brush_parser::Token::Word(w, loc) => {
                push(out, "W");
                pushn(out, loc.start.index);
                pushn(out, loc.end.index);
                push(out, &word_flags(shell, w));
                let sb = char_to_byte(line, loc.start.index);
                let eb = char_to_byte(line, loc.end.index);
                let raw = line.get(sb..eb).unwrap_or("");
                match brush_parser::word::parse(raw, &popts) {
                    Ok(pieces) => {
                        push(out, "L");
                        pushn(out, pieces.len());
                        for p in &pieces {
                            dump_piece(shell, p, out, depth, top, off + sb, bqraw);
                        }
                    }
                    Err(_) => push(out, "X"),
                }
            }
        }
    }
}

async fn make_shell(opts: &str) -> Option<brush_core::Shell> {
    let has = |k: &str| opts.split(',').any(|o| o == k);
    let mut fds = std::collections::HashMap::new();
    fds.insert(0, brush_core::openfiles::null().ok()?);
    fds.insert(1, brush_core::openfiles::null().ok()?);
    fds.insert(2, brush_core::openfiles::null().ok()?);
    let mut sh = brush_core::Shell::builder()
        .profile(brush_core::ProfileLoadBehavior::Skip)
        .rc(brush_core::RcLoadBehavior::Skip)
        .default_builtins(brush_builtins::BuiltinSet::BashMode)
        .sh_mode(has("sh"))
        .fds(fds)
        .build()
        .await
        .ok()?;
    sh.aliases_mut().insert("ll".to_string(), "ls -l".to_string());
    let params = sh.default_exec_params();
    let si = brush_core::SourceInfo::from("verif");
    let _ = sh.run_string("fn1() { :; }".to_string(), &si, &params).await;
    Some(sh)
}

/// Watchdog: a case that does not finish within VERIF_HANG_MS (default 2000) makes the process
/// print `HANG` as that case's result and exit(3); the driver restarts after it.
static CASE_NO: std::sync::atomic::AtomicU64 = std::sync::atomic::AtomicU64::new(u64::MAX);

fn start_watchdog() {
    use std::sync::atomic::Ordering::SeqCst;
    let limit: u64 = std::env::var("VERIF_HANG_MS").ok().and_then(|s| s.parse().ok()).unwrap_or(2000);
    let t0 = std::time::Instant::now();
    std::thread::spawn(move || {
        let mut seen = (u64::MAX, 0u64);
        loop {
            std::thread::sleep(std::time::Duration::from_millis(25));
            let now = t0.elapsed().as_millis() as u64;
            let no = CASE_NO.load(SeqCst);
            if no == u64::MAX {
                continue;
            }
            if seen.0 != no {
                seen = (no, now);
            } else if now - seen.1 > limit {
                println!("HANG");
                std::process::exit(3);
            }
        }
    });
}

pub fn run(sub: &str, cases: &[Vec<String>]) -> bool {
    if sub != "hl" {
        return false;
    }
    start_watchdog();
    let rt = tokio::runtime::Builder::new_multi_thread()
        .worker_threads(2)
        .enable_all()
        .build()
        .expect("rt");
    let shell_bash = rt.block_on(make_shell("")).expect("shell");
    let shell_sh = rt.block_on(make_shell("sh")).expect("shell");
    for (case_no, c) in cases.iter().enumerate() {
        CASE_NO.store(case_no as u64, std::sync::atomic::Ordering::SeqCst);
        let line = unhex_str(c.first().map(|s| s.as_str()).unwrap_or("-"));
        let cursor: usize = unhex_str(c.get(1).map(|s| s.as_str()).unwrap_or("-")).parse().unwrap_or(0);
        let opts = unhex_str(c.get(2).map(|s| s.as_str()).unwrap_or("-"));
        let has = |k: &str| opts.split(',').any(|o| o == k);
        let shell = if has("sh") { &shell_sh } else { &shell_bash };
        let bqraw = has("bqraw");
        let mut out: Vec<String> = vec![];
        let r = std::panic::catch_unwind(std::panic::AssertUnwindSafe(|| {
            let h = highlight_command(shell, &line, cursor);
            let mut o: Vec<String> = vec![];
            push(&mut o, "C");
            pushn(&mut o, h.spans().len());
            for s in h.spans() {
                pushn(&mut o, s.range.start);
                pushn(&mut o, s.range.end);
                pushn(&mut o, kind_no(s.kind));
            }
            o
        }));
        match r {
            Ok(o) => out.extend(o),
            Err(e) => {
                push(&mut out, "PANIC");
                push(&mut out, &panic_msg(&e));
            }
        }
        let t = std::panic::catch_unwind(std::panic::AssertUnwindSafe(|| {
            let mut o: Vec<String> = vec![];
            push(&mut o, "TREE");
            dump_prog(shell, &line, &mut o, 0, &line, 0, bqraw);
            o
        }));
        match t {
            Ok(o) => out.extend(o),
            Err(e) => {
                push(&mut out, "TPANIC");
                push(&mut out, &panic_msg(&e));
            }
        }
        println!("{}", out.join(" "));
    }
    CASE_NO.store(u64::MAX, std::sync::atomic::Ordering::SeqCst);
    true
}
