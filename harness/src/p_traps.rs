//! C16 / C18.
//!
//! `trapsproc`: process-level runs of the real CLI (`vbrush`, built from /repo by this crate).
//!   Case fields: <frontend c|f|s> <shell: v = vbrush | b = /usr/bin/bash> <script> (<file name> <file content>)*
//!   Output: `<exit status> <hex stdout>` (status -1: killed by signal / timeout: `TIMEOUT`).
//!   The script may refer to `$D` (exported): the case's private scratch directory where the
//!   extra files (sourced scripts) are written.
//!
//! `depth`: in-process session (C18). Case fields: <maxdepth or _> <n> then n times <command>.
//!   One `run_string` per command on one shell; after each, the scope-stack and call-stack depths
//!   read from the serde dump of `Shell`, the status and the control flow. Stops after ExitShell.
//!   Output: (scopes frames status flow)* as hex fields, or `PANIC <hex msg>`.
use crate::util::{hex, panic_msg, unhex_str};
use brush_builtins::ShellBuilderExt;
use std::io::{Read, Write};
use std::process::{Command, Stdio};
use std::time::{Duration, Instant};

pub fn run(sub: &str, cases: &[Vec<String>]) -> bool {
    match sub {
        "trapsproc" => {
            main_proc(cases);
            true
        }
        "depth" => {
            main_depth(cases);
            true
        }
        _ => false,
    }
}

fn vbrush_path() -> std::path::PathBuf {
    if let Ok(p) = std::env::var("VERIF_VBRUSH") {
        return p.into();
    }
    let exe = std::env::current_exe().expect("current_exe");
    exe.parent().expect("parent").join("vbrush")
}

fn main_proc(cases: &[Vec<String>]) {
    let base = std::env::var("VERIF_SCRATCH").unwrap_or_else(|_| "/var/tmp".to_string());
    let dir = format!("{base}/traps-{}", std::process::id());
    let _ = std::fs::create_dir_all(&dir);
    let vb = vbrush_path();
    for (k, c) in cases.iter().enumerate() {
        let fe = c.first().map(|s| unhex_str(s)).unwrap_or_default();
        let which = c.get(1).map(|s| unhex_str(s)).unwrap_or_default();
        let script = c.get(2).map(|s| unhex_str(s)).unwrap_or_default();
        let cdir = format!("{dir}/{k}");
        let _ = std::fs::create_dir_all(&cdir);
        let mut i = 3;
        while i + 1 < c.len() {
            let name = unhex_str(&c[i]);
            let content = unhex_str(&c[i + 1]);
            let _ = std::fs::write(format!("{cdir}/{name}"), content);
            i += 2;
        }
        let mut cmd = if which == "b" {
            let mut c = Command::new("/usr/bin/bash");
            c.arg("--norc").arg("--noprofile");
            c
        } else {
            let mut c = Command::new(&vb);
            c.arg("--norc").arg("--noprofile").arg("--no-config");
            c
        };
        cmd.env_clear()
            .env("PATH", "/usr/bin:/bin")
            .env("D", &cdir)
            .env("HOME", &cdir)
            .current_dir(&cdir)
            .stdout(Stdio::piped())
            .stderr(Stdio::null());
        match fe.as_str() {
            "c" => {
                cmd.arg("-c").arg(&script).stdin(Stdio::null());
            }
            "f" => {
                let p = format!("{cdir}/main.sh");
                let _ = std::fs::write(&p, &script);
                cmd.arg(&p).stdin(Stdio::null());
            }
            _ => {
                cmd.stdin(Stdio::piped());
            }
        }
        let line = match cmd.spawn() {
            Err(e) => format!("SPAWNFAIL {}", hex(e.to_string().as_bytes())),
            Ok(mut child) => {
                if let Some(mut si) = child.stdin.take() {
                    let _ = si.write_all(script.as_bytes());
                    drop(si);
                }
                let mut so = child.stdout.take().expect("stdout");
                let t = std::thread::spawn(move || {
                    let mut v = vec![];
                    let _ = so.read_to_end(&mut v);
                    v
                });
                let start = Instant::now();
                let mut status = None;
                while start.elapsed() < Duration::from_secs(20) {
                    match child.try_wait() {
                        Ok(Some(st)) => {
                            status = Some(st);
                            break;
                        }
                        Ok(None) => std::thread::sleep(Duration::from_millis(2)),
                        Err(_) => break,
                    }
                }
                if status.is_none() {
                    let _ = child.kill();
                    let _ = child.wait();
                    let _ = t.join();
                    "TIMEOUT".to_string()
                } else {
                    let out = t.join().unwrap_or_default();
                    let code = status.and_then(|s| s.code()).unwrap_or(-1);
                    format!("{} {}", hex(code.to_string().as_bytes()), hex(&out))
                }
            }
        };
        println!("{line}");
        let _ = std::fs::remove_dir_all(&cdir);
    }
    let _ = std::fs::remove_dir_all(&dir);
}

fn depths(shell: &brush_core::Shell) -> (usize, usize) {
    let v = serde_json::to_value(shell).unwrap_or(serde_json::Value::Null);
    let scopes = v
        .get("env")
        .and_then(|e| e.get("scopes"))
        .and_then(|s| s.as_array())
        .map(|a| a.len())
        .unwrap_or(usize::MAX);
    let frames = v
        .get("call_stack")
        .and_then(|c| c.get("frames"))
        .and_then(|s| s.as_array())
        .map(|a| a.len())
        .unwrap_or(usize::MAX);
    (scopes, frames)
}

fn main_depth(cases: &[Vec<String>]) {
    let rt = tokio::runtime::Builder::new_multi_thread()
        .worker_threads(2)
        .enable_all()
        .build()
        .expect("rt");
    let base = std::env::var("VERIF_SCRATCH").unwrap_or_else(|_| "/var/tmp".to_string());
    let dir = format!("{base}/depth-{}", std::process::id());
    let _ = std::fs::create_dir_all(&dir);
    for c in cases {
        let md = c.first().map(|s| unhex_str(s)).unwrap_or_default();
        let n: usize = c.get(1).map(|s| unhex_str(s)).and_then(|s| s.parse().ok()).unwrap_or(0);
        let cmds: Vec<String> = (0..n).filter_map(|i| c.get(2 + i)).map(|s| unhex_str(s)).collect();
        // remaining pairs: files
        let mut i = 2 + n;
        while i + 1 < c.len() {
            let _ = std::fs::write(format!("{dir}/{}", unhex_str(&c[i])), unhex_str(&c[i + 1]));
            i += 2;
        }
        let dirc = dir.clone();
        let r = std::panic::catch_unwind(std::panic::AssertUnwindSafe(|| {
            rt.block_on(async {
                let out = std::fs::File::options().write(true).open("/dev/null").expect("null");
                let mut fds = std::collections::HashMap::new();
                fds.insert(0, brush_core::openfiles::null().expect("null"));
                fds.insert(1, brush_core::openfiles::OpenFile::from(out.try_clone().expect("clone")));
                fds.insert(2, brush_core::openfiles::OpenFile::from(out));
                let b = brush_core::Shell::builder()
                    .profile(brush_core::ProfileLoadBehavior::Skip)
                    .rc(brush_core::RcLoadBehavior::Skip)
                    .default_builtins(brush_builtins::BuiltinSet::BashMode)
                    .shell_name("brush".to_string())
                    .do_not_inherit_env(true)
                    .fds(fds)
                    .maybe_max_function_call_depth(md.parse::<usize>().ok());
                let mut shell = b.build().await.expect("shell");
                let params = shell.default_exec_params();
                let si = brush_core::SourceInfo::from("verif");
                let _ = shell
                    .run_string(format!("D={dirc}; PATH=/usr/bin:/bin"), &si, &params)
                    .await;
                let mut fields: Vec<String> = vec![];
                for cmd in &cmds {
                    let res = shell.run_string(cmd.clone(), &si, &params).await;
                    let (sc, fr) = depths(&shell);
                    let flow = match &res {
                        Ok(r) => match r.next_control_flow {
                            brush_core::ExecutionControlFlow::Normal => "n",
                            brush_core::ExecutionControlFlow::ReturnFromFunctionOrScript => "r",
                            brush_core::ExecutionControlFlow::ExitShell => "x",
                            _ => "b",
                        },
                        Err(_) => "e",
                    };
                    fields.push(sc.to_string());
                    fields.push(fr.to_string());
                    fields.push(shell.last_exit_status().to_string());
                    fields.push(flow.to_string());
                    if flow == "x" {
                        break;
                    }
                }
                fields
            })
        }));
        match r {
            Ok(f) => println!(
                "{}",
                f.iter().map(|s| hex(s.as_bytes())).collect::<Vec<_>>().join(" ")
            ),
            Err(e) => println!("PANIC {}", hex(panic_msg(&e).as_bytes())),
        }
    }
    let _ = std::fs::remove_dir_all(&dir);
}
