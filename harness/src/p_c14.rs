//! C14: printed function definitions re-parse to the same function.
//!
//! c14rt  : <source of one function definition> <call script>
//!          -> <verdict> <text1> <text2> <detail> <outA> <outB> <outC>
//!   parse(source) -> def1; text1 = Display(def1); parse(text1) -> def2; text2 = Display(def2);
//!   verdict letters (all that apply): P source did not parse (detail = error) | N no function in source |
//!   R text1 does not re-parse | F text2 != text1 | A ASTs differ modulo locations |
//!   X exported body text (`() ` + Display(body)) does not import or imports to a different AST |
//!   B behaviour of the re-read definition differs | E behaviour of the imported definition differs | - none
//! c14enc : <source> -> ok <Display text> <encoded AST field>* | skip <why>
//!   (encoding of the sub-grammar modelled in coq/theories/Print/Show.v)
//! c14tok : <text> -> (w|o|n <text>)*  real tokenizer, io-numbers classified as peg.rs io_number does
use crate::sh::new_shell;
use crate::util::{hex, panic_msg, unhex_str};
use brush_parser::ast;
use std::io::{Read, Seek};

fn parse_program(src: &str) -> Result<ast::Program, String> {
    let opts = brush_parser::ParserOptions::default();
    let mut p = brush_parser::Parser::new(src.as_bytes(), &opts);
    p.parse_program().map_err(|e| format!("{e:?}"))
}

fn first_function(p: &ast::Program) -> Option<&ast::FunctionDefinition> {
    let cc = p.complete_commands.first()?;
    let item = cc.0.first()?;
    let cmd = item.0.first.seq.first()?;
    match cmd {
        ast::Command::Function(f) => Some(f),
        _ => None,
    }
}

fn strip_locs(v: &mut serde_json::Value) {
    match v {
        serde_json::Value::Object(m) => {
            if m.len() == 2 && m.contains_key("start") && m.contains_key("end") {
                *v = serde_json::Value::Null;
                return;
            }
            m.remove("loc");
            for (_, x) in m.iter_mut() {
                strip_locs(x);
            }
        }
        serde_json::Value::Array(a) => {
            for x in a.iter_mut() {
                strip_locs(x);
            }
        }
        _ => {}
    }
}

fn ast_json<T: serde::Serialize>(t: &T) -> serde_json::Value {
    let mut v = serde_json::to_value(t).unwrap_or(serde_json::Value::Null);
    strip_locs(&mut v);
    v
}

fn tmpfile(dir: &str) -> std::fs::File {
    static CTR: std::sync::atomic::AtomicU64 = std::sync::atomic::AtomicU64::new(0);
    let p = format!(
        "{dir}/bv14-{}-{}",
        std::process::id(),
        CTR.fetch_add(1, std::sync::atomic::Ordering::Relaxed)
    );
    let f = std::fs::File::options()
        .read(true)
        .write(true)
        .create_new(true)
        .open(&p)
        .expect("tmpfile");
    let _ = std::fs::remove_file(&p);
    f
}

enum Def<'a> {
    Source(&'a str),
    Import(&'a str, &'a str),
}

/// define the function (from source text, or through define_func_from_str) in a fresh shell
/// whose cwd is a fresh scratch directory, run the call script, return "status|stdout|files".
fn behaviour(rt: &tokio::runtime::Runtime, def: &Def<'_>, call: &str) -> String {
    let base = std::env::var("VERIF_SCRATCH").unwrap_or_else(|_| "/var/tmp".to_string());
    static CTR: std::sync::atomic::AtomicU64 = std::sync::atomic::AtomicU64::new(0);
    let wd = format!(
        "{base}/c14-cwd-{}-{}",
        std::process::id(),
        CTR.fetch_add(1, std::sync::atomic::Ordering::Relaxed)
    );
    let _ = std::fs::create_dir_all(&wd);
    let _ = std::fs::write(format!("{wd}/in"), "line1\nline2\n");
    let mut out = tmpfile(&base);
    let err = tmpfile(&base);
    let st = rt.block_on(async {
        let Ok(mut shell) = new_shell(&out, &err, "noenv").await else {
            return "noshell".to_string();
        };
        let _ = shell.set_working_dir(&wd);
        let params = shell.default_exec_params();
        let si = brush_core::SourceInfo::from("verif");
        match def {
            Def::Source(s) => {
                if shell
                    .run_string((*s).to_string(), &si, &params)
                    .await
                    .is_err()
                {
                    return "deferr".to_string();
                }
            }
            Def::Import(name, body) => {
                if shell.define_func_from_str(*name, body).is_err() {
                    return "importerr".to_string();
                }
            }
        }
        match shell.run_string(call.to_string(), &si, &params).await {
            Ok(res) => format!("{}", u8::from(res.exit_code)),
            Err(_) => "err".to_string(),
        }
    });
    let mut o = vec![];
    let _ = out.rewind();
    let _ = out.read_to_end(&mut o);
    // files left behind, sorted, with contents
    let mut files: Vec<(String, Vec<u8>)> = vec![];
    if let Ok(rd) = std::fs::read_dir(&wd) {
        for e in rd.flatten() {
            let n = e.file_name().to_string_lossy().into_owned();
            let c = std::fs::read(e.path()).unwrap_or_default();
            files.push((n, c));
        }
    }
    files.sort();
    let _ = std::fs::remove_dir_all(&wd);
    let mut s = format!("{st}|{}|", String::from_utf8_lossy(&o));
    for (n, c) in files {
        s.push_str(&format!("{n}={};", String::from_utf8_lossy(&c)));
    }
    s
}

fn do_rt(rt: &tokio::runtime::Runtime, c: &[String]) -> String {
    let src = unhex_str(c.first().map(|s| s.as_str()).unwrap_or("-"));
    let call = unhex_str(c.get(1).map(|s| s.as_str()).unwrap_or("-"));
    let line = |v: &str, t1: &str, t2: &str, d: &str, a: &str, b: &str, cc: &str| {
        format!(
            "{} {} {} {} {} {} {}",
            hex(v.as_bytes()),
            hex(t1.as_bytes()),
            hex(t2.as_bytes()),
            hex(d.as_bytes()),
            hex(a.as_bytes()),
            hex(b.as_bytes()),
            hex(cc.as_bytes())
        )
    };
    let p1 = match parse_program(&src) {
        Ok(p) => p,
        Err(e) => return line("P", "", "", &e, "", "", ""),
    };
    let Some(def1) = first_function(&p1) else {
        return line("N", "", "", "", "", "", "");
    };
    let text1 = format!("{def1}");
    let mut verdict = String::new();
    let mut detail = String::new();
    let mut text2 = String::new();
    match parse_program(&text1) {
        Err(e) => {
            verdict.push('R');
            detail = e;
        }
        Ok(p2) => match first_function(&p2) {
            None => {
                verdict.push('R');
                detail = "no function in the re-parsed text".to_string();
            }
            Some(def2) => {
                text2 = format!("{def2}");
                if text2 != text1 {
                    verdict.push('F');
                }
                if ast_json(def1) != ast_json(def2) {
                    verdict.push('A');
                }
            }
        },
    }
    // export path: "() " + Display(body), read by parse_function_parens_and_body
    let exported = format!("() {}", def1.body);
    let opts = brush_parser::ParserOptions::default();
    let mut ip = brush_parser::Parser::new(exported.as_bytes(), &opts);
    match ip.parse_function_parens_and_body() {
        Ok(b) => {
            if ast_json(&b) != ast_json(&def1.body) {
                verdict.push('X');
            }
        }
        Err(e) => {
            verdict.push('X');
            if detail.is_empty() {
                detail = format!("import: {e:?}");
            }
        }
    }
    let (mut a, mut b, mut cc) = (String::new(), String::new(), String::new());
    if !call.is_empty() {
        a = behaviour(rt, &Def::Source(&src), &call);
        b = behaviour(rt, &Def::Source(&text1), &call);
        cc = behaviour(rt, &Def::Import(&def1.fname.value, &exported), &call);
        if a != b {
            verdict.push('B');
        }
        if a != cc {
            verdict.push('E');
        }
    }
    if verdict.is_empty() {
        verdict.push('-');
    }
    line(&verdict, &text1, &text2, &detail, &a, &b, &cc)
}

// ---------------------------------------------------------------- encoding of the sub-grammar

struct Enc {
    out: Vec<String>,
}

impl Enc {
    fn put(&mut self, s: &str) {
        self.out.push(hex(s.as_bytes()));
    }
    fn word(&mut self, w: &ast::Word) {
        self.put(&w.value);
    }
    fn fd(&mut self, fd: &Option<ast::IoFd>) {
        match fd {
            None => self.put("N"),
            Some(n) => {
                self.put("Y");
                self.put(&n.to_string());
            }
        }
    }
    fn redir(&mut self, r: &ast::IoRedirect) -> Option<()> {
        match r {
            ast::IoRedirect::File(fd, kind, target) => {
                self.put("f");
                self.fd(fd);
                self.put(match kind {
                    ast::IoFileRedirectKind::Read => "<",
                    ast::IoFileRedirectKind::Write => ">",
                    ast::IoFileRedirectKind::Append => "A",
                    ast::IoFileRedirectKind::ReadAndWrite => "B",
                    ast::IoFileRedirectKind::Clobber => "C",
                    ast::IoFileRedirectKind::DuplicateInput => "I",
                    ast::IoFileRedirectKind::DuplicateOutput => "O",
                });
                match target {
                    ast::IoFileRedirectTarget::Filename(w) | ast::IoFileRedirectTarget::Duplicate(w) => self.word(w),
                    ast::IoFileRedirectTarget::Fd(n) => self.put(&n.to_string()),
                    ast::IoFileRedirectTarget::ProcessSubstitution(..) => return None,
                }
            }
            ast::IoRedirect::OutputAndError(w, app) => {
                self.put("e");
                self.word(w);
                self.put(if *app { "1" } else { "0" });
            }
            ast::IoRedirect::HereString(fd, w) => {
                self.put("h");
                self.fd(fd);
                self.word(w);
            }
            ast::IoRedirect::HereDocument(..) => return None,
        }
        Some(())
    }
    fn items(&mut self, l: &[ast::CommandPrefixOrSuffixItem]) -> Option<()> {
        self.put(&l.len().to_string());
        for i in l {
            match i {
                ast::CommandPrefixOrSuffixItem::IoRedirect(r) => {
                    self.put("r");
                    self.redir(r)?;
                }
                ast::CommandPrefixOrSuffixItem::Word(w) => {
                    self.put("w");
                    self.word(w);
                }
                ast::CommandPrefixOrSuffixItem::AssignmentWord(_, w) => {
                    self.put("w");
                    self.word(w);
                }
                ast::CommandPrefixOrSuffixItem::ProcessSubstitution(..) => return None,
            }
        }
        Some(())
    }
    fn redirs(&mut self, r: &Option<ast::RedirectList>) -> Option<()> {
        match r {
            None => self.put("0"),
            Some(l) => {
                self.put("R");
                self.put(&l.0.len().to_string());
                for x in &l.0 {
                    self.redir(x)?;
                }
            }
        }
        Some(())
    }
    fn cmd(&mut self, c: &ast::Command) -> Option<()> {
        match c {
            ast::Command::Simple(s) => {
                self.put("S");
                self.items(s.prefix.as_ref().map(|p| p.0.as_slice()).unwrap_or(&[]))?;
                match &s.word_or_name {
                    Some(w) => {
                        self.put("Y");
                        self.word(w);
                    }
                    None => self.put("N"),
                }
                self.items(s.suffix.as_ref().map(|p| p.0.as_slice()).unwrap_or(&[]))?;
                // Display prints nothing for an absent part and the parts of an empty Some(vec) alike
                if s.prefix.as_ref().is_some_and(|p| p.0.is_empty())
                    || s.suffix.as_ref().is_some_and(|p| p.0.is_empty())
                {
                    return None;
                }
            }
            ast::Command::Compound(k, r) => {
                self.put("C");
                self.compound(k)?;
                self.redirs(r)?;
            }
            ast::Command::Function(f) => {
                self.put("F");
                self.put(&f.fname.value);
                self.compound(&f.body.0)?;
                self.redirs(&f.body.1)?;
            }
        }
        Some(())
    }
    fn compound(&mut self, k: &ast::CompoundCommand) -> Option<()> {
        match k {
            ast::CompoundCommand::BraceGroup(b) => {
                self.put("B");
                self.clist(&b.list)?;
            }
            ast::CompoundCommand::Subshell(s) => {
                self.put("P");
                self.clist(&s.list)?;
            }
            ast::CompoundCommand::ForClause(f) => {
                self.put("O");
                self.put(&f.variable_name);
                match &f.values {
                    Some(v) => {
                        self.put("Y");
                        self.put(&v.len().to_string());
                        for w in v {
                            self.word(w);
                        }
                    }
                    None => self.put("N"),
                }
                self.clist(&f.body.list)?;
            }
            ast::CompoundCommand::WhileClause(w) => {
                self.put("W");
                self.clist(&w.0)?;
                self.clist(&w.1.list)?;
            }
            ast::CompoundCommand::UntilClause(w) => {
                self.put("U");
                self.clist(&w.0)?;
                self.clist(&w.1.list)?;
            }
            ast::CompoundCommand::IfClause(i) => {
                self.put("I");
                self.clist(&i.condition)?;
                self.clist(&i.then)?;
                for e in i.elses.as_deref().unwrap_or(&[]) {
                    match &e.condition {
                        Some(c) => {
                            self.put("i");
                            self.clist(c)?;
                        }
                        None => self.put("e"),
                    }
                    self.clist(&e.body)?;
                }
                self.put(".");
            }
            ast::CompoundCommand::CaseClause(c) => {
                self.put("K");
                self.word(&c.value);
                for it in &c.cases {
                    self.put(if it.cmd.is_some() { "s" } else { "n" });
                    self.put(&it.patterns.len().to_string());
                    for p in &it.patterns {
                        self.word(p);
                    }
                    if let Some(cmd) = &it.cmd {
                        self.clist(cmd)?;
                    }
                    self.put(match it.post_action {
                        ast::CaseItemPostAction::ExitCase => "b",
                        ast::CaseItemPostAction::UnconditionallyExecuteNextCaseItem => "f",
                        ast::CaseItemPostAction::ContinueEvaluatingCases => "c",
                    });
                }
                self.put(".");
            }
            _ => return None,
        }
        Some(())
    }
    fn pipeline(&mut self, p: &ast::Pipeline) -> Option<()> {
        self.put(match &p.timed {
            None => "0",
            Some(ast::PipelineTimed::Timed(_)) => "1",
            Some(ast::PipelineTimed::TimedWithPosixOutput(_)) => "2",
        });
        self.put(if p.bang { "1" } else { "0" });
        let (first, rest) = p.seq.split_first()?;
        self.cmd(first)?;
        for c in rest {
            self.put(",");
            self.cmd(c)?;
        }
        self.put(".");
        Some(())
    }
    fn andor(&mut self, a: &ast::AndOrList) -> Option<()> {
        self.pipeline(&a.first)?;
        for x in &a.additional {
            match x {
                ast::AndOr::And(p) => {
                    self.put("&");
                    self.pipeline(p)?;
                }
                ast::AndOr::Or(p) => {
                    self.put("|");
                    self.pipeline(p)?;
                }
            }
        }
        self.put(".");
        Some(())
    }
    fn clist(&mut self, l: &ast::CompoundList) -> Option<()> {
        let (first, rest) = l.0.split_first()?;
        self.andor(&first.0)?;
        self.put(if matches!(first.1, ast::SeparatorOperator::Async) { "1" } else { "0" });
        for it in rest {
            self.put(";");
            self.andor(&it.0)?;
            self.put(if matches!(it.1, ast::SeparatorOperator::Async) { "1" } else { "0" });
        }
        self.put(".");
        Some(())
    }
}

fn do_enc(c: &[String]) -> String {
    let src = unhex_str(c.first().map(|s| s.as_str()).unwrap_or("-"));
    let p = match parse_program(&src) {
        Ok(p) => p,
        Err(_) => return format!("skip {}", hex(b"parse")),
    };
    let Some(cmd) = p
        .complete_commands
        .first()
        .and_then(|cc| cc.0.first())
        .and_then(|it| it.0.first.seq.first())
    else {
        return format!("skip {}", hex(b"empty"));
    };
    let mut e = Enc { out: vec![] };
    if e.cmd(cmd).is_none() {
        return format!("skip {}", hex(b"outside the modelled sub-grammar"));
    }
    format!("ok {} {}", hex(format!("{cmd}").as_bytes()), e.out.join(" "))
}

fn do_tok(c: &[String]) -> String {
    let text = unhex_str(c.first().map(|s| s.as_str()).unwrap_or("-"));
    let toks = match brush_parser::tokenize_str(&text) {
        Ok(t) => t,
        Err(e) => return format!("{} {}", hex(b"!err"), hex(format!("{e:?}").as_bytes())),
    };
    let mut out: Vec<String> = vec![];
    for (i, t) in toks.iter().enumerate() {
        match t {
            brush_parser::Token::Operator(s, _) => {
                out.push(hex(b"o"));
                out.push(hex(s.as_bytes()));
            }
            brush_parser::Token::Word(s, l) => {
                // peg.rs io_number: all digits, next token an operator starting with < or >, contiguous
                let io = !s.is_empty()
                    && s.chars().all(|c| c.is_ascii_digit())
                    && matches!(toks.get(i + 1), Some(brush_parser::Token::Operator(o, l2))
                        if o.starts_with(['<', '>']) && l.end.index == l2.start.index);
                out.push(hex(if io { b"n" } else { b"w" }));
                out.push(hex(s.as_bytes()));
            }
        }
    }
    out.join(" ")
}

pub fn run(sub: &str, cases: &[Vec<String>]) -> bool {
    if !matches!(sub, "c14rt" | "c14enc" | "c14tok") {
        return false;
    }
    let rt = tokio::runtime::Builder::new_multi_thread()
        .worker_threads(2)
        .enable_all()
        .build()
        .expect("rt");
    for c in cases {
        let r = std::panic::catch_unwind(std::panic::AssertUnwindSafe(|| match sub {
            "c14rt" => do_rt(&rt, c),
            "c14enc" => do_enc(c),
            _ => do_tok(c),
        }));
        // c14rt runs generated functions: whatever a child process may write to the harness's own stdout must not be
        // taken for a result line, so these are marked and start on a fresh line.
        let mark = if sub == "c14rt" { "\n@@ " } else { "" };
        match r {
            Ok(l) => println!("{mark}{l}"),
            Err(e) => println!("{mark}PANIC {}", hex(panic_msg(&e).as_bytes())),
        }
    }
    true
}
