//! brushverif: correspondence harness driving /repo's brush crates.
//! Subcommands live in src/p_*.rs (registered automatically through registry.rs).
#![allow(dead_code)]
mod registry;
pub mod util;
pub use registry::p_sh as sh;

fn main() {
    let args: Vec<String> = std::env::args().collect();
    let sub = args.get(1).map(|s| s.as_str()).unwrap_or("");
    // Silence the default panic message; panics are result values.
    std::panic::set_hook(Box::new(|_| {}));
    let cases = util::read_cases();
    if !registry::dispatch(sub, &cases) {
        eprintln!("unknown subcommand {sub}");
        std::process::exit(2);
    }
}
