//! brushverif: correspondence harness driving /repo's brush crates.
mod hist;
mod sh;
mod util;

fn main() {
    let args: Vec<String> = std::env::args().collect();
    let sub = args.get(1).map(|s| s.as_str()).unwrap_or("");
    // Silence the default panic message; panics are result values.
    std::panic::set_hook(Box::new(|_| {}));
    let cases = util::read_cases();
    match sub {
        "sh" => sh::main_sh(cases),
        "hist" => hist::main_hist(cases),
        _ => {
            eprintln!("unknown subcommand {sub}");
            std::process::exit(2);
        }
    }
}
