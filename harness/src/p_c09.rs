//! C09: variable scopes and attributes.
//!  `envapi`: op sequences directly on `ShellEnvironment` / `ShellVariable`.
//!            Case fields: the op tokens (see coq/theories/Scope/Entry.v, `api_step`).
//!  `envsh` : programs run in an in-process shell, one `run_string` per step.
//!            Case fields: <names,comma separated> <setup script> <step script>*
//!            Function bodies call the harness builtins `__probe tag n1 n2 ..` (dumps the scope
//!            stack) and `__mark` (ends the listing printed by a preceding `/usr/bin/env`).
//! Output: the same fields as the model's `show_env`/`show_obs`, hex encoded.
use crate::util::{hex, panic_msg, unhex_str};
use brush_builtins::ShellBuilderExt;
use brush_core::env::{EnvironmentLookup, EnvironmentScope, ShellEnvironment};
use brush_core::variables::{
    ArrayLiteral, ShellValueLiteral, ShellVariable, ShellVariableUpdateTransform,
};
use std::io::{Read, Seek, Write};

fn hx(s: &str) -> String {
    hex(s.as_bytes())
}

/// Dumps the scope stack (bottom first), bindings sorted by name, restricted to `names`
/// (all names when `names` is empty), in the model's `show_env` format.
fn dump_env(env: &ShellEnvironment, names: &[String], out: &mut Vec<String>) {
    let v = serde_json::to_value(env).unwrap_or(serde_json::Value::Null);
    let empty = vec![];
    let scopes = v
        .get("scopes")
        .and_then(|s| s.as_array())
        .unwrap_or(&empty);
    out.push(hx(&scopes.len().to_string()));
    for sc in scopes {
        let kind = sc.get(0).and_then(|k| k.as_str()).unwrap_or("?");
        out.push(hx(match kind {
            "Local" => "L",
            "Global" => "G",
            "Command" => "C",
            _ => "?",
        }));
        let mut binds: Vec<(&String, &serde_json::Value)> = sc
            .get(1)
            .and_then(|m| m.get("variables"))
            .and_then(|m| m.as_object())
            .map(|m| m.iter().collect())
            .unwrap_or_default();
        binds.retain(|(n, _)| names.is_empty() || names.iter().any(|x| x == *n));
        binds.sort_by(|a, b| a.0.as_bytes().cmp(b.0.as_bytes()));
        out.push(hx(&binds.len().to_string()));
        for (n, var) in binds {
            out.push(hx(n));
            dump_var_json(var, out);
        }
    }
}

fn dump_var_json(var: &serde_json::Value, out: &mut Vec<String>) {
    let flag = |k: &str| var.get(k).and_then(|b| b.as_bool()).unwrap_or(false);
    let mut attrs = String::new();
    if flag("exported") {
        attrs.push('x');
    }
    if flag("readonly") {
        attrs.push('r');
    }
    if flag("treat_as_integer") {
        attrs.push('i');
    }
    match var.get("transform_on_update").and_then(|t| t.as_str()) {
        Some("Lowercase") => attrs.push('l'),
        Some("Uppercase") => attrs.push('u'),
        Some("Capitalize") => attrs.push('c'),
        _ => {}
    }
    out.push(hx(&attrs));
    let val = var.get("value").cloned().unwrap_or(serde_json::Value::Null);
    if let Some(u) = val.get("Unset") {
        out.push(hx(match u.as_str() {
            Some("Untyped") => "U",
            Some("IndexedArray") => "Ua",
            Some("AssociativeArray") => "UA",
            _ => "U?",
        }));
        out.push(hx("0"));
    } else if let Some(s) = val.get("String") {
        out.push(hx("S"));
        out.push(hx("1"));
        out.push(hx("0"));
        out.push(hx(s.as_str().unwrap_or("")));
    } else if let Some(m) = val.get("IndexedArray").and_then(|m| m.as_object()) {
        let mut items: Vec<(u64, &str)> = m
            .iter()
            .map(|(k, v)| (k.parse::<u64>().unwrap_or(u64::MAX), v.as_str().unwrap_or("")))
            .collect();
        items.sort_by_key(|x| x.0);
        out.push(hx("I"));
        out.push(hx(&items.len().to_string()));
        for (k, v) in items {
            out.push(hx(&k.to_string()));
            out.push(hx(v));
        }
    } else if let Some(m) = val.get("AssociativeArray").and_then(|m| m.as_object()) {
        let mut items: Vec<(&String, &str)> =
            m.iter().map(|(k, v)| (k, v.as_str().unwrap_or(""))).collect();
        items.sort_by(|a, b| a.0.as_bytes().cmp(b.0.as_bytes()));
        out.push(hx("A"));
        out.push(hx(&items.len().to_string()));
        for (k, v) in items {
            out.push(hx(k));
            out.push(hx(v));
        }
    } else {
        out.push(hx("?dynamic"));
        out.push(hx("0"));
    }
}

fn dump_var(var: &ShellVariable, out: &mut Vec<String>) {
    let v = serde_json::to_value(var).unwrap_or(serde_json::Value::Null);
    dump_var_json(&v, out);
}

fn err_class(e: &brush_core::Error) -> &'static str {
    use brush_core::ErrorKind as K;
    match e.kind() {
        K::ReadonlyVariable => "readonly",
        K::Unimplemented(_) | K::UnimplementedAndTracked(_, _) => "unimp",
        K::ArrayIndexOutOfRange(_) => "range",
        K::ConvertingAssociativeArrayToIndexedArray => "a2i",
        K::ConvertingIndexedArrayToAssociativeArray => "i2a",
        K::NotArray => "notarray",
        K::UnexpectedScopeType { .. } | K::MissingScope | K::MissingScopeForNewVariable => "scope",
        _ => "other",
    }
}

// ------------------------------------------------------------------ API level

struct Toks<'a> {
    t: &'a [String],
    i: usize,
}
impl Toks<'_> {
    fn next(&mut self) -> String {
        let s = self.t.get(self.i).map(|s| unhex_str(s)).unwrap_or_default();
        self.i += 1;
        s
    }
    fn done(&self) -> bool {
        self.i >= self.t.len()
    }
    fn lit(&mut self) -> ShellValueLiteral {
        let t = self.next();
        if t == "s" {
            ShellValueLiteral::Scalar(self.next())
        } else {
            let n: usize = self.next().parse().unwrap_or(0);
            let mut items = vec![];
            for _ in 0..n {
                let k = self.next();
                if k == "k" {
                    let key = self.next();
                    let v = self.next();
                    items.push((Some(key), v));
                } else {
                    items.push((None, self.next()));
                }
            }
            ShellValueLiteral::Array(ArrayLiteral(items))
        }
    }
}

fn kind_of(s: &str) -> EnvironmentScope {
    match s {
        "L" => EnvironmentScope::Local,
        "C" => EnvironmentScope::Command,
        _ => EnvironmentScope::Global,
    }
}
fn policy_of(s: &str) -> EnvironmentLookup {
    match s {
        "g" => EnvironmentLookup::OnlyInGlobal,
        "c" => EnvironmentLookup::OnlyInCurrentLocal,
        "l" => EnvironmentLookup::OnlyInLocal,
        _ => EnvironmentLookup::Anywhere,
    }
}

fn res_class(r: Result<(), brush_core::Error>) -> String {
    match r {
        Ok(()) => "ok".to_string(),
        Err(e) => err_class(&e).to_string(),
    }
}

fn child_listing(env: &ShellEnvironment, shell: &brush_core::Shell, names: &[String], out: &mut Vec<String>) {
    // what compose_std_command does with iter_exported()
    let mut l: Vec<(String, String)> = vec![];
    for (k, v) in env.iter_exported() {
        if v.value().is_set() && (names.is_empty() || names.iter().any(|n| n == k)) {
            l.push((k.clone(), v.value().to_cow_str(shell).to_string()));
        }
    }
    l.sort_by(|a, b| a.0.as_bytes().cmp(b.0.as_bytes()));
    out.push(hx("E"));
    out.push(hx(&l.len().to_string()));
    for (k, v) in l {
        out.push(hx(&k));
        out.push(hx(&v));
    }
}

fn api_case(shell: &brush_core::Shell, toks: &[String]) -> String {
    let mut env = ShellEnvironment::new();
    let mut t = Toks { t: toks, i: 0 };
    let mut out: Vec<String> = vec![];
    while !t.done() {
        let op = t.next();
        match op.as_str() {
            "push" => {
                env.push_scope(kind_of(&t.next()));
                out.push(hx("ok"));
            }
            "pop" => {
                let r = env.pop_scope(kind_of(&t.next()));
                out.push(hx(&res_class(r)));
            }
            "uoa" => {
                let n = t.next();
                let l = t.lit();
                let u = t.next();
                let p = policy_of(&t.next());
                let k = kind_of(&t.next());
                let r = env.update_or_add(
                    n,
                    l,
                    |v| {
                        match u.as_str() {
                            "x" => {
                                v.export();
                            }
                            "u" => {
                                v.unexport();
                            }
                            _ => {}
                        }
                        Ok(())
                    },
                    p,
                    k,
                );
                out.push(hx(&res_class(r)));
            }
            "uoae" => {
                let n = t.next();
                let ix = t.next();
                let v = t.next();
                let p = policy_of(&t.next());
                let k = kind_of(&t.next());
                let r = env.update_or_add_array_element(n, ix, v, |_| Ok(()), p, k);
                out.push(hx(&res_class(r)));
            }
            "add" => {
                let n = t.next();
                let k = kind_of(&t.next());
                let r = env.add(
                    n,
                    ShellVariable::new(brush_core::ShellValue::Unset(
                        brush_core::variables::ShellValueUnsetType::Untyped,
                    )),
                    k,
                );
                out.push(hx(&res_class(r)));
            }
            "unset" => {
                let n = t.next();
                out.push(hx(&match env.unset(&n) {
                    Ok(Some(_)) => "some".to_string(),
                    Ok(None) => "none".to_string(),
                    Err(e) => err_class(&e).to_string(),
                }));
            }
            "unsetix" => {
                let n = t.next();
                let ix = t.next();
                out.push(hx(&match env.unset_index(&n, &ix) {
                    Ok(true) => "true".to_string(),
                    Ok(false) => "false".to_string(),
                    Err(e) => err_class(&e).to_string(),
                }));
            }
            "get" => {
                let n = t.next();
                let p = policy_of(&t.next());
                match env.get_using_policy(&n, p) {
                    Some(v) => {
                        out.push(hx("some"));
                        dump_var(v, &mut out);
                    }
                    None => out.push(hx("none")),
                }
            }
            "child" => child_listing(&env, shell, &[], &mut out),
            "asg" | "asgix" | "ro" | "exp" | "int" | "xf" | "toidx" | "toassoc" => {
                let n = t.next();
                // read the operands first (the model consumes them even if the name is absent)
                let mut l = None;
                let (mut a1, mut a2, mut a3) = (String::new(), String::new(), String::new());
                match op.as_str() {
                    "asg" => {
                        l = Some(t.lit());
                        a1 = t.next();
                    }
                    "asgix" => {
                        a1 = t.next();
                        a2 = t.next();
                        a3 = t.next();
                    }
                    "exp" | "int" | "xf" => a1 = t.next(),
                    _ => {}
                }
                let r = match env.get_mut(&n) {
                    None => "other".to_string(),
                    Some((_, v)) => match op.as_str() {
                        "asg" => res_class(v.assign(l.unwrap(), a1.starts_with('1'))),
                        "asgix" => res_class(v.assign_at_index(a1, a2, a3.starts_with('1'))),
                        "ro" => {
                            v.set_readonly();
                            "ok".to_string()
                        }
                        "exp" => {
                            if a1.starts_with('1') {
                                v.export();
                            } else {
                                v.unexport();
                            }
                            "ok".to_string()
                        }
                        "int" => {
                            if a1.starts_with('1') {
                                v.treat_as_integer();
                            } else {
                                v.unset_treat_as_integer();
                            }
                            "ok".to_string()
                        }
                        "xf" => {
                            v.set_update_transform(match a1.as_str() {
                                "l" => ShellVariableUpdateTransform::Lowercase,
                                "u" => ShellVariableUpdateTransform::Uppercase,
                                "c" => ShellVariableUpdateTransform::Capitalize,
                                _ => ShellVariableUpdateTransform::None,
                            });
                            "ok".to_string()
                        }
                        "toidx" => res_class(v.convert_to_indexed_array()),
                        _ => res_class(v.convert_to_associative_array()),
                    },
                };
                out.push(hx(&r));
            }
            _ => {
                out.push(hx("?"));
                break;
            }
        }
        out.push(hx("T"));
        dump_env(&env, &[], &mut out);
    }
    out.join(" ")
}

// ------------------------------------------------------------------ shell level

struct ProbeCmd;
impl brush_core::builtins::SimpleCommand for ProbeCmd {
    fn get_content(
        _name: &str,
        _content_type: brush_core::builtins::ContentType,
        _options: &brush_core::builtins::ContentOptions,
    ) -> Result<String, brush_core::Error> {
        Ok(String::new())
    }

    fn execute<SE: brush_core::ShellExtensions, I: Iterator<Item = S>, S: AsRef<str>>(
        context: brush_core::ExecutionContext<'_, SE>,
        args: I,
    ) -> Result<brush_core::ExecutionResult, brush_core::Error> {
        let mut all: Vec<String> = args.skip(1).map(|s| s.as_ref().to_string()).collect();
        let tag = if all.is_empty() { String::new() } else { all.remove(0) };
        let names = all;
        let mut out = vec![hx(&tag)];
        dump_env(context.shell.env(), &names, &mut out);
        let mut w = context.stdout();
        let _ = writeln!(w, "@@P {}", out.join(" "));
        let _ = w.flush();
        Ok(brush_core::ExecutionResult::success())
    }
}

struct MarkCmd;
impl brush_core::builtins::SimpleCommand for MarkCmd {
    fn get_content(
        _name: &str,
        _content_type: brush_core::builtins::ContentType,
        _options: &brush_core::builtins::ContentOptions,
    ) -> Result<String, brush_core::Error> {
        Ok(String::new())
    }

    fn execute<SE: brush_core::ShellExtensions, I: Iterator<Item = S>, S: AsRef<str>>(
        context: brush_core::ExecutionContext<'_, SE>,
        _args: I,
    ) -> Result<brush_core::ExecutionResult, brush_core::Error> {
        let mut w = context.stdout();
        let _ = writeln!(w, "@@E");
        let _ = w.flush();
        Ok(brush_core::ExecutionResult::success())
    }
}

fn tmpfile(tag: &str) -> std::fs::File {
    let dir = std::env::var("VERIF_SCRATCH").unwrap_or_else(|_| "/var/tmp".to_string());
    let p = format!(
        "{dir}/bv-env-{}-{tag}-{}",
        std::process::id(),
        std::time::SystemTime::now()
            .duration_since(std::time::UNIX_EPOCH)
            .map(|d| d.as_nanos())
            .unwrap_or(0)
    );
    let f = std::fs::File::options()
        .read(true)
        .write(true)
        .create_new(true)
        .open(&p)
        .expect("tmpfile");
    let _ = std::fs::remove_file(&p);
    f
}

async fn probe_shell(
    out: &std::fs::File,
    err: &std::fs::File,
) -> Result<brush_core::Shell, brush_core::Error> {
    let mut fds = std::collections::HashMap::new();
    fds.insert(0, brush_core::openfiles::null()?);
    fds.insert(1, brush_core::openfiles::OpenFile::from(out.try_clone()?));
    fds.insert(2, brush_core::openfiles::OpenFile::from(err.try_clone()?));
    brush_core::Shell::builder()
        .profile(brush_core::ProfileLoadBehavior::Skip)
        .rc(brush_core::RcLoadBehavior::Skip)
        .default_builtins(brush_builtins::BuiltinSet::BashMode)
        .builtin("__probe", brush_core::builtins::simple_builtin::<ProbeCmd, _>())
        .builtin("__mark", brush_core::builtins::simple_builtin::<MarkCmd, _>())
        .shell_name("brush".to_string())
        .do_not_inherit_env(true)
        .fds(fds)
        .build()
        .await
}

/// Splits what a step printed into observations.
fn parse_step_output(text: &str, names: &[String], out: &mut Vec<String>) {
    let mut envlines: Vec<(String, String)> = vec![];
    for line in text.split('\n') {
        if let Some(rest) = line.strip_prefix("@@P ") {
            out.push(hx("P"));
            out.push(rest.trim().to_string());
        } else if line == "@@E" {
            envlines.sort_by(|a, b| a.0.as_bytes().cmp(b.0.as_bytes()));
            out.push(hx("E"));
            out.push(hx(&envlines.len().to_string()));
            for (k, v) in envlines.drain(..) {
                out.push(hx(&k));
                out.push(hx(&v));
            }
        } else if let Some((k, v)) = line.split_once('=') {
            if names.iter().any(|n| n == k) {
                envlines.push((k.to_string(), v.to_string()));
            }
        }
    }
}

fn sh_case(rt: &tokio::runtime::Runtime, c: &[String]) -> String {
    let names: Vec<String> = unhex_str(c.first().map(|s| s.as_str()).unwrap_or("-"))
        .split(',')
        .filter(|s| !s.is_empty())
        .map(|s| s.to_string())
        .collect();
    let setup = unhex_str(c.get(1).map(|s| s.as_str()).unwrap_or("-"));
    let mut outf = tmpfile("o");
    let errf = tmpfile("e");
    let mut out: Vec<String> = vec![];
    rt.block_on(async {
        let Ok(mut shell) = probe_shell(&outf, &errf).await else {
            out.push(hx("!noshell"));
            return;
        };
        let params = shell.default_exec_params();
        let si = brush_core::SourceInfo::from("verif");
        let _ = shell.run_string(setup, &si, &params).await;
        let mut pos: u64 = outf.metadata().map(|m| m.len()).unwrap_or(0);
        for step in c.iter().skip(2) {
            let script = unhex_str(step);
            let _ = shell.run_string(script, &si, &params).await;
            let mut buf = vec![];
            let _ = outf.seek(std::io::SeekFrom::Start(pos));
            let _ = outf.read_to_end(&mut buf);
            pos += buf.len() as u64;
            let text = String::from_utf8_lossy(&buf).into_owned();
            parse_step_output(&text, &names, &mut out);
            out.push(hx("T"));
            dump_env(shell.env(), &names, &mut out);
        }
    });
    out.join(" ")
}

pub fn run(sub: &str, cases: &[Vec<String>]) -> bool {
    if sub != "envapi" && sub != "envsh" {
        return false;
    }
    let rt = tokio::runtime::Builder::new_multi_thread()
        .worker_threads(2)
        .enable_all()
        .build()
        .expect("rt");
    let api_shell = if sub == "envapi" {
        let o = tmpfile("ao");
        let e = tmpfile("ae");
        rt.block_on(async { probe_shell(&o, &e).await.ok() })
    } else {
        None
    };
    for c in cases {
        let r = std::panic::catch_unwind(std::panic::AssertUnwindSafe(|| {
            if sub == "envapi" {
                match &api_shell {
                    Some(s) => api_case(s, c),
                    None => hx("!noshell"),
                }
            } else {
                sh_case(&rt, c)
            }
        }));
        match r {
            Ok(s) => println!("{s}"),
            Err(e) => println!("PANIC {}", hex(panic_msg(&e).as_bytes())),
        }
    }
    true
}
