//! C13: quoting functions (API level), brush as the *writer* of quoted text (every printing
//! form, in-process shell) and brush as the *reader* of one word / one statement.
//!
//! c13quote   : <mode fs|fd|fb|ns|nd|nb> <s>        -> <text>
//! c13produce : <form> <v>                          -> <status> <text>   (text = what the shell printed)
//! c13consume : <reader> <text>                     -> <status> <field>*
//!   readers: arg (fields: argc, $1) | asg (x) | var:NAME | arr:NAME (k v)* | alias:NAME | trap:SIG
//! c13fmt    : <kind i|h> (<key> <value>)* -> <text>   ShellValue::format(DeclarePrint) of an array
//! c13decode : <text> -> O <bytes as hex text> | E   (escape::expand_backslash_escapes, ANSI-C mode)
//! Every case runs in a fresh in-process shell whose working directory is a scratch directory.
use crate::sh::new_shell;
use crate::util::{hex, panic_msg, unhex_str};
use brush_core::variables::ShellValue;
use std::io::{Read, Seek};

fn tmpfile() -> std::fs::File {
    let dir = std::env::var("VERIF_SCRATCH").unwrap_or_else(|_| "/var/tmp".to_string());
    static CTR: std::sync::atomic::AtomicU64 = std::sync::atomic::AtomicU64::new(0);
    let p = format!(
        "{dir}/bvq-{}-{}-{}",
        std::process::id(),
        CTR.fetch_add(1, std::sync::atomic::Ordering::Relaxed),
        std::time::SystemTime::now()
            .duration_since(std::time::UNIX_EPOCH)
            .map(|d| d.as_nanos())
            .unwrap_or(0)
    );
    let f = std::fs::File::options()
        .read(true)
        .write(true)
        .create_new(true)
        .open(&p)
        .expect("tmpfile");
    let _ = std::fs::remove_file(&p);
    f
}

fn workdir() -> String {
    let dir = std::env::var("VERIF_SCRATCH").unwrap_or_else(|_| "/var/tmp".to_string());
    let d = format!("{dir}/c13-cwd-{}", std::process::id());
    let _ = std::fs::create_dir_all(&d);
    d
}

struct Run {
    status: i32,
    out: Vec<u8>,
    err: Vec<u8>,
    shell: brush_core::Shell,
}

/// fresh shell, `pre` prepares it through the API, then `script` runs.
fn run_with(
    rt: &tokio::runtime::Runtime,
    script: &str,
    pre: impl FnOnce(&mut brush_core::Shell),
) -> Option<Run> {
    let mut out = tmpfile();
    let mut err = tmpfile();
    let wd = workdir();
    let r = rt.block_on(async {
        let mut shell = new_shell(&out, &err, "noenv").await.ok()?;
        let _ = shell.set_working_dir(&wd);
        pre(&mut shell);
        let params = shell.default_exec_params();
        let si = brush_core::SourceInfo::from("verif");
        let st = match shell.run_string(script.to_string(), &si, &params).await {
            Ok(res) => i32::from(u8::from(res.exit_code)),
            Err(_) => -1,
        };
        Some((st, shell))
    });
    let (status, shell) = r?;
    let mut o = vec![];
    let mut e = vec![];
    let _ = out.rewind();
    let _ = out.read_to_end(&mut o);
    let _ = err.rewind();
    let _ = err.read_to_end(&mut e);
    Some(Run {
        status,
        out: o,
        err: e,
        shell,
    })
}

fn set_var(sh: &mut brush_core::Shell, name: &str, v: ShellValue) {
    let _ = sh
        .env_mut()
        .set_global(name, brush_core::ShellVariable::new(v));
}

fn qmode(c: u8) -> brush_core::escape::QuoteMode {
    match c {
        b'd' => brush_core::escape::QuoteMode::DoubleQuote,
        b'b' => brush_core::escape::QuoteMode::BackslashEscape,
        _ => brush_core::escape::QuoteMode::SingleQuote,
    }
}

fn do_quote(c: &[String]) -> String {
    let mode = unhex_str(c.first().map(|s| s.as_str()).unwrap_or("-"));
    let s = unhex_str(c.get(1).map(|s| s.as_str()).unwrap_or("-"));
    let mb = mode.as_bytes();
    let (f, m) = (mb.first().copied().unwrap_or(b'f'), mb.get(1).copied().unwrap_or(b's'));
    let t = if f == b'f' {
        brush_core::escape::force_quote(&s, qmode(m))
    } else {
        brush_core::escape::quote_if_needed(&s, qmode(m)).to_string()
    };
    hex(t.as_bytes())
}

/// last line of `text` that starts with `prefix`, together with everything after it
fn from_line<'a>(text: &'a str, prefix: &str) -> &'a str {
    let mut best: Option<usize> = None;
    let mut off = 0;
    for line in text.split_inclusive('\n') {
        if line.starts_with(prefix) {
            best = Some(off);
        }
        off += line.len();
    }
    match best {
        Some(o) => &text[o..],
        None => "",
    }
}

fn strip_nl(s: &str) -> &str {
    s.strip_suffix('\n').unwrap_or(s)
}

fn do_produce(rt: &tokio::runtime::Runtime, c: &[String]) -> String {
    let form = unhex_str(c.first().map(|s| s.as_str()).unwrap_or("-"));
    let v = unhex_str(c.get(1).map(|s| s.as_str()).unwrap_or("-"));
    let v2 = v.clone();
    let scalar = move |sh: &mut brush_core::Shell| set_var(sh, "v", ShellValue::String(v2));
    let (script, use_err): (&str, bool) = match form.as_str() {
        "q" => ("printf %q \"$v\"", false),
        "qu" => ("printf '%q\\n' \"$v\"", false),
        "Q" => ("printf %s \"${v@Q}\"", false),
        "A" => ("printf %s \"${v@A}\"", false),
        "declp" => ("declare -p v", false),
        "set" => ("set", false),
        "declare" => ("declare", false),
        "exportp" => ("export zzv=\"$v\"; export -p", false),
        "arr" => ("declare -p a", false),
        "arrA" => ("printf %s \"${a[@]@A}\"", false),
        "assoc" => ("declare -p h", false),
        "alias" => ("alias zz=\"$v\"; alias zz", false),
        "aliasall" => ("alias zz=\"$v\"; alias", false),
        "trap" => ("trap -- \"$v\" USR1; trap -p", false),
        "xarg" => ("set -x; : \"$v\"", true),
        "xasg" => ("set -x; w=$v", true),
        _ => return format!("? {}", hex(b"unknown form")),
    };
    let r = match form.as_str() {
        "arr" | "arrA" => {
            let vv = v.clone();
            run_with(rt, script, move |sh| {
                let mut m = std::collections::BTreeMap::new();
                m.insert(0u64, vv.clone());
                m.insert(1u64, "b".to_string());
                m.insert(5u64, vv);
                set_var(sh, "a", ShellValue::IndexedArray(m));
            })
        }
        "assoc" => {
            let vv = v.clone();
            run_with(rt, script, move |sh| {
                let mut m = std::collections::BTreeMap::new();
                m.insert(vv.clone(), vv.clone());
                m.insert("k2".to_string(), vv);
                set_var(sh, "h", ShellValue::AssociativeArray(m));
            })
        }
        _ => run_with(rt, script, scalar),
    };
    let Some(r) = r else {
        return format!("? {}", hex(b"no shell"));
    };
    let raw = String::from_utf8_lossy(if use_err { &r.err } else { &r.out }).into_owned();
    let text: String = match form.as_str() {
        "set" | "declare" => strip_nl(from_line(&raw, "v=")).to_string(),
        "exportp" => strip_nl(from_line(&raw, "declare -x zzv")).to_string(),
        "qu" | "declp" | "arr" | "assoc" | "alias" | "aliasall" | "trap" => strip_nl(&raw).to_string(),
        "xarg" => {
            // "+ : <text>\n"
            let l = strip_nl(from_line(&raw, "+ : "));
            l.strip_prefix("+ : ").unwrap_or(l).to_string()
        }
        "xasg" => {
            let l = strip_nl(from_line(&raw, "+ w="));
            l.strip_prefix("+ ").unwrap_or(l).to_string()
        }
        _ => raw,
    };
    format!("{} {}", r.status, hex(text.as_bytes()))
}

fn show_value(val: Option<&ShellValue>, out: &mut Vec<String>) {
    match val {
        None => out.push(hex(b"!unset")),
        Some(ShellValue::String(s)) => {
            out.push(hex(b"s"));
            out.push(hex(s.as_bytes()));
        }
        Some(ShellValue::IndexedArray(m)) => {
            out.push(hex(b"a"));
            for (k, v) in m {
                out.push(hex(k.to_string().as_bytes()));
                out.push(hex(v.as_bytes()));
            }
        }
        Some(ShellValue::AssociativeArray(m)) => {
            out.push(hex(b"h"));
            for (k, v) in m {
                out.push(hex(k.as_bytes()));
                out.push(hex(v.as_bytes()));
            }
        }
        Some(_) => out.push(hex(b"!other")),
    }
}

fn do_consume(rt: &tokio::runtime::Runtime, c: &[String]) -> String {
    let reader = unhex_str(c.first().map(|s| s.as_str()).unwrap_or("-"));
    let text = unhex_str(c.get(1).map(|s| s.as_str()).unwrap_or("-"));
    let script = match reader.as_str() {
        "arg" => format!("__f() {{ __n=$#; __r=$1; }}\n__f {text}\n"),
        "asg" => format!("x={text}\n"),
        _ => format!("{text}\n"),
    };
    let Some(r) = run_with(rt, &script, |_| {}) else {
        return format!("? {}", hex(b"no shell"));
    };
    let mut out: Vec<String> = vec![];
    let get = |n: &str| r.shell.env().get(n).map(|(_, v)| v.value().clone());
    match reader.as_str() {
        "arg" => {
            show_value(get("__n").as_ref(), &mut out);
            show_value(get("__r").as_ref(), &mut out);
        }
        "asg" => show_value(get("x").as_ref(), &mut out),
        other => {
            if let Some(n) = other.strip_prefix("var:") {
                show_value(get(n).as_ref(), &mut out);
            } else if let Some(n) = other.strip_prefix("alias:") {
                match r.shell.aliases().get(n) {
                    Some(v) => {
                        out.push(hex(b"s"));
                        out.push(hex(v.as_bytes()));
                    }
                    None => out.push(hex(b"!unset")),
                }
            } else if let Some(n) = other.strip_prefix("trap:") {
                match brush_core::traps::TrapSignal::try_from(n)
                    .ok()
                    .and_then(|s| r.shell.traps().get_handler(s))
                {
                    Some(h) => {
                        out.push(hex(b"s"));
                        out.push(hex(h.command.as_bytes()));
                    }
                    None => out.push(hex(b"!unset")),
                }
            } else {
                out.push(hex(b"!reader"));
            }
        }
    }
    out.push(hex(if r.err.is_empty() { b"e0" } else { b"e1" }));
    format!("{} {}", r.status, out.join(" "))
}

fn do_decode(c: &[String]) -> String {
    let text = unhex_str(c.first().map(|s| s.as_str()).unwrap_or("-"));
    match brush_core::escape::expand_backslash_escapes(
        &text,
        brush_core::escape::EscapeExpansionMode::AnsiCQuotes,
    ) {
        Ok((bytes, _)) => {
            let h: String = bytes.iter().map(|b| format!("{b:02x}")).collect();
            format!("{} {}", hex(b"O"), hex(h.as_bytes()))
        }
        Err(_) => hex(b"E"),
    }
}

fn do_fmt(rt: &tokio::runtime::Runtime, c: &[String]) -> String {
    let kind = unhex_str(c.first().map(|s| s.as_str()).unwrap_or("-"));
    let fields: Vec<String> = c.iter().skip(1).map(|s| unhex_str(s)).collect();
    let value = if kind == "i" {
        let mut m = std::collections::BTreeMap::new();
        for kv in fields.chunks(2) {
            if let [k, v] = kv {
                m.insert(k.parse::<u64>().unwrap_or(0), v.clone());
            }
        }
        ShellValue::IndexedArray(m)
    } else {
        let mut m = std::collections::BTreeMap::new();
        for kv in fields.chunks(2) {
            if let [k, v] = kv {
                m.insert(k.clone(), v.clone());
            }
        }
        ShellValue::AssociativeArray(m)
    };
    let out = tmpfile();
    let err = tmpfile();
    let text = rt.block_on(async {
        let shell = new_shell(&out, &err, "noenv").await.ok()?;
        value
            .format(brush_core::variables::FormatStyle::DeclarePrint, &shell)
            .ok()
            .map(|c| c.into_owned())
    });
    match text {
        Some(t) => hex(t.as_bytes()),
        None => hex(b"?format"),
    }
}

pub fn run(sub: &str, cases: &[Vec<String>]) -> bool {
    if !matches!(sub, "c13quote" | "c13produce" | "c13consume" | "c13decode" | "c13fmt") {
        return false;
    }
    if sub == "c13decode" {
        for c in cases {
            let r = std::panic::catch_unwind(std::panic::AssertUnwindSafe(|| do_decode(c)));
            match r {
                Ok(l) => println!("{l}"),
                Err(e) => println!("PANIC {}", hex(panic_msg(&e).as_bytes())),
            }
        }
        return true;
    }
    let rt = tokio::runtime::Builder::new_multi_thread()
        .worker_threads(2)
        .enable_all()
        .build()
        .expect("rt");
    for c in cases {
        let r = std::panic::catch_unwind(std::panic::AssertUnwindSafe(|| match sub {
            "c13fmt" => do_fmt(&rt, c),
            "c13quote" => do_quote(c),
            "c13produce" => do_produce(&rt, c),
            _ => do_consume(&rt, c),
        }));
        match r {
            Ok(l) => println!("{l}"),
            Err(e) => println!("PANIC {}", hex(panic_msg(&e).as_bytes())),
        }
    }
    let _ = std::fs::remove_dir_all(workdir());
    true
}
