"""C14 — printed function definitions re-parse to the same function."""
import os, re, subprocess
from concurrent.futures import ThreadPoolExecutor
from vlib import core

PID = "C14"
ENTRIES = {"c14show": ("Print.Entry", "entry_c14_show"), "c14tok": ("Print.Entry", "entry_c14_tok"),
           "c14sep": ("Print.Entry", "entry_c14_sep"), "c14parse": ("Print.Entry", "entry_c14_parse")}
TRUSTED = [
    "modelled, not verified: brush-parser/src/ast.rs Display impls on the sub-grammar of Print/Show.v (hand model, tied "
    "by string equality with format!(\"{}\") of the real AST on every generated program of the sub-grammar) and the "
    "tokenizer's operator/blank/word splitting on the plain alphabet (Print/Tokenize.v over regenerated tables, tied at "
    "API level with tokenize_str); harness re-implements peg.rs io_number's contiguity test to label io-numbers",
    "the export path is run for real: parent vbrush -> export -f -> child vbrush started by the parent, and a fresh vbrush "
    "with BASH_FUNC_f%% in its environment (process level, function bodies with extended-glob patterns)",
    "outside the Coq model, decided by execution only: here-documents, process substitutions, (( )), for (( )), [[ ]], "
    "quoted/expanding words, the PEG parser itself (parse . print . parse on the real code, AST equality modulo "
    "locations, behaviour of the re-read and of the imported definition, bash as second reader)",
]
ASSUMPTIONS = ["function bodies are generated from the grammar in props/c14.py (terminating, relative file names only)",
               "behaviour = exit status, stdout and files left in a scratch directory"]


# ------------------------------------------------------------------------------------------------ generator

class Gen:
    """grammar-directed generator of one function definition; records features for classification.
    plain=True restricts to the sub-grammar of Print/Show.v with plain words."""

    def __init__(self, rng, plain=False, size=30, clean=False, runnable=False, extglob=False):
        self.rng = rng
        self.plain = plain
        self.clean = clean     # stay outside every known-finding class
        self.extglob = extglob     # extended-glob patterns in case items, [[ == ]] operands, parameter expansions
        self.runnable = runnable   # deterministic when run: later pipeline stages consume their input, no jobs/timing
        self.budget = size
        self.feat = set()
        self.nfun = 0
        self.nfile = 0

    def pick(self, xs):
        return self.rng.choice(xs)

    def word(self):
        r = self.rng.random()
        if self.plain or r < 0.45:
            w = self.pick(["a", "b1", "x=y", "-n", "/t.f", "7", "12", "a.b", "A_z", "%s", "a:b", "k-2", "in", "do", "}x"][:12])
            return "-e" if (w == "-n" and self.runnable) else w
        if self.extglob and r < 0.52:
            self.feat.add("extglob")
            return self.pick(["${x##+([0-9])}", "${1%%@(a|b)}", "${y//?(a)b/Z}", "\"${1#!(a)}\""])
        if r < 0.6:
            return self.pick(["$x", "${x:-d}", "$1", "\"$@\"", "$#"])
        if r < 0.72:
            return self.pick(['"q r"', "'s t'", "a\\ b", '"a$x"', "$'t\\tu'"])
        if r < 0.8:
            self.feat.add("cmdsub")
            return self.pick(["$(echo sub)", "`echo bq`", "$(echo a; echo b)", "$((1+2))"])
        if r < 0.86 and not self.clean:
            self.feat.add("multiline_word")
            return self.pick(['"l1\nl2"', "'m1\n  m2'"])
        return self.pick(["z*", "a*", "[ab]", "{p,q}", "~", "a#b"])

    def fname(self):
        self.nfile += 1          # every redirect target is a fresh file: pipeline stages never race on a file
        return "o%d" % self.nfile

    def redir(self):
        """every redirect kind, with an explicit fd number 0-9 on 4 in 10 of them"""
        f = self.fname()
        if self.runnable:
            # programs that are run: descriptors 0-2 are only redirected in the usual ways, explicit numbers 3-9 only open
            # files or here-strings (closing or cross-wiring 0-2 inside pipelines makes the outcome depend on scheduling)
            n = str(self.rng.randrange(3, 10))
            ks = ["<in", ">%s" % f, ">>%s" % f, "<>%s" % f, ">|%s" % f, "2>&1", ">&2", "1>&2", "<&0", "<<<a", "2>%s" % f, "2>>%s" % f,
                  n + ">" + f, n + ">>" + f, n + "<in", n + "<<<a", n + "<>" + f, n + ">|" + f, "1>" + f, "0<in",
                  "&>%s" % f, "&>>%s" % f]
            if not self.plain:
                ks += ['<<<"$x w"', "> %s" % f]
            k = self.pick(ks)
            if k[0].isdigit():
                self.feat.add("fd_redir")
                if "<<<" in k:
                    self.feat.add("fd_herestring")
            return k
        fd = str(self.rng.randrange(0, 10)) if self.rng.random() < 0.4 else ""
        m = str(self.pick([0, 1, 2, 2, 1, 5]))
        ks = ["<in", ">%s" % f, ">>%s" % f, "<>%s" % f, ">|%s" % f, "<&%s" % m, ">&%s" % m, "<&-", ">&-", "<<<a",
              ">%s" % f, "<in", ">&%s" % m]
        if not self.plain:
            ks += ['<<<"$x w"', "> %s" % f]
        k = self.pick(ks + ["&>%s" % f, "&>>%s" % f])
        if k.startswith("&>"):
            return k
        if fd:
            self.feat.add("fd_redir")
            if k.startswith("<<<"):
                self.feat.add("fd_herestring")
        return fd + k

    def redirs(self, maxn, compound=False):
        n = self.pick([0, 0, 0, 1, 1, 2, 3][:4 + maxn])
        rs = [self.redir() for _ in range(min(n, maxn))]
        if compound and rs:
            self.feat.add("compound_redir")
            if len(rs) >= 2 or rs[0][0].isdigit():
                self.feat.add("risky_redirs")
            if rs[0].startswith("&>"):
                self.feat.add("compound_redir_amp")
        return rs

    def simple(self, first_redir_ok=True, allow_here=False):
        self.budget -= 1
        r = self.rng.random()
        pre = []
        if r < 0.15:
            pre = [self.pick(["v=1", "x=a", "w=$x", "e="])]
        if not self.plain and r > 0.93:
            self.feat.add("array_assign")
            return self.pick(["arr=(1 2 [5]=x)", "arr+=(y)", "declare -a q=(a b)", "arr[1]+=v", "arr[2]=w", "x+=s",
                              "declare -A m=([k]=v [j]=w)", "m[k]+=z", "arr=([3]=c [1]=a)", "arr=() x=",
                              "arr+=(y \"$x z\"); echo \"${arr[@]}\" \"${#arr[@]}\"",
                              "arr=(p q); arr[1]+=r; arr+=([7]=s); echo \"${arr[@]}\" \"${!arr[@]}\""])
        kind = self.rng.random()
        if kind < 0.55:
            words = ["echo"] + [self.word() for _ in range(self.rng.randrange(0, 4))]
        elif kind < 0.65:
            if self.plain and self.runnable:
                words = ["echo", self.word()]      # no unterminated lines when stages share a sink
            else:
                words = ["printf", "'%s\\n'" if not self.plain else "%s", self.word()]
        elif kind < 0.72:
            words = [self.pick([":", "true", "false"])]
        elif kind < 0.8:
            words = ["cat"]
            pre_r = ["<in"]
            return " ".join(pre + words + pre_r + self.redirs(1))
        elif kind < 0.86 and not self.plain and allow_here and not self.clean:
            self.feat.add("heredoc")
            tag = self.pick(["EOF", "E2"])
            q = self.pick(["", "", "'", "-", "|"])
            body = self.pick(["h1 $x\nh2\n", "one\n", "\ttab\n", ""])
            if q == "" and self.rng.random() < 0.4:
                n = self.pick([0, 3, 5])
                return "cat %d<<%s <&%d\n%s%s\0" % (n, tag, n, body, tag)
            if q == "-" and self.rng.random() < 0.4:
                return "cat 4<<-%s <&4\n%s\t%s\0" % (tag, body, tag)
            if q == "'":
                return "cat <<'%s'\n%s%s\0" % (tag, body, tag)
            if q == "-":
                return "cat <<-%s\n%s\t%s\0" % (tag, body, tag)
            if q == "|":
                self.feat.add("heredoc_in_pipe")
                return "cat <<%s | cat\n%s%s\0" % (tag, body, tag)
            return "cat <<%s\n%s%s\0" % (tag, body, tag)
        elif kind < 0.88:
            n = self.pick([3, 4, 7, 9])
            self.feat.add("fd_redir")
            self.feat.add("fd_herestring")
            return "cat %d<<<payload%d <&%d" % (n, n, n)
        elif kind < 0.9:
            words = ["read", "rv"]
            return " ".join(pre + words + ["<in"])
        elif kind < 0.94 and first_redir_ok:
            # redirect first
            self.feat.add("redir_first")
            rd = self.redir()
            if rd.startswith("&>"):
                self.feat.add("redir_first_amp")
            return " ".join([rd, "echo", self.word()])
        else:
            words = ["echo", self.word()]
        rs = self.redirs(3)
        # interleave a redirect among the words sometimes
        if rs and self.rng.random() < 0.3:
            words = words[:1] + [rs.pop()] + words[1:]
        return " ".join(pre + words + rs)

    def cmd(self, depth, in_pipe_rest=False, allow_here=False):
        if self.budget <= 0 or depth <= 0:
            return self.simple(allow_here=allow_here)
        r = self.rng.random()
        self.budget -= 1
        if r < 0.38:
            s = self.simple(allow_here=allow_here)
            return s
        if r < 0.46:
            return "{ %s; }%s" % (self.lst(depth - 1), self.sp_redirs())
        if r < 0.53:
            return "( %s )%s" % (self.lst(depth - 1), self.sp_redirs())
        if r < 0.62:
            if self.rng.random() < 0.15:
                self.feat.add("for_no_in")
                return "for v; do %s; done%s" % (self.lst(depth - 1), self.sp_redirs())
            ws = " ".join(self.word() for _ in range(self.rng.randrange(0, 3)))
            return "for v in %s; do %s; done%s" % (ws, self.lst(depth - 1), self.sp_redirs())
        if r < 0.68:
            kw, c = self.pick([("while", "false"), ("until", "true"), ("while", "read l"), ("until", ":")])
            tail = " <in" if c == "read l" else ""
            if tail:
                self.feat.add("compound_redir")
            return "%s %s; do %s; done%s" % (kw, c, self.lst(depth - 1), tail or self.sp_redirs())
        if r < 0.78:
            s = "if %s; then %s; " % (self.cond(depth - 1), self.lst(depth - 1))
            for _ in range(self.pick([0, 0, 1, 2])):
                s += "elif %s; then %s; " % (self.cond(depth - 1), self.lst(depth - 1))
            if self.rng.random() < 0.5:
                s += "else %s; " % self.lst(depth - 1)
            return s + "fi" + self.sp_redirs()
        if r < 0.86:
            self.feat.add("case")
            s = "case %s in " % self.word()
            for _ in range(self.rng.randrange(0, 4)):
                plist = ["a", "b*", "*", "7", "x=y"]
                if self.extglob:
                    self.feat.add("extglob")
                    plist = plist + ["@(start|stop)", "+([0-9])", "!(a|7)", "?(x)a*", "*(ab)"]
                pats = "|".join(self.pick(plist) for _ in range(self.pick([1, 1, 2])))
                post = self.pick([";;", ";;", ";&", ";;&"])
                if self.rng.random() < 0.2:
                    s += "%s) %s " % (pats, post)
                else:
                    s += "%s) %s %s " % (pats, self.lst(depth - 1), post)
            return s + "esac" + self.sp_redirs()
        if r < 0.9:
            self.feat.add("nested_func")
            self.nfun += 1
            n = "g%d" % self.nfun
            return "%s() { %s; }%s; %s" % (n, self.lst(depth - 1), self.sp_redirs(), n)
        if self.plain:
            return self.simple()
        if r >= 0.96 and self.runnable:
            return self.simple()
        if r < 0.93:
            self.feat.add("arith")
            k = self.pick([0, 1, 2, 3])
            if k == 2:
                hd = self.pick(["((i=0; i<2; i++))", "(( ; ; ))", "(( i = 0 ; i < 2 ; i += 1 ))", "((i=0, j=3; i<j; i++, j--))"])
                body = self.lst(depth - 1)
                return "for %s; do %s%s; done%s" % (hd, "break; " if hd == "(( ; ; ))" else "", body, self.sp_redirs())
            return ["(( x = 1 + 2 ))", "((x++))", "", "(( y = x << 2 ))"][k]
        if r < 0.96:
            self.feat.add("exttest")
            if self.extglob and self.rng.random() < 0.6:
                self.feat.add("extglob")
                return self.pick(["[[ $1 == +([0-9]) ]]", "[[ $x == @(7|ab) && -n $y ]]", "[[ $y != !(ab) ]]"])
            return self.pick(["[[ -n $x && $y == a* ]]", "[[ a < b || ! -f in ]]", "[[ $x =~ ^a+$ ]]", "[[ ( -z $x ) ]]",
                              "[[ $x -eq 7 ]]", "[[ 3 -lt $# || $x -ge 2 ]]", "[[ $x != a?c ]]", "[[ b > a ]]", "[[ in -nt o1 ]]",
                              "[[ -v x && ! -d in ]]", "[[ $y = \"a b\" ]]", "[[ ! ( $x == 7 && -e in ) ]]", "[[ -r in && -s in ]]",
                              "[[ $x ]]", "[[ -o errexit ]]", "[[ in -ef in ]]"])
        if self.rng.random() < 0.3:
            self.feat.add("coproc")
            return self.pick(["coproc cat", "coproc CP { cat; }", "coproc { cat; echo x; } 2>&1"])
        self.feat.add("procsub")
        k = self.pick([0, 1, 2])
        if k == 0:
            self.feat.add("procsub_arg")
        return ["cat <(echo ps)", "while read l; do echo $l; done < <(echo x)", "echo a > >(cat)"][k]

    def sp_redirs(self):
        rs = self.redirs(3, compound=True)
        return (" " + " ".join(rs)) if rs else ""

    def cond(self, depth):
        return self.pick(["true", "false", ":", "! true", "true && false"]) if self.rng.random() < 0.7 else self.andor(depth)

    def pipeline(self, depth, allow_here=False):
        r = self.rng.random()
        pre = ""
        if r < 0.08:
            self.feat.add("bang")
            pre = "! "
        elif r < 0.14 and not self.plain and not self.runnable:
            self.feat.add("time")
            pre = self.pick(["time ", "time -p ", "time ! ", "time -p ! "])
        n = self.pick([1, 1, 1, 2, 3])
        if self.runnable:
            cs = [self.cmd(depth)] + [self.consumer(depth) for _ in range(n - 1)]
        else:
            cs = [self.cmd(depth, i > 0, allow_here and i == n - 1) for i in range(n)]
        if n > 1:
            self.feat.add("pipe")
        return pre + " | ".join(cs)

    def consumer(self, depth):
        """a pipeline stage that reads all of its input before anything else (no SIGPIPE races)"""
        k = self.pick([0, 0, 1, 2, 3, 4, 5])
        if k == 0:
            rs = self.redirs(2)
            return " ".join(["cat"] + [r for r in rs if "<" not in r and not r.startswith("&>")])
        if k == 1:
            return "{ cat; %s; }%s" % (self.lst(depth - 1), self.sp_redirs_out())
        if k == 2:
            return "( cat; %s )%s" % (self.lst(depth - 1), self.sp_redirs_out())
        if k == 3:
            return "while read l; do echo \"$l\"; done%s" % self.sp_redirs_out()
        if k == 4:
            return "if cat; then %s; fi%s" % (self.lst(depth - 1), self.sp_redirs_out())
        return "tr a b"

    def sp_redirs_out(self):
        """redirect list for a consumer: never redirects its stdin"""
        rs = [r for r in self.redirs(3, compound=True) if "<" not in r]
        return (" " + " ".join(rs)) if rs else ""

    def andor(self, depth, allow_here=False):
        n = 1
        while self.rng.random() < 0.2 and n < 4:
            n += 1
        s = ""
        for i in range(n):
            if i > 0:
                s += self.pick([" && ", " || "])
            s += self.pipeline(depth, allow_here and i == n - 1 and self.rng.random() < 0.5)
        return s

    def lst(self, depth):
        n = self.pick([1, 1, 2, 3])
        out = ""
        nosemi = False
        for i in range(n):
            if i > 0:
                out += " " if nosemi else "; "
                nosemi = False
            a = self.andor(depth, allow_here=True)
            out += a
            if self.rng.random() < 0.07 and i < n - 1 and "\0" not in a and not self.runnable:
                self.feat.add("async")
                out += " &"
                nosemi = True
        return out

    def function(self, depth=3):
        body = self.lst(depth)
        head = self.pick(["f()", "f()", "f ()", "function f", "function f()", "function f ()"])
        if head.startswith("function"):
            self.feat.add("function_keyword")
        if self.rng.random() < 0.1:
            src = "%s ( %s )%s" % (head, body, self.sp_redirs())
            self.feat.add("subshell_body")
        else:
            src = "%s { %s; }%s" % (head, body, self.sp_redirs())
        return fix_heredocs(src)


def fix_heredocs(src):
    """a here-document body must follow the line of its operator: generated text puts the body right after the
    command; when more text follows on that line the source would be wrong, so such programs are re-laid out by
    moving the rest of the line before the body"""
    src = re.sub("\0(; |;| )?", "\n", src)
    return src


CALLS = ["f a b", "x=7 y=ab f", "f; echo st=$?"]


# ------------------------------------------------------------------------------------------------ classes of known findings

CLASSES = [("nested_subshell", "KF-C14-nested-subshell-arith"), ("procsub_arg", "KF-C14-procsub-double-paren"),
           ("for_no_in", "KF-C14-for-without-in"), ("pipe_amp_redir", "KF-C14-pipe-amp-glue"),
           ("heredoc", "KF-C14-heredoc-indent"), ("multiline_word", "KF-C14-multiline-word-indent"),
           ("risky_redirs", "KF-C14-redirect-list-glue")]
_OPEN = None


def open_ids():
    global _OPEN
    if _OPEN is None:
        _OPEN = {f["id"] for f in core.load_known(PID) if f.get("status") == "open"}
    return _OPEN


def pick(classes):
    """an OPEN class whenever one applies; a case lying only in fixed classes is a genuine violation (None)"""
    for k in classes:
        if k in open_ids():
            return k
    return None


def classify(feat, verdict):
    """known-finding id for a failing program, by its generator features (decidable from the input)"""
    return pick([kid for f, kid in CLASSES if f in feat])


def first_diff(a, b):
    """index of the first differing (kind, text) pair"""
    n = 0
    while 2 * n + 1 < len(a) and 2 * n + 1 < len(b) and a[2 * n:2 * n + 2] == b[2 * n:2 * n + 2]:
        n += 1
    return max(n, 2)


def norm(s):
    """error messages carry the line number of the definition's text: not part of the behaviour; pipeline stages
    that share a redirected stderr/stdout append to one file concurrently: the lines of stdout and of each file are
    compared as multisets.  Format: <status>|<stdout>|in=<content>;<name>=<content>;..."""
    s = re.sub(r"line \d+:", "line N:", s)
    if "|" not in s or "|in=" not in s:
        return s
    status, rest = s.split("|", 1)
    stdout, files = rest.rsplit("|in=", 1)

    def srt(x):
        return "\n".join(sorted(x.split("\n")))
    out = [status, srt(stdout)]
    for part in ("in=" + files).split(";"):
        name, eq, content = part.partition("=")
        out.append(name + eq + srt(content))
    return "|".join(out[:2]) + "|" + ";".join(out[2:])


def run_group(cmd, env, cwd, timeout):
    """run a child in its own process group; the whole group is killed on timeout and after completion"""
    import signal
    p = subprocess.Popen(cmd, env=env, cwd=cwd, stdout=subprocess.PIPE, stderr=subprocess.PIPE, stdin=subprocess.DEVNULL,
                         start_new_session=True)
    try:
        out, err = p.communicate(timeout=timeout)
        rc = p.returncode
    except subprocess.TimeoutExpired:
        out, err, rc = b"", b"", None
    finally:
        try:
            os.killpg(p.pid, signal.SIGKILL)
        except (ProcessLookupError, PermissionError):
            pass
        if rc is None:
            try:
                p.communicate(timeout=5)
            except Exception:
                pass
    return rc, out, err


def bash_syntax_ok(src):
    rc, _, _ = run_group(["/usr/bin/bash", "--norc", "--noprofile", "-O", "extglob", "-n", "-c", src], {"PATH": "/usr/bin:/bin"}, None, 10)
    return rc == 0


def bash_behaviour(src, call, cwd_root, k):
    wd = os.path.join(cwd_root, "w%d" % k)
    os.makedirs(wd, exist_ok=True)
    open(os.path.join(wd, "in"), "w").write("line1\nline2\n")
    rc, out, err = run_group(["/usr/bin/bash", "--norc", "--noprofile", "-O", "extglob", "-c", src + "\n" + call], {"PATH": "/usr/bin:/bin"}, wd, 10)
    if rc is None:
        res, syntax = "timeout", False
    else:
        res = "%d|%s|" % (rc, out.decode("utf-8", "replace"))
        syntax = b"syntax error" in err
    files = []
    for n in sorted(os.listdir(wd)):
        try:
            files.append("%s=%s;" % (n, open(os.path.join(wd, n), errors="replace").read()))
        except OSError:
            pass
    import shutil
    shutil.rmtree(wd, ignore_errors=True)
    return norm(res + "".join(files)), syntax


EXPORT_WITNESSES = [
    ('f() { case $1 in @(start|stop)) echo "action:$1" ;; +([0-9])) echo "number:$1" ;; *) echo "other:$1" ;; esac; }', "f stop; f 42; f x"),
    ('f() { [[ $1 == +([0-9]) ]] && echo num; echo "${1##+([0-9])}" "${2%%@(a|b)}"; }', "f 12ab xa; f q b"),
    ('f() { for v in "$@"; do case $v in !(a|7)) echo not ;; *) echo is ;; esac; done > o1; cat <o1; }', "f a b 7"),
    ('f() { echo plain "$1"; }', "f ok"),
]


def sorted_lines(s):
    return "\n".join(sorted(norm_lines(s).split("\n")))


def norm_lines(s):
    return re.sub(r"line \d+:", "line N:", s)


def impl_marked(ctx, cases, timeout=600):
    """c14rt through the harness in shards of our own: result lines carry the mark `@@ ` (anything else on the harness's
    stdout is output leaked by a generated function and is dropped); every shard runs in its own process group"""
    import signal, threading
    lines = [core.enc_case(c) for c in cases]
    if not lines:
        return []
    shards = min(core.NPROC, max(1, len(lines) // 8))
    chunks = [lines[i::shards] for i in range(shards)]
    os.makedirs(core.SCRATCH, exist_ok=True)
    env = dict(os.environ)
    env["VERIF_SCRATCH"] = core.SCRATCH
    outs = [None] * shards

    def feed(i):
        p = subprocess.Popen([ctx.harness, "c14rt"], stdin=subprocess.PIPE, stdout=subprocess.PIPE, stderr=subprocess.DEVNULL,
                             env=env, start_new_session=True)
        why = "DIED"
        try:
            o, _ = p.communicate(("\n".join(chunks[i]) + "\n").encode(), timeout=timeout)
        except subprocess.TimeoutExpired:
            why = "TIMEOUT"
            try:
                os.killpg(p.pid, signal.SIGKILL)
            except (ProcessLookupError, PermissionError):
                pass
            o, _ = p.communicate()
        finally:
            try:
                os.killpg(p.pid, signal.SIGKILL)
            except (ProcessLookupError, PermissionError):
                pass
        got = [l[3:] for l in o.decode("utf-8", "replace").split("\n") if l.startswith("@@ ")]
        outs[i] = (got, why)
    ths = [threading.Thread(target=feed, args=(i,)) for i in range(shards)]
    [x.start() for x in ths]
    [x.join() for x in ths]
    res = [None] * len(lines)
    for i in range(shards):
        got, why = outs[i]
        for j, _ in enumerate(chunks[i]):
            res[i + j * shards] = got[j] if j < len(got) else why
    return res


def export_path(ctx, extended, specv):
    """the real export path: the parent brush exports the function (BASH_FUNC_f%%) to a child brush it starts itself, and a
    fresh brush gets the same variable in its environment; the child's declare -f text and behaviour must be the parent's"""
    rng = ctx.rng
    n = 120 if ctx.quick else 1200
    if extended:
        n *= 3
    cases = [(s, c, frozenset(["extglob"])) for s, c in EXPORT_WITNESSES]
    for i in range(n):
        g = Gen(rng, plain=False, size=rng.choice([2, 5, 10]), clean=True, runnable=True, extglob=(i % 4 != 3))
        src = g.function(rng.choice([1, 2, 3]))
        if re.search(r"\( \(", src):
            g.feat.add("nested_subshell")
        cases.append((src, rng.choice(CALLS), frozenset(g.feat)))
    root = os.path.join(core.SCRATCH, "c14-export-%d" % os.getpid())
    os.makedirs(root, exist_ok=True)
    vb = ctx.vbrush

    def one(k):
        src, call, feat = cases[k]
        wd = os.path.join(root, "w%d" % k)
        os.makedirs(wd, exist_ok=True)
        open(os.path.join(wd, "in"), "w").write("line1\nline2\n")
        env = {"PATH": "/usr/bin:/bin", "VB": vb, "HOME": wd}
        inner = "declare -f f; echo ===B; %s" % call
        script = "%s\nexport -f f\ndeclare -f f\necho ===B\n%s\necho ===C\n\"$VB\" -c '%s'\n" % (src, call, inner)
        rc, out, err = run_group([vb, "-c", script], env, wd, 20)
        res = {"parent_rc": rc, "out": (out or b"").decode("utf-8", "replace"), "err": (err or b"").decode("utf-8", "replace")[-300:]}
        o = res["out"]
        if rc is None or "===B" not in o or "===C" not in o:
            res["shape"] = False
        else:
            parent, _, child = o.partition("===C\n")
            ptext, _, pbeh = parent.partition("===B\n")
            ctext, _, cbeh = child.partition("===B\n")
            res.update({"shape": True, "ptext": ptext, "pbeh": pbeh, "ctext": ctext, "cbeh": cbeh})
            # a fresh shell that finds the function in its environment
            head, nl, body = ptext.partition("\n")
            env2 = dict(env)
            env2["BASH_FUNC_f%%"] = "() " + body.rstrip("\n")
            rc2, out2, err2 = run_group([vb, "-c", inner], env2, wd, 20)
            o2 = (out2 or b"").decode("utf-8", "replace")
            etext, _, ebeh = o2.partition("===B\n")
            res.update({"etext": etext, "ebeh": ebeh, "err2": (err2 or b"").decode("utf-8", "replace")[-300:]})
        import shutil
        shutil.rmtree(wd, ignore_errors=True)
        return k, res
    stats = {"cases": 0, "not_defined_in_parent": 0, "child_ok": 0, "env_child_ok": 0, "with_extglob": 0, "in_process_bad": 0}
    # the same functions through the in-process round trip (parse, print, parse, print, import)
    for (src, call, feat), line in zip(cases, impl_marked(ctx, [[s, ""] for s, _, _ in cases])):
        f = core.dec_line(line) if not line.startswith(("PANIC", "DIED", "TIMEOUT")) else ["?"]
        if f and f[0] not in ("-", "P", "N"):
            stats["in_process_bad"] += 1
            kf = classify(feat, f[0])
            specv.append({"input": {"source": src, "features": sorted(feat)}, "printed": f[1] if len(f) > 1 else "",
                          "why": "in-process round trip of a function with extended-glob patterns: verdict %s %s" % (f[0], (f[3] if len(f) > 3 else "")[:160]),
                          **({"known": kf} if kf else {})})
    with ThreadPoolExecutor(max_workers=8) as ex:
        results = list(ex.map(one, range(len(cases))))
    import shutil
    shutil.rmtree(root, ignore_errors=True)
    for k, r in results:
        src, call, feat = cases[k]
        if not r.get("shape") or not r.get("ptext", "").strip():
            stats["not_defined_in_parent"] += 1     # the parent itself did not accept / print the function: not a case
            continue
        stats["cases"] += 1
        if "extglob" in feat:
            stats["with_extglob"] += 1
        why = []
        if r["ctext"] != r["ptext"]:
            why.append("the child started by the parent prints %r for `declare -f f`, the parent %r" % (r["ctext"][:200], r["ptext"][:200]))
        elif sorted_lines(r["cbeh"]) != sorted_lines(r["pbeh"]):
            why.append("the exported function behaves differently in the child: %r vs %r in the parent" % (r["cbeh"][:200], r["pbeh"][:200]))
        else:
            stats["child_ok"] += 1
        if r["etext"] != r["ptext"]:
            why.append("a fresh shell with BASH_FUNC_f%%%% in its environment prints %r for `declare -f f`, the parent %r (stderr %r)"
                       % (r["etext"][:200], r["ptext"][:200], r.get("err2", "")[-160:]))
        elif sorted_lines(r["ebeh"]) != sorted_lines(r["pbeh"]):
            why.append("the function imported from the environment behaves differently: %r vs %r" % (r["ebeh"][:200], r["pbeh"][:200]))
        else:
            stats["env_child_ok"] += 1
        if why:
            kf = classify(feat, "export")
            specv.append({"input": {"source": src, "call": call, "features": sorted(feat), "path": "export -f to a child process"},
                          "printed": r["ptext"], "why": "; ".join(why), **({"known": kf} if kf else {})})
    return stats, len(cases)


# one small function per enumerated construct, run first on every check (runnable: deterministic)
CORPUS = [
    "f() { cat 3<<<payload <&3; }", "f() { cat 0<in; echo a 1>o1 2>o2; echo b 1>>o1 2>>o2; cat o1; }",
    "f() { echo a 5>o1 6>>o2 7<>o3 8>|o4 9<in; }", "f() { echo a 2>&1 1>&2 >&2; echo b 4>&1 >&4; }",
    "f() { echo a 3>&- 4<&-; cat <in 5<&0 <&5; }", "f() { echo a &>o1; echo b &>>o1; cat o1; }",
    "f() { { echo a; echo b >&3; } 3>o1 >o2 2>&1; cat o1 o2; }", "f() ( echo sub 4>o1 >&4 ) 5<in",
    "f() { for v in a b; do echo $v; done 3>o1 >&3; cat o1; } 6<in", "f() { while read l; do echo $l; done 7<in <&7; }",
    "f() { if true; then echo t; fi 8>o1 1>&8; cat o1; }", "f() { case $1 in a) echo A ;;& *) echo S ;& z) echo Z ;; esac 9>o1; }",
    "f() { g() { echo in; } 3>o1; g; } 4<<<w", "function f { echo kw; }", "function f() { echo kw2; } 2>&1", "function f () ( echo kw3 )",
    "f() { arr=(1 2 [5]=x); arr+=(y); arr[1]+=v; arr[0]=w; echo \"${arr[@]}\" \"${!arr[@]}\"; }",
    "f() { declare -A m=([k]=v [j]=w); m[k]+=z; echo \"${m[k]}\" \"${m[j]}\"; x=a; x+=s; echo $x; }",
    "f() { ! true; echo $?; ! false | cat; echo $?; }", "f() { for ((i=0; i<2; i++)); do echo $i; done; for (( ; ; )); do break; done; }",
    "f() { for ((i=0, j=3; i<j; i++, j--)); do echo $i$j; done 3>o1; (( x = 1 << 2 )); echo $x; }",
    "f() { [[ $1 == a* && -n $2 ]] && echo m; [[ b > a || ! -f in ]] && echo n; [[ $1 =~ ^a+$ ]]; echo $?; [[ 3 -lt 5 ]] && echo lt; }",
    "f() { [[ ! ( $1 == 7 && -e in ) ]] && echo p; [[ $1 != a?c ]] && echo q; [[ -v x ]]; echo $?; [[ in -ef in ]] && echo same; }",
    "f() { for v; do echo $v; done; for v in; do echo never; done; }", "f() { until false; do echo u; break; done; while false; do :; done; echo w; }",
    "f() { echo a | cat | tr a b; true && echo y || echo n; false || echo z; }", "f() { v=1 w=2 echo $v; x=7 env | grep -c '^x=7'; }",
    "f() { echo $(echo sub) `echo bq` ${1:-d} \"q r\" 's t' a\\ b $'t\\tu'; }", "f() { if false; then echo 1; elif true; then echo 2; else echo 3; fi; }",
    "f() { 2>&1 echo first; >o1 3<in echo second; cat o1; }", "f() { cat 4<<<\"$1 w\" <&4; cat <<<plain; }",
]
CORPUS_NORUN = [
    "f() { time true; time -p false; time ! true; time -p ! false | cat; }", "f() { coproc cat; }", "f() { coproc CP { cat; }; }",
    "f() { echo a & echo b & wait; }", "f() { cat <(echo ps) > >(cat); }", "f() { echo a 0>&- 1<&- 2>&-; echo b <&- >&-; }",
    "f() { echo x 0<>o1 1<>o2; echo y 3<&2 4>&0 5<&1; }",
]


def code_round_trip(ctx, extended, specv):
    """A. the code itself on the full grammar (needs no model)"""
    rng = ctx.rng
    # ------------------------------------------------------------------ A. the code itself, full grammar
    n_full = 1500 if ctx.quick else 12000
    if extended:
        n_full *= 4
    progs = [(s, "f a b", frozenset(["corpus"])) for s in CORPUS] + [(s, "", frozenset(["corpus"])) for s in CORPUS_NORUN]
    for i in range(n_full):
        runnable = i % 3 != 2
        g = Gen(rng, plain=(i % 4 == 3), size=rng.choice([3, 8, 20]), clean=(i % 2 == 0), runnable=runnable)
        src = g.function()
        # programs that are not deterministic when run (racing pipeline stages, jobs, timing) are only parsed and printed
        call = rng.choice(CALLS) if runnable else ""
        if re.search(r"\| &>", src):
            g.feat.add("pipe_amp_redir")
        if re.search(r"\( \(", src):
            g.feat.add("nested_subshell")
        progs.append((src, call, frozenset(g.feat)))
    res = impl_marked(ctx, [[s, c] for s, c, _ in progs])
    verdicts = {}
    by_feat = {}
    rt = []
    unparsed = 0
    for (src, call, feat), line in zip(progs, res):
        f = core.dec_line(line) if not line.startswith(("PANIC", "DIED", "TIMEOUT")) else None
        if f is None or len(f) < 7:
            specv.append({"input": {"source": src, "call": call}, "why": "the round trip did not complete: %s" % line[:200]})
            rt.append(None)
            continue
        v, t1, t2, detail, a, b, c = f[:7]
        a, b, c = norm(a), norm(b), norm(c)
        v = v.replace("B", "").replace("E", "").replace("-", "")
        if call and a != b:
            v += "B"
        if call and a != c:
            v += "E"
        v = v or "-"
        rt.append((v, t1))
        verdicts[v] = verdicts.get(v, 0) + 1
        if v in ("P", "N"):
            unparsed += 1      # the generator produced something brush does not accept as a function: not a case
            continue
        for x in feat:
            by_feat.setdefault(x, [0, 0])[0] += 1
            if v != "-":
                by_feat[x][1] += 1
        if v != "-":
            kf = classify(feat, v)
            why = []
            if "R" in v: why.append("the printed definition does not parse again (%s)" % detail[:120])
            if "F" in v: why.append("printing is not a fixed point of parse-then-print")
            if "A" in v: why.append("the re-parsed AST differs from the original (locations erased)")
            if "X" in v: why.append("the exported body text does not import to the same AST (%s)" % detail[:80])
            if "B" in v: why.append("the re-read function behaves differently: %r vs %r" % (a[:80], b[:80]))
            if "E" in v: why.append("the imported function behaves differently: %r vs %r" % (a[:80], c[:80]))
            if kf and sum(1 for x in specv if x.get("known") == kf) > 40:
                continue
            specv.append({"input": {"source": src, "call": call, "features": sorted(feat)}, "printed": t1,
                          "why": "; ".join(why), **({"known": kf} if kf else {})})
    # bash: the printed text must be accepted by bash and behave like the source does in bash
    idx = [i for i, r in enumerate(rt) if r and r[0] not in ("P", "N")]
    if ctx.quick and not extended:
        idx = rng.sample(idx, min(400, len(idx)))
    cwd_root = os.path.join(core.SCRATCH, "c14-bash-%d" % os.getpid())
    os.makedirs(cwd_root, exist_ok=True)

    def one(k):
        src, call, feat = progs[k]
        if not call:
            s1 = not bash_syntax_ok(src)
            s2 = not bash_syntax_ok(rt[k][1])
            return k, "", "", s1, s2
        for attempt in range(3):     # a difference must reproduce
            a, s1 = bash_behaviour(src, call, cwd_root, 6 * k + 2 * attempt)
            b, s2 = bash_behaviour(rt[k][1], call, cwd_root, 6 * k + 2 * attempt + 1)
            if a == b and not s2:
                break
        return k, a, b, s1, s2
    bash_stats = {"cases": 0, "agree": 0, "source_rejected_by_bash": 0}
    with ThreadPoolExecutor(max_workers=8) as ex:
        for k, a, b, s1, s2 in ex.map(one, idx):
            src, call, feat = progs[k]
            if s1:
                bash_stats["source_rejected_by_bash"] += 1
                continue
            bash_stats["cases"] += 1
            if a == b and not s2:
                bash_stats["agree"] += 1
            elif rt[k][0] == "-" or not classify(feat, rt[k][0]):
                kf = classify(feat, "bash")
                specv.append({"input": {"source": src, "call": call, "features": sorted(feat), "reader": "bash"},
                              "printed": rt[k][1],
                              "why": "bash %s; source gives %r, printed text gives %r" % (
                                  "rejects the printed definition" if s2 else "runs the printed definition differently", a[:100], b[:100]),
                              **({"known": kf} if kf else {})})
    import shutil
    shutil.rmtree(cwd_root, ignore_errors=True)

    return progs, rt, verdicts, by_feat, unparsed, bash_stats


def run(ctx, extended=False):
    import time
    rng = ctx.rng
    mism, specv = [], []
    t0 = time.time()
    progs, rt, verdicts, by_feat, unparsed, bash_stats = code_round_trip(ctx, extended, specv)
    t1 = time.time()
    export_stats, export_n = export_path(ctx, extended, specv)
    t2 = time.time()
    # ------------------------------------------------------------------ B. printer model == Display on the sub-grammar
    n_plain = 2500 if ctx.quick else 20000
    if extended:
        n_plain *= 3
    psrc = []
    for i in range(n_plain):
        g = Gen(rng, plain=True, size=rng.choice([3, 8, 20]), clean=(i % 2 == 0))
        s = g.function(0 if i % 3 == 0 else 3)      # every third one flat: the parser model's sub-grammar
        if re.search(r"\| &>", s):
            g.feat.add("pipe_amp_redir")
        psrc.append((s, frozenset(g.feat)))
    enc = ctx.impl("c14enc", [[s] for s, _ in psrc])
    mcases, mexp, msrc = [], [], []
    skipped = 0
    for (s, feat), line in zip(psrc, enc):
        if not line.startswith("ok "):
            skipped += 1
            continue
        parts = line.split(" ")
        mexp.append(core.dec_line(parts[1])[0] if parts[1] != "-" else "")
        mcases.append([core.unhx(x).decode("utf-8", "replace") for x in parts[2:]])
        msrc.append((s, feat))
    shown = ctx.model("c14show", mcases)
    for (s, feat), want, got in zip(msrc, mexp, shown):
        g = core.dec_line(got)
        if not g or g[0] != want:
            mism.append({"source": s, "code_display": want, "model_show": g[0] if g else got})
    # separation: tokenize(show a) = lexemes a, by the model; and the real tokenizer on the printed text
    sep = ctx.model("c14sep", mcases)
    toks = ctx.impl("c14tok", [[w] for w in mexp])
    sep_fail = 0
    for (s, feat), want, sl, tl in zip(msrc, mexp, sep, toks):
        sf = core.dec_line(sl)
        tf = core.dec_line(tl)
        lex = sf[2:]
        model_ok = sf[1:2] == ["1"]     # hypothesis of c14_show_separates_gen for the regenerated flags
        if model_ok and sf[:1] != ["1"]:
            raise core.CheckBroken("the model contradicts its own theorem show_separates_gen on %r" % s)
        if tf != lex:
            # the real tokenizer does not give back the lexemes the printer meant: the property's token-level core
            sep_fail += 1
            # the class Known of Properties/C14.v, decided by the model itself (ok_cmd = false); the python
            # features only choose which finding id it is reported under
            kf = None if model_ok else pick(["KF-C14-pipe-amp-glue" if "pipe_amp_redir" in feat and "risky_redirs" not in feat
                                             else "KF-C14-redirect-list-glue"])
            if kf and sum(1 for x in specv if x.get("known") == kf) > 40:
                continue
            specv.append({"input": {"source": s, "features": sorted(feat)}, "printed": want,
                          "why": "tokenizing the printed text gives %r where the printer's lexemes are %r (token %d)" % (
                              tf[2 * first_diff(tf, lex) - 4:2 * first_diff(tf, lex) + 6], lex[2 * first_diff(tf, lex) - 4:2 * first_diff(tf, lex) + 6], first_diff(tf, lex)),
                          **({"known": kf} if kf else {})})
        if (sf[:1] == ["1"]) != (tf == lex):
            mism.append({"source": s, "what": "tokenizer model and real tokenizer disagree on whether the printed text separates",
                         "model_ok": sf[:1], "real": tf[:60], "lexemes": lex[:60]})
    # parser model (flat function definitions): parse(tokenize(printed text)) must be the AST the real parser built
    pm = ctx.model("c14parse", [c + [w] for c, w in zip(mcases, mexp)])
    flat_n = 0
    for (s, feat), fields, want, pl in zip(msrc, mcases, mexp, pm):
        pf_ = core.dec_line(pl)
        if pf_[:2] == ["F", "1"]:
            flat_n += 1
            if pf_[2:] != fields:
                mism.append({"source": s, "what": "parser model: parse(tokenize(printed text)) differs from the real parser's AST",
                             "printed": want, "model_ast": pf_[2:60], "code_ast": fields[:60]})

    # tokenizer model vs real tokenizer on random plain strings
    talpha = list("ab1 ;&|<>()\n\t-=/7") + ["2>", ">&", "<<<", "&>", ";;"]
    tstr = ["".join(rng.choice(talpha) for _ in range(rng.randrange(0, 14))) for _ in range(3000 if ctx.quick else 30000)]
    tstr = [t for t in tstr if "<<" not in t.replace("<<<", "") and "((" not in t]
    tm = ctx.model("c14tok", [[t] for t in tstr])
    ti = ctx.impl("c14tok", [[t] for t in tstr])
    for t, a, b in zip(tstr, tm, ti):
        if a != b:
            mism.append({"text": t, "model_tokens": core.dec_line(a), "code_tokens": core.dec_line(b)})

    # extraction cross-check
    sidx = rng.sample(range(len(mcases)), min(24, len(mcases)))
    ce = ctx.coq_eval("c14show", [mcases[i] for i in sidx])
    xbad = [i for i, v in zip(sidx, ce) if v != shown[i]]
    tidx = rng.sample(range(len(tstr)), 16)
    ce2 = ctx.coq_eval("c14tok", [[tstr[i]] for i in tidx])
    xbad2 = [i for i, v in zip(tidx, ce2) if v != tm[i]]
    if xbad or xbad2:
        raise core.CheckBroken("extracted runner and vm_compute disagree (case %r)" % ((mcases[xbad[0]] if xbad else tstr[xbad2[0]]),))

    specv.sort(key=lambda v: (1 if v.get("known") else 0, len(str(v["input"].get("source", v["input"])))))
    return {
        "evaluations": len(progs) + len(mcases) + len(tstr) + export_n,
        "distinct_nontrivial": len({s for s, _, f in progs if f}) + len({s for s, f in msrc if f}),
        "rule": "A: function definitions from the full grammar (simple commands with assignments/redirects of every kind, "
                "pipelines with !/time, and-or, lists with ; and &, brace group, subshell, for with/without in, while/until, "
                "if/elif/else, case with ;; ;& ;;&, nested functions, (( )), for (( )), [[ ]], here-documents, process "
                "substitution, quoted/multi-line/expanding words; redirect lists of 0-3 behind every compound) size<=30: "
                "parse -> print -> parse -> print on the real code, ASTs modulo locations, export text import, behaviour "
                "(status, stdout, files) of source vs re-read vs imported definition, bash on a sample/all. "
                "B: programs of the Coq sub-grammar: show(model) == Display(code); tokenize(show) == lexemes by the model "
                "and by the real tokenizer; tokenizer model vs tokenize_str on random strings over the plain alphabet. "
                "non-trivial = uses at least one feature beyond plain simple commands; distinct by source text",
        "samples": [{"source": progs[0][0], "printed": rt[0][1] if rt[0] else None}, {"source": psrc[1][0]}],
        "distribution": {"verdicts": verdicts, "by_feature_cases_failing": {k: v for k, v in sorted(by_feat.items())},
                         "not_accepted_by_brush": unparsed, "subgrammar_programs": len(mcases), "subgrammar_skipped": skipped,
                         "printed_texts_not_separating": sep_fail, "tokenizer_strings": len(tstr),
                         "flat_functions_parsed_by_the_parser_model": flat_n, "export_to_child_process": export_stats,
                         "phase_seconds": {"A_code_round_trip_and_bash": round(t1 - t0), "export_path": round(t2 - t1),
                                           "B_models": round(time.time() - t2)}},
        "notes": ["proof-backed (Coq model + theorems + correspondence every run): the printer on the sub-grammar of Print/Show.v "
                  "(simple commands with every file/dup/close/&>/here-string redirect incl. explicit fd numbers, pipelines, and-or, "
                  "lists, brace group, subshell, for, while/until, if, case, nested functions, redirect lists behind compounds and "
                  "function bodies): show == Display, tokenize(show) == lexemes; parse round trip for flat function definitions",
                  "differential only (code vs itself after print/re-parse: AST equality modulo locations, fixed point, import, behaviour; "
                  "code vs bash as second reader; real export to child processes): here-documents (with fd), process substitutions, "
                  "(( )), for (( )), [[ ]] operators, assignment forms (a+=(..), a[i]+=v, a=([k]=v), declare -A), time/! combinations, "
                  "coproc, `function f` headers, quoted/expanding/extglob words"],
        "extraction_crosscheck": {"cases": len(sidx) + len(tidx), "agree": len(sidx) + len(tidx)},
        "spec_vs_bash": bash_stats,
        "model_mismatches": mism,
        "spec_violations": specv,
    }


def search(ctx, res):
    r = run(ctx, extended=True)
    sv = [v for v in r["spec_violations"] if not v.get("known")]
    sv.sort(key=lambda v: len(v["input"].get("source", "")))
    return {"evaluations": r["evaluations"], "spec_violations": sv[:5]}


def run_code_only(ctx):
    """the Coq development does not build: the property is still decided on the code (part A)"""
    specv = []
    progs, rt, verdicts, by_feat, unparsed, bash_stats = code_round_trip(ctx, True, specv)
    export_stats, export_n = export_path(ctx, True, specv)
    return {"evaluations": len(progs) + export_n, "distinct_nontrivial": len({s for s, _, f in progs if f}),
            "rule": "code only (model did not build): parse/print/parse/print, AST equality, import, behaviour, bash",
            "samples": [], "distribution": {"verdicts": verdicts}, "spec_vs_bash": bash_stats, "spec_violations": specv}
