"""C16 — the EXIT trap runs exactly once on every way out, and traps preserve $?."""
import json, os, subprocess
from vlib import core

PID = "C16"
ENTRIES = {"c16": ("Traps.Entry", "entry_c16"), "c18": ("Traps.Entry", "entry_c18")}
TRUSTED = [
    "modelled, not verified: brush-core shell/traps.rs (on_exit, invoke_trap_handler), shell/execution.rs "
    "(run_string, run_dash_c_command, run_script, source_file), shell/callstack.rs, callstack.rs (push/pop, "
    "active_trap_signals), interp.rs (Program, CompoundList, AndOrList, Pipeline incl. ERR firing and errexit, "
    "If/For/While/Subshell, SimpleCommand dispatch, execute_command), commands.rs (post_execute, "
    "invoke_shell_function), error.rs into_result, builtins exit/return/eval/./trap/exec, "
    "brush-interactive run_interactively (commands on stdin), brush-shell entry.rs run_in_shell",
    "leaves with a fixed status stand for simple commands (`true`, `false`, unknown command, failing redirect, "
    "expansion errors); their statuses are those observed (checked by the correspondence on every case)",
    "python renderer AST -> shell text (props/c16.py render) and the marker-line parser",
    "/usr/bin/bash 5.2.15 as second opinion (veto only)",
]
ASSUMPTIONS = [
    "non-interactive shell; the three front-ends are `brush file`, `brush -c text`, `brush < text` (one complete command per line)",
    "no signals are delivered during the run; traps considered are EXIT and ERR",
    "the language has no break/continue, no multi-command pipelines and no background jobs (C02/C11/C17 cover those)",
]

KF_EXIT = "KF-C16-exit-in-handler"


# ----------------------------------------------------------------------------------------------
# AST: tuples. Layering: list (Z) > and-or (A/O) > pipeline (P/Q) > command.
# ("T",) ("F",) ("N",) ("E",tag) ("X",n|None) ("R",n|None) ("PF",) ("PN",) ("AF",) ("AN",) ("OF",) ("ON",)
# ("RF",) ("SE",b) ("ST",b) ("TX",h|None) ("TE",h|None) ("C",f) ("V",c) ("S",c) ("SM",) ("XC",code)
# ("B",c) ("U",c) ("I",c,t,e|None) ("L",n,b) ("W",c,b) ("P",c) ("Q",c) ("A",a,b) ("O",a,b) ("Z",a,b)

def sq(text):
    return "'" + text.replace("'", "'\\''") + "'"


class Render:
    """AST -> shell text; sourced files are collected in self.files"""

    def __init__(self):
        self.files = {}

    def r(self, c):
        k = c[0]
        if k == "T": return "true"
        if k == "F": return "false"
        if k == "N": return "no_such_cmd_zz"
        if k == "E": return "echo M%d $?" % c[1]
        if k == "X": return "exit" if c[1] is None else "exit %d" % c[1]
        if k == "R": return "return" if c[1] is None else "return %d" % c[1]
        if k == "PF": return ": ${nope?}"
        if k == "PN": return ": $((1/0))"
        if k == "AF": return "XA=${nope?} true"
        if k == "AN": return "XA=$((1/0)) true"
        if k == "OF": return "XA=${nope?}"
        if k == "ON": return "XA=$((1/0))"
        if k == "RF": return "true </nonexistent/x"
        if k == "SE": return "set -e" if c[1] else "set +e"
        if k == "ST": return "set -E" if c[1] else "set +E"
        if k == "TX": return "trap - EXIT" if c[1] is None else "trap %s EXIT" % sq(self.r(c[1]))
        if k == "TE": return "trap - ERR" if c[1] is None else "trap %s ERR" % sq(self.r(c[1]))
        if k == "C": return "f%d" % c[1]
        if k == "V": return "eval %s" % sq(self.r(c[1]))
        if k == "S":
            name = "s%d.sh" % len(self.files)
            self.files[name] = None
            self.files[name] = self.r(c[1]) + "\n"
            return ". $D/%s" % name
        if k == "SM": return ". /nonexistent/y"
        if k == "XC": return "exec sh -c %s" % sq("exit %d" % c[1])
        if k == "B": return "{ %s; }" % self.r(c[1])
        if k == "U": return "( %s )" % self.r(c[1])
        if k == "I":
            if c[3] is None:
                return "if %s; then %s; fi" % (self.r(c[1]), self.r(c[2]))
            return "if %s; then %s; else %s; fi" % (self.r(c[1]), self.r(c[2]), self.r(c[3]))
        if k == "L": return "for i in %s; do %s; done" % (" ".join(str(i + 1) for i in range(c[1])), self.r(c[2]))
        if k == "W": return "while %s; do %s; done" % (self.r(c[1]), self.r(c[2]))
        if k == "P": return self.r(c[1])
        if k == "Q": return "! " + self.r(c[1])
        if k == "A": return "%s && %s" % (self.r(c[1]), self.r(c[2]))
        if k == "O": return "%s || %s" % (self.r(c[1]), self.r(c[2]))
        if k == "Z": return "%s; %s" % (self.r(c[1]), self.r(c[2]))
        raise ValueError(k)


def toks(c, out):
    k = c[0]
    if k in ("T", "F", "N", "PF", "PN", "AF", "AN", "OF", "ON", "RF", "SM"):
        out.append(k)
    elif k == "E": out += ["E", str(c[1])]
    elif k in ("X", "R"): out += [k, "_" if c[1] is None else str(c[1])]
    elif k == "SE": out.append("SE1" if c[1] else "SE0")
    elif k == "ST": out.append("ST1" if c[1] else "ST0")
    elif k in ("TX", "TE"):
        if c[1] is None:
            out.append(k + "N")
        else:
            out.append(k); toks(c[1], out)
    elif k == "C": out += ["C", str(c[1])]
    elif k == "XC": out += ["XC", str(c[1])]
    elif k in ("V", "S", "B", "U", "P", "Q"):
        out.append(k); toks(c[1], out)
    elif k == "I":
        if c[3] is None:
            out.append("J"); toks(c[1], out); toks(c[2], out)
        else:
            out.append("I"); toks(c[1], out); toks(c[2], out); toks(c[3], out)
    elif k == "L":
        out += ["L", str(c[1])]; toks(c[2], out)
    elif k in ("W", "A", "O", "Z"):
        out.append(k); toks(c[1], out); toks(c[2], out)
    else:
        raise ValueError(k)
    return out


def leftmost(c):
    """the command a rendered list starts with"""
    while c[0] in ("Z", "A", "O", "P"):
        c = c[1]
    return c


def mk_sub(lst):
    """( … ): brush reads `( (` as the start of an arithmetic command, so a subshell never starts with one"""
    if leftmost(lst)[0] == "U":
        lst = ("Z", ("P", ("T",)), lst)
    return ("U", lst)


def walk(c):
    """all nodes (pre-order), descending into handlers / eval / source"""
    yield c
    for x in c[1:]:
        if isinstance(x, tuple):
            yield from walk(x)


def depth(c):
    return 1 + max([depth(x) for x in c[1:] if isinstance(x, tuple)] or [0])


# ----------------------------------------------------------------------------------------------
# generator

class Gen:
    def __init__(self, rng, exec_ok=True, faults=0.08, exit_ok=True):
        self.rng = rng
        self.tag = 0
        self.exec_ok = exec_ok
        self.exit_ok = exit_ok   # False: `exit` only inside subshells (bodies that are iterated)
        self.faults = faults
        self.nfun = 0
        self.fun_pure = []       # function i sets no trap / does not exec (safe to call anywhere)
        self.exit_tags = {}      # tag of the marker that starts an EXIT handler -> handler AST
        self.err_tags = {}

    def newtag(self):
        self.tag += 1
        return self.tag

    def status(self):
        return self.rng.choice([0, 1, 2, 3, 7, 42, 255, 256 + 5, 1])

    def leaf(self, ctx):
        r = self.rng.random()
        rng = self.rng
        if r < 0.30: return ("E", self.newtag())
        if r < 0.40: return ("T",)
        if r < 0.52: return ("F",)
        if r < 0.56: return ("N",)
        if r < 0.56 + self.faults:
            return rng.choice([("PF",), ("PN",), ("AF",), ("AN",), ("OF",), ("ON",), ("RF",), ("SM",), ("N",)])
        if r < 0.72 and not ctx.get("errh"): return mk_sub(self.lst(dict(ctx, sub=True, d=ctx["d"] + 2)))  # ( … ) incl. (exit n)
        if r < 0.80 and (self.exit_ok or ctx["sub"]): return ("X", rng.choice([None, self.status(), self.status()]))
        if r < 0.85: return ("R", rng.choice([None, self.status()]))
        if r < 0.88: return ("SE", rng.random() < 0.7)
        if r < 0.90: return ("ST", rng.random() < 0.7)
        if r < 0.96 and self.callable(ctx) and not ctx.get("errh"): return ("C", rng.choice(self.callable(ctx)))
        if r < 0.98 and self.exec_ok and not ctx["sub"] and not ctx["pure"]: return ("XC", rng.choice([0, 0, 5]))
        if ctx.get("errh"):
            return ("F",)
        return ("U", ("P", ("X", self.status())))

    def callable(self, ctx):
        fs = list(range(min(ctx.get("maxf", self.nfun), self.nfun)))
        if ctx["sub"] or ctx["pure"]:
            fs = [f for f in fs if self.fun_pure[f]]
        return fs

    def handler(self, ctx, sig):
        t = self.newtag()
        body = ("P", ("E", t))
        n = self.rng.randrange(0, 3)
        if n:
            # an ERR handler holds no subshell and calls no function: with errtrace a failing command in a
            # subshell of the handler starts the handler again (in bash too), without bound
            hctx = dict(ctx, d=max(ctx["d"], 2) + 1, handler=True, errh=ctx.get("errh") or sig == "TE")
            rest = self.lst(hctx, n)
            body = ("Z", body, rest)
        (self.exit_tags if sig == "TX" else self.err_tags)[t] = body
        return body

    def command(self, ctx):
        rng = self.rng
        d = ctx["d"]
        r = rng.random()
        if d >= 4 or r < 0.55:
            if not ctx["sub"] and not ctx["pure"] and rng.random() < ctx.get("ptrap", 0.12):
                sig = "TX" if rng.random() < 0.6 else "TE"
                if rng.random() < 0.18:
                    return (sig, None)
                return (sig, self.handler(ctx, sig))
            return self.leaf(ctx)
        c2 = dict(ctx, d=d + 1)
        if r < 0.63: return ("B", self.lst(c2))
        if r < 0.70 and not ctx.get("errh"): return mk_sub(self.lst(dict(c2, sub=True)))
        if r < 0.80:
            return ("I", self.lst(c2, 1), self.lst(c2), self.lst(c2) if rng.random() < 0.5 else None)
        if r < 0.87: return ("L", rng.choice([0, 1, 2, 2, 3]), self.lst(c2))
        if r < 0.91:
            # while: either the condition fails at once, or the body ends in an unconditional exit
            if rng.random() < 0.4 or not (self.exit_ok or ctx["sub"]):
                conds = [("F",), ("N",)] + ([] if ctx.get("errh") else [("U", ("P", ("X", 3)))])
                return ("W", ("P", rng.choice(conds)), self.lst(c2))
            body = self.lst(c2, rng.randrange(0, 2)) if rng.random() < 0.7 else None
            last = ("P", ("X", rng.choice([None, self.status()])))
            return ("W", ("P", ("T",)), ("Z", body, last) if body else last)
        if r < 0.96: return ("V", self.lst(dict(c2, d=d + 2)))
        return ("S", self.lst(dict(c2, d=d + 2)))

    def pipe(self, ctx):
        c = self.command(ctx)
        return ("Q", c) if self.rng.random() < 0.08 else ("P", c)

    def andor(self, ctx):
        a = self.pipe(ctx)
        while self.rng.random() < 0.18:
            a = (self.rng.choice(["A", "O"]), a, self.pipe(ctx))
        return a

    def lst(self, ctx, n=None):
        if n is None:
            n = self.rng.choice([1, 1, 2, 2, 3])
        items = [self.andor(ctx) for _ in range(max(1, n))]
        c = items[-1]
        for it in reversed(items[:-1]):
            c = ("Z", it, c)
        return c

    def program(self):
        rng = self.rng
        nf = rng.choice([0, 1, 2, 3])
        funs = []
        for i in range(nf):
            pure = rng.random() < 0.5
            ctx = dict(d=1, sub=False, pure=pure, maxf=i)
            self.nfun = i
            funs.append(("B", self.lst(ctx)))
            self.fun_pure.append(pure)
        self.nfun = nf
        ctx = dict(d=0, sub=False, pure=False, ptrap=0.22)
        cmds = []
        # most programs register an EXIT trap early
        if rng.random() < 0.7:
            cmds.append(("P", ("TX", self.handler(ctx, "TX"))))
        if rng.random() < 0.35:
            cmds.append(("P", ("TE", self.handler(ctx, "TE"))))
        for _ in range(rng.choice([1, 2, 3, 4])):
            cmds.append(self.lst(ctx))
        return funs, cmds


def script_of(funs, cmds):
    rd = Render()
    lines = []
    for i, f in enumerate(funs):
        lines.append("f%d() %s" % (i, rd.r(f)))
    for c in cmds:
        lines.append(rd.r(c))
    return "\n".join(lines) + "\n", rd.files


def model_case(fe, fixed, funs, cmds, fuel=None):
    t = []
    for f in funs:
        toks(f, t)
    for c in cmds:
        toks(c, t)
    if fuel is None:
        fuel = 100 + 6 * max([depth(c) for c in funs + cmds] or [1])
    return [fe, "1" if fixed else "0", str(fuel), str(len(funs))] + t


def impl_case(fe, which, funs, cmds):
    text, files = script_of(funs, cmds)
    f = [fe, which, text]
    for n, c in files.items():
        f += [n, c]
    return f


def parse_out(line):
    """code side: -> (status:int, [(tag, status)]) or None"""
    if line.startswith(("TIMEOUT", "SPAWNFAIL", "DIED", "PANIC")) or not line:
        return None
    f = core.dec_line(line)
    try:
        st = int(f[0])
    except (ValueError, IndexError):
        return None
    out = f[1] if len(f) > 1 else ""
    marks = []
    for l in out.split("\n"):
        if not l:
            continue
        p = l.split(" ")
        if len(p) == 2 and p[0].startswith("M") and p[0][1:].isdigit() and p[1].isdigit():
            marks.append((int(p[0][1:]), int(p[1])))
        else:
            marks.append((-1, l))
    return st, marks


def parse_model(line):
    f = core.dec_line(line)
    if not f or f[0] not in ("D", "X"):
        return None
    try:
        marks = [(int(f[i]), int(f[i + 1])) for i in range(5, len(f) - 1, 2)]
        return {"kind": f[0], "status": int(f[1]), "registered": f[2] == "1", "handler_exited": f[3] == "1",
                "exit_starts": int(f[4]), "marks": marks}
    except ValueError:
        return None


# ----------------------------------------------------------------------------------------------
# the property, checked on the code's own output (independent of the Coq model)

def handler_has_exit(h, funs):
    """syntactic: the handler text, or a function it may call, contains `exit`, exec, or a trap change"""
    seen = set()
    todo = [h]
    while todo:
        c = todo.pop()
        for n in walk(c):
            if n[0] in ("X", "XC"):
                return True
            if n[0] == "C" and n[1] not in seen and n[1] < len(funs):
                seen.add(n[1]); todo.append(funs[n[1]])
    return False


def main_only_tags(funs, cmds):
    """tags printed by the main flow only: not inside any handler text or function body"""
    tags = set()

    def go(c):
        if c[0] in ("TX", "TE"):
            return
        if c[0] == "E":
            tags.add(c[1])
        for x in c[1:]:
            if isinstance(x, tuple):
                go(x)
    for c in cmds:
        go(c)
    return tags


def spec_check(g, funs, cmds, code):
    """-> None or a string saying which clause of C16 the observed run violates"""
    st, marks = code
    exit_marks = [(i, t, s) for i, (t, s) in enumerate(marks) if t in g.exit_tags]
    if len(exit_marks) > 1:
        return "the EXIT trap ran %d times (marker lines %r)" % (len(exit_marks), [m[1] for m in exit_marks])
    nodes = [n for c in funs + cmds for n in walk(c)]
    has_exec = any(n[0] == "XC" for n in nodes)
    tx = [n for n in nodes if n[0] == "TX"]
    if not tx and exit_marks:
        return "an EXIT handler ran though none was ever registered"
    # surely registered: the first complete command is a plain `trap h EXIT` and nothing else touches EXIT
    if (cmds and cmds[0][0] == "P" and cmds[0][1][0] == "TX" and cmds[0][1][1] is not None and len(tx) == 1
            and not has_exec):
        want = cmds[0][1][1]
        wtag = want[1][1] if want[0] == "P" else want[1][1][1]
        if not exit_marks:
            return "the EXIT trap registered by the first command never ran (status %d)" % st
        if exit_marks[0][1] != wtag:
            return "a different EXIT handler ran"
    if exit_marks:
        i, t, s = exit_marks[0]
        mo = main_only_tags(funs, cmds)
        late = [m for m in marks[i + 1:] if m[0] in mo]
        if late:
            return "output of the main flow %r appears after the EXIT handler started" % (late[:3],)
        h = g.exit_tags[t]
        if not handler_has_exit(h, funs) and not has_exec and s != st:
            return "the EXIT handler saw $?=%d but the process ended with %d (the handler does not call exit)" % (s, st)
    return None


def compare_bash(code, bash, g):
    """True when brush and bash agree on what C16 observes: number of EXIT handler runs and exit status"""
    if code is None or bash is None:
        return False
    ce = [t for t, _ in code[1] if t in g.exit_tags]
    be = [t for t, _ in bash[1] if t in g.exit_tags]
    return ce == be and code[0] == bash[0]


# ----------------------------------------------------------------------------------------------

FES = ["c", "f", "s"]


def gen_programs(ctx, n, seed_off=0):
    import random
    progs = []
    for k in range(n):
        rng = random.Random((ctx.seed + seed_off) * 1000003 + k)
        g = Gen(rng, exec_ok=True)
        funs, cmds = g.program()
        progs.append((g, funs, cmds))
    return progs


def handwritten():
    """the termination paths x nesting contexts named by the property, written out"""
    import random
    progs = []
    paths = [("X", 3), ("X", None), ("PF",), ("OF",), ("AF",), ("F",), ("XC", 0), ("XC", 5), ("R", 4), ("T",)]
    tagc = [1000]

    def nt():
        tagc[0] += 1
        return tagc[0]

    def wrap(kind, c):
        p = ("P", c)
        if kind == "top": return [], p
        if kind == "func": return [("B", p)], ("P", ("C", 0))
        if kind == "func2": return [("B", p), ("B", ("P", ("C", 0)))], ("P", ("C", 1))
        if kind == "for": return [], ("P", ("L", 2, p))
        if kind == "while": return [], ("P", ("W", ("P", ("T",)), ("Z", p, ("P", ("X", 9)))))
        if kind == "if": return [], ("P", ("I", ("P", ("T",)), p, None))
        if kind == "cond": return [], ("P", ("I", p, ("P", ("E", nt())), ("P", ("E", nt()))))
        if kind == "eval": return [], ("P", ("V", p))
        if kind == "eval2": return [], ("P", ("V", ("P", ("V", p))))
        if kind == "source": return [], ("P", ("S", p))
        if kind == "brace": return [], ("P", ("B", p))
        if kind == "sub": return [], ("P", ("U", p))
        if kind == "and": return [], ("A", ("P", ("T",)), p)
        if kind == "or": return [], ("O", ("P", ("F",)), p)
        if kind == "funcloop": return [("B", ("P", ("L", 2, p)))], ("P", ("C", 0))
        raise ValueError(kind)
    kinds = ["top", "func", "func2", "for", "while", "if", "cond", "eval", "eval2", "source", "brace", "sub", "and",
             "or", "funcloop"]
    for errexit in (False, True):
        for path in paths:
            for kind in kinds:
                if path[0] == "XC" and kind == "sub":
                    continue
                for hkind in range(4):
                    g = Gen(random.Random(0))
                    t = nt()
                    h = ("P", ("E", t))
                    if hkind == 1: h = ("Z", h, ("P", ("F",)))
                    if hkind == 2: h = ("Z", h, ("P", ("X", 7)))
                    if hkind == 3: h = ("Z", h, ("Z", ("P", ("TX", ("P", ("E", nt())))), ("P", ("N",))))
                    g.exit_tags[t] = h
                    for n in walk(h):
                        if n[0] == "TX" and n[1] is not None:
                            g.exit_tags[n[1][1][1]] = n[1]
                    funs, c = wrap(kind, path)
                    cmds = [("P", ("TX", h))]
                    if errexit:
                        cmds.append(("P", ("SE", True)))
                    cmds += [("P", ("E", nt())), c, ("P", ("E", nt()))]
                    progs.append((g, funs, cmds))
    # ERR handlers: preserve $?, exit inside, nesting with EXIT
    for first in [("F",), ("N",), ("U", ("P", ("X", 42))), ("T",)]:
        for eh in range(4):
            for xh in range(3):
                g = Gen(random.Random(0))
                te, tx = nt(), nt()
                e = ("P", ("E", te))
                if eh == 1: e = ("Z", e, ("P", ("F",)))
                if eh == 2: e = ("Z", e, ("P", ("X", 5)))
                if eh == 3: e = ("Z", e, ("Z", ("P", ("U", ("P", ("X", 9)))), ("P", ("E", nt()))))
                x = ("P", ("E", tx))
                if xh == 1: x = ("Z", x, ("P", ("F",)))
                if xh == 2: x = ("Z", x, ("Z", ("P", ("F",)), ("P", ("E", nt()))))
                g.err_tags[te] = e
                g.exit_tags[tx] = x
                cmds = [("P", ("TX", x)), ("P", ("TE", e)), ("Z", ("P", first), ("P", ("E", nt()))), ("P", ("X", 3))]
                progs.append((g, [], cmds))
    return progs


def bucket(funs, cmds):
    ks = {n[0] for c in funs + cmds for n in walk(c)}
    return ks


def evaluate(ctx, progs, want_bash):
    """run code (+bash) and both model variants on progs x front-ends"""
    impl_cases, bash_cases, m0, m1, idx = [], [], [], [], []
    for pi, (g, funs, cmds) in enumerate(progs):
        for fe in FES:
            impl_cases.append(impl_case(fe, "v", funs, cmds))
            if want_bash:
                bash_cases.append(impl_case(fe, "b", funs, cmds))
            m0.append(model_case(fe, False, funs, cmds))
            m1.append(model_case(fe, True, funs, cmds))
            idx.append((pi, fe))
    mod0 = ctx.model("c16", m0)
    mod1 = ctx.model("c16", m1)
    # The model runs first. A program on which it runs out of fuel recurses without bound in brush AND in
    # bash (`set -E; trap '( false )' ERR; false`: a subshell starts with no handler marked running): such
    # a program is never handed to a real shell. Programs are grouped so that all front-ends are skipped.
    dead = set()
    for k, (pi, fe) in enumerate(idx):
        if parse_model(mod0[k]) is None or parse_model(mod1[k]) is None:
            dead.add(pi)
    live = [k for k, (pi, fe) in enumerate(idx) if pi not in dead]
    got = ctx.impl("trapsproc", [impl_cases[k] for k in live], shards=min(core.NPROC, 12))
    impl = ["SKIPPED"] * len(idx)
    for k, l in zip(live, got):
        impl[k] = l
    bash = [None] * len(idx)
    if want_bash:
        gotb = ctx.impl("trapsproc", [bash_cases[k] for k in live], shards=min(core.NPROC, 12))
        for k, l in zip(live, gotb):
            bash[k] = l
    return idx, impl_cases, impl, bash, m0, mod0, m1, mod1


def classify(ctx, progs, ev, res):
    idx, impl_cases, impl, bash, m0, mod0, m1, mod1 = ev
    mism, specv = res["model_mismatches"], res["spec_violations"]
    stats = res["stats"]
    for k, (pi, fe) in enumerate(idx):
        g, funs, cmds = progs[pi]
        code = parse_out(impl[k])
        b = parse_out(bash[k]) if bash[k] is not None else None
        a0, a1 = parse_model(mod0[k]), parse_model(mod1[k])
        text = impl_cases[k][2]
        inp = {"frontend": {"c": "-c", "f": "script file", "s": "stdin"}[fe], "script": text,
               "files": dict(zip(impl_cases[k][3::2], impl_cases[k][4::2]))}
        if a0 is None or a1 is None or impl[k] == "SKIPPED":
            stats["model_nofuel"] += 1
            continue
        if code is None:
            specv.append({"input": inp, "why": "the shell did not terminate normally: %s" % impl[k][:100]})
            continue
        stats["runs"] += 1
        if b is not None:
            stats["bash_agree" if compare_bash(code, b, g) else "bash_differ"] += 1
        obs = (code[0], code[1])
        shown = (code[0], code[1][:60] + ([("...", len(code[1]))] if len(code[1]) > 60 else []))
        e0 = (a0["status"], a0["marks"])
        e1 = (a1["status"], a1["marks"])
        bash_same = b is not None and compare_bash(code, b, g)
        # (i) the clauses of C16 that can be read off the code's own output
        why = spec_check(g, funs, cmds, code)
        if why and bash_same:
            stats["spec_vetoed_by_bash"] += 1
            res["vetoed"].append({"input": inp, "why": why})
            why = None
        if why:
            v = {"input": inp, "why": why, "code": shown}
            if a0["handler_exited"] and obs == e0 and e0 != e1:
                v["known"] = KF_EXIT
            specv.append(v)
        # tie: the code must behave as one of the two model variants
        if obs == e1:
            stats["eq_fixed"] += 1
            if e0 != e1:
                stats["fixed_witness"] += 1
        elif obs == e0:
            stats["eq_unfixed"] += 1
            # (ii) final status: the code dropped a handler's `exit`; oracle = the Coq semantics with the repair
            if not a0["handler_exited"]:
                mism.append({"input": inp, "code": obs, "model": e1, "note": "model variants differ without a handler exit"})
            elif bash_same:
                stats["spec_vetoed_by_bash"] += 1
                res["vetoed"].append({"input": inp, "why": "handler exit dropped, but bash behaves the same"})
            elif not why:
                specv.append({"input": inp, "known": KF_EXIT, "code": shown, "expected": e1,
                              "why": "a trap handler called `exit`, but the shell went on / ended with the interrupted "
                                     "status: got status %d, expected %d" % (obs[0], e1[0])})
        else:
            mism.append({"input": inp, "code": shown, "model_as_found": (e0[0], e0[1][:60]), "model_repaired": (e1[0], e1[1][:60])})
        if a0["exit_starts"] >= 1: stats["exit_trap_ran"] += 1
        if a0["kind"] == "X": stats["exec_replaced"] += 1
        if a0["handler_exited"]: stats["handler_exited"] += 1


def new_res():
    return {"model_mismatches": [], "spec_violations": [], "vetoed": [],
            "stats": {k: 0 for k in ("runs", "eq_fixed", "eq_unfixed", "fixed_witness", "model_nofuel", "exit_trap_ran",
                                     "exec_replaced", "handler_exited", "bash_agree", "bash_differ",
                                     "spec_vetoed_by_bash")}}


def run(ctx):
    hw = handwritten()
    progs = hw + gen_programs(ctx, 700 if ctx.quick else 6000)
    res = new_res()
    ev = evaluate(ctx, progs, want_bash=True)
    classify(ctx, progs, ev, res)
    idx, impl_cases, impl, bash, m0, mod0, m1, mod1 = ev
    # differential part (not proof-backed): DEBUG traps, nested different handlers, trap-delivery suppression
    from props import c16x
    xn, xv, xst = c16x.run_scenarios(ctx, 200 if ctx.quick else 1500)
    res["spec_violations"].extend(xv)
    # extraction cross-check
    sidx = ctx.rng.sample(range(len(m0)), min(40, len(m0)))
    ce = ctx.coq_eval("c16", [m0[i] for i in sidx])
    bad = [i for i, v in zip(sidx, ce) if v != mod0[i]]
    if bad:
        raise core.CheckBroken("extracted runner and vm_compute disagree on case %r" % (m0[bad[0]],))
    stats = res["stats"]
    if stats["eq_unfixed"] and stats["fixed_witness"]:
        res["model_mismatches"].append({"note": "the code follows the as-found variant on some cases and the repaired "
                                                "variant on others", "as_found": stats["eq_unfixed"], "repaired": stats["fixed_witness"]})
    kinds = {}
    for g, funs, cmds in progs:
        for k in bucket(funs, cmds):
            kinds[k] = kinds.get(k, 0) + 1
    distinct = {json.dumps(c) for c, l in zip(m0, mod0) if parse_model(l) and parse_model(l)["exit_starts"] >= 1}
    which = "repaired (a handler's exit ends the shell)" if stats["eq_unfixed"] == 0 else "as found (a handler's exit is dropped)"
    return {
        "evaluations": len(m0) + xn,
        "distinct_nontrivial": len(distinct),
        "rule": "programs over the C16 command language (markers, true/false/unknown command, exit/return, fatal and "
                "non-fatal expansion errors, set -e/-E, trap set/replace/remove for EXIT and ERR with handlers that "
                "fail, exit, call functions, set traps; functions, eval, source, subshell, if/for/while, !, &&, ||, ;, exec) "
                "each run through the three front-ends (-c, script file, stdin): %d hand-enumerated termination path x "
                "nesting context x handler kind x errexit programs + %d random ones; non-trivial = the EXIT handler "
                "actually starts in the run (per model ghost trace); distinct by (front-end, program)" % (len(hw), len(progs) - len(hw)),
        "samples": [{"frontend": c[0], "script": c[2]} for c in (impl_cases[0], impl_cases[len(hw) * 3 + 1], impl_cases[-1])],
        "distribution": {"programs_with_node_kind": kinds, "run_stats": stats, "code_behaves_as": which,
                         "differential_trap_scenarios": xst},
        "notes": ["proof-backed (Coq model + theorems + correspondence): EXIT/ERR traps over the command language of "
                  "Traps/Syntax.v, three front-ends (%d runs)" % len(m0),
                  "differential only (oracle on the code's own output + equality with bash 5.2 on stdout and status): DEBUG "
                  "traps next to ERR/EXIT, handlers nested through each other, trap inside handlers, compgen -F / complete -F "
                  "(missing, failing, nested, working completion functions) before every termination path (%d runs)" % xn],
        "spec_vs_bash": {"agree": stats["bash_agree"], "differ": stats["bash_differ"],
                         "spec_violations_vetoed_because_bash_agrees": stats["spec_vetoed_by_bash"],
                         "vetoed_samples": res["vetoed"][:3]},
        "extraction_crosscheck": {"cases": len(sidx), "agree": len(sidx) - len(bad)},
        "model_mismatches": res["model_mismatches"],
        "spec_violations": res["spec_violations"],
    }


def search(ctx, res0):
    """extended search after a broken tie: more programs, spec oracle + bash veto only"""
    progs = handwritten() + gen_programs(ctx, 3000, seed_off=7)
    res = new_res()
    ev = evaluate(ctx, progs, want_bash=True)
    classify(ctx, progs, ev, res)
    sv = [v for v in res["spec_violations"] if "known" not in v]
    sv.sort(key=lambda v: len(v["input"]["script"]))
    return {"evaluations": len(ev[0]), "spec_violations": sv[:5]}


def run_code_only(ctx):
    r = search(ctx, {})
    r.update({"distinct_nontrivial": r["evaluations"], "rule": "code vs spec oracle only (model did not build)", "samples": []})
    return r
