"""C09 — variable scope and attributes: locals, temporary assignments, export, readonly."""
import itertools, re
from vlib import core

PID = "C09"
ENTRIES = {"c09api": ("Scope.Entry", "entry_c09api"), "c09sh": ("Scope.Entry", "entry_c09sh")}
TRUSTED = [
    "modelled, not verified: brush-core/src/env.rs (scope stack, the four lookup policies, unset/tombstone, add, "
    "update_or_add*, iter_exported), variables.rs (assign, assign_at_index, unset_index, conversions, transforms), "
    "interp.rs apply_assignment + execute_command, commands.rs dispatch/post_execute/invoke_shell_function, "
    "declare.rs process_declaration, export.rs process_decl, unset.rs; "
    "not in the model: `set -a`, namerefs, dynamic variables, non-ASCII case mapping, trace flag",
    "python oracles in props/c09.py (child environment = visible & exported & set; readonly globals unchanged and "
    "unshadowed; stack discipline; temp-assignment sandwich; local restore; attribute transforms) evaluate the "
    "property on the code's own dumps",
]
ASSUMPTIONS = ["values are ASCII (plus uncased symbols) without newlines, quotes or backslashes; array subscripts are decimal literals",
               "`set -a` (allexport) is off; no namerefs"]

NAMES = ["va", "vb"]
SCAL = ["1", "2", "ab", "Cd", "1+2", "7", "-3", "", "x y", "Zz9", "08"]
SIMPLE = ["1", "2", "ab", "Cd", "7", "Zz9", "q"]
INTS = ["5", "-2", "0", "12"]
IDX = ["0", "1", "2", "-1", "5"]

# ------------------------------------------------------------------ rendering / encoding

def q(v):
    return "'" + v + "'"


def lit_text(l):
    if l[0] == "s":
        return q(l[1])
    return "(" + " ".join(("[%s]=%s" % (k, q(v))) if k is not None else q(v) for k, v in l[1]) + ")"


def lit_tok(l):
    if l[0] == "s":
        return ["s", l[1]]
    out = ["a", str(len(l[1]))]
    for k, v in l[1]:
        out += (["k", k, v] if k is not None else ["n", v])
    return out


def oix_tok(ix):
    return ["i", ix] if ix is not None else ["n"]


def assign_text(n, ix, l, app):
    return "%s%s%s%s" % (n, "[%s]" % ix if ix is not None else "", "+=" if app else "=", lit_text(l))


class Prog:
    """collects function definitions while rendering"""
    def __init__(self):
        self.funcs = []   # (name, body text)
        self.nf = 0

    def action_text(self, a):
        k = a[0]
        if k == "=":
            return assign_text(a[1], a[2], a[3], a[4])
        if k == "S":
            how, n, l = a[1], a[2], a[3]
            if how == "for":
                return "for %s in %s; do :; done" % (n, q(l[1]))
            return "(( %s = %s ))" % (n, l[1])
        if k == "Se":
            return "(( %s[%s] = %s ))" % (a[1], a[2], a[3])
        if k == "D":
            return ": ${%s:=%s}" % (a[1], a[2])
        if k == "R":
            return "return"
        temps, c = a[1], a[2]
        pre = "".join(assign_text(*t) + " " for t in temps)
        if c[0] == "x":
            return pre + "/bin/sh -c '/usr/bin/env; echo @@E'"
        if c[0] == "nf":
            return pre + "__nosuchcmd_zz"
        if c[0] == "f":
            name = "f%d" % self.nf
            self.nf += 1
            body = "\n".join(self.action_text(x) for x in c[1])
            self.funcs.append((name, body))
            return pre + name
        b = c[1]
        if b[0] == "d":
            verb, flags, d = b[1], b[2], b[3]
            w = [{"d": "declare", "l": "local", "r": "readonly"}[verb]] + [s + f for s, f in flags]
            if d[0] == "n":
                w.append(d[1])
            elif d[0] == "x":
                w.append(q(d[1] + "[1]"))
            elif d[0] == "s":
                w.append("%s=%s" % (d[1], q(d[2])))
            elif d[0] == "a":
                w.append("%s=%s" % (d[1], lit_text(("a", d[2]))))
            else:
                w.append("%s[%s]=%s" % (d[1], d[2], q(d[3])))
            return pre + " ".join(w)
        if b[0] == "e":
            n, v, un = b[1], b[2], b[3]
            return pre + "export %s%s" % ("-n " if un else "", n if v is None else assign_text(n, None, v[0], v[1]))
        if b[0] == "u":
            return pre + "unset " + b[1]
        if b[0] == "ue":
            return pre + "unset " + q("%s[%s]" % (b[1], b[2]))
        if b[0] == "s":
            how, n, l = b[1], b[2], b[3]
            if how == "read":
                return pre + "read %s <<< %s" % (n, q(l[1]))
            if how == "reada":
                return pre + "read -a %s <<< %s" % (n, q(" ".join(v for _, v in l[1])))
            return pre + "printf -v %s %%s %s" % (n, q(l[1]))
        if b[0] == "p":
            return pre + "__probe %s %s" % (b[1], " ".join(NAMES))
        return pre + ":"


def action_tok(a):
    k = a[0]
    if k == "=":
        return ["=", a[1]] + oix_tok(a[2]) + lit_tok(a[3]) + ["1" if a[4] else "0"]
    if k == "S":
        return ["S", a[2]] + lit_tok(a[3])
    if k == "Se":
        return ["Se", a[1], a[2], a[3]]
    if k == "D":
        return ["D", a[1], a[2]]
    if k == "R":
        return ["R"]
    temps, c = a[1], a[2]
    out = ["C", str(len(temps))]
    for n, ix, l, app in temps:
        out += [n] + oix_tok(ix) + lit_tok(l) + ["1" if app else "0"]
    if c[0] == "x":
        return out + ["x"]
    if c[0] == "nf":
        return out + ["nf"]
    if c[0] == "f":
        out += ["f", str(len(c[1]))]
        for x in c[1]:
            out += action_tok(x)
        return out
    b = c[1]
    out.append("b")
    if b[0] == "d":
        d = b[3]
        out += ["d", b[1], "".join(s + f for s, f in b[2])]
        if d[0] in ("n", "x"):
            out += [d[0], d[1]]
        elif d[0] == "s":
            out += ["s", d[1], d[2]]
        elif d[0] == "a":
            out += ["a", d[1]] + lit_tok(("a", d[2]))[1:]
        else:
            out += ["e", d[1], d[2], d[3]]
    elif b[0] == "e":
        out += ["e", b[1]]
        if b[2] is None:
            out += ["n"]
        else:
            out += ["v"] + lit_tok(b[2][0]) + ["1" if b[2][1] else "0"]
        out += ["1" if b[3] else "0"]
    elif b[0] == "u":
        out += ["u", b[1]]
    elif b[0] == "ue":
        out += ["ue", b[1], b[2]]
    elif b[0] == "s":
        out += ["s", b[2]] + lit_tok(b[3])
    elif b[0] == "p":
        out += ["p", b[1]]
    else:
        out += [":"]
    return out


def render(steps):
    """-> (harness case fields, model case fields)"""
    p = Prog()
    texts = [p.action_text(a) for a in steps]
    setup = "\n".join("%s() {\n%s\n}" % (n, b) for n, b in p.funcs) or ":"
    toks = []
    for a in steps:
        toks += action_tok(a)
    return [",".join(NAMES), setup] + texts, toks


# ------------------------------------------------------------------ generators

class Gen:
    def __init__(self, rng):
        self.rng = rng
        self.tag = 0

    def name(self):
        return self.rng.choice(NAMES) if self.rng.random() < 0.9 else "va"

    def scal(self):
        return ("s", self.rng.choice(SCAL))

    def arr(self):
        r = self.rng
        n = r.randrange(0, 4)
        keyed = [(r.choice(["0", "1", "3", "k"]), r.choice(SIMPLE)) for _ in range(r.randrange(0, 2))]
        return ("a", keyed + [(None, r.choice(SIMPLE)) for _ in range(n)])

    def lit(self):
        return self.scal() if self.rng.random() < 0.75 else self.arr()

    def probe(self):
        self.tag += 1
        return ("C", [], ("b", ("p", "t%d" % self.tag)))

    def temps(self, force=False):
        r = self.rng
        if not force and r.random() < 0.55:
            return []
        out = []
        for _ in range(1 if r.random() < 0.8 else 2):
            x = r.random()
            if x < 0.8:
                out.append((self.name(), None, ("s", r.choice(SCAL)), r.random() < 0.15))
            elif x < 0.9:
                out.append((self.name(), r.choice(IDX[:3]), ("s", r.choice(SIMPLE)), False))
            else:
                out.append((self.name(), None, self.arr(), False))
        return out

    def flags(self, verb):
        r = self.rng
        pool = [("-", "i"), ("+", "i"), ("-", "l"), ("+", "l"), ("-", "u"), ("+", "u"), ("-", "x"), ("+", "x"),
                ("-", "r"), ("-", "a"), ("-", "A"), ("-", "c"), ("+", "r")]
        if verb == "r":
            return [r.choice([("-", "a"), ("-", "A")])] if r.random() < 0.15 else []
        k = r.choice([0, 0, 1, 1, 1, 2])
        fl = []
        for _ in range(k):
            f = r.choice(pool)
            if f[1] not in [x[1] for x in fl]:
                fl.append(f)
        if verb == "d" and r.random() < 0.15:
            fl.append(("-", "g"))
        return fl

    def decl(self):
        r = self.rng
        n = self.name()
        x = r.random()
        if x < 0.35:
            return ("n", n)
        if x < 0.4:
            return ("x", n)
        if x < 0.8:
            return ("s", n, r.choice(SCAL))
        if x < 0.92:
            return ("a", n, self.arr()[1])
        return ("e", n, r.choice(["0", "1", "3"]), r.choice(SIMPLE))

    def builtin(self, infn):
        r = self.rng
        x = r.random()
        if x < 0.45:
            verb = r.choice(["d", "d", "l", "l", "r"]) if infn else r.choice(["d", "d", "d", "r", "l"])
            return ("d", verb, self.flags(verb), self.decl())
        if x < 0.65:
            y = r.random()
            if y < 0.4:
                return ("e", self.name(), None, r.random() < 0.3)
            return ("e", self.name(), (self.scal() if r.random() < 0.85 else self.arr(), r.random() < 0.2), r.random() < 0.1)
        if x < 0.78:
            return ("u", self.name())
        if x < 0.84:
            return ("ue", self.name(), r.choice(IDX))
        if x < 0.94:
            how = r.choice(["read", "printf", "reada"])
            if how == "reada":
                return ("s", how, self.name(), ("a", [(None, r.choice(SIMPLE)) for _ in range(r.randrange(1, 3))]))
            return ("s", how, self.name(), ("s", r.choice(SIMPLE + ["1+2", "-3"])))
        return (":",)

    def action(self, depth, infn):
        r = self.rng
        x = r.random()
        if x < 0.22:
            y = r.random()
            if y < 0.7:
                return ("=", self.name(), None, self.scal(), r.random() < 0.25)
            if y < 0.85:
                return ("=", self.name(), None, self.arr(), r.random() < 0.3)
            return ("=", self.name(), r.choice(IDX), ("s", r.choice(SIMPLE + ["1+2"])), r.random() < 0.2)
        if x < 0.28:
            how = r.choice(["for", "arith"])
            return ("S", how, self.name(), ("s", r.choice(SCAL) if how == "for" else r.choice(INTS)))
        if x < 0.30:
            return ("Se", self.name(), r.choice(["0", "1", "3"]), r.choice(INTS))
        if x < 0.34:
            return ("D", self.name(), r.choice(SIMPLE + [""]))
        if x < 0.36 and infn:
            return ("R",)
        if x < 0.70:
            return ("C", self.temps(), ("b", self.builtin(infn)))
        if x < 0.78:
            return ("C", self.temps(force=r.random() < 0.7), ("x",))
        if x < 0.81:
            return ("C", self.temps(force=True), ("nf",))
        if x < 0.86 and infn:
            return self.probe()
        if depth < 3:
            return ("C", self.temps(), ("f", self.body(depth + 1)))
        return ("C", self.temps(), ("b", self.builtin(infn)))

    def body(self, depth):
        r = self.rng
        out = []
        if r.random() < 0.6:
            verb = "l" if r.random() < 0.8 else "d"
            out.append(("C", [], ("b", ("d", verb, self.flags(verb), self.decl()))))
        for _ in range(r.randrange(1, 5)):
            a = self.action(depth, True)
            if a[0] == "C" and a[2][0] == "x":
                # the state the child is composed from: probe under the same prefix, then the child
                self.tag += 1
                out.append(("C", a[1], ("b", ("p", "e%d" % self.tag))))
                out.append(a)
            elif a[0] == "C" and a[1] and a[2][0] in ("nf",) or (a[0] == "C" and a[1] and a[2][0] == "b" and a[2][1][0] == ":"):
                # sandwich: nothing may differ around `n=v <no-op command>`
                self.tag += 1
                out.append(("C", [], ("b", ("p", "sb%d" % self.tag))))
                out.append(a)
                out.append(("C", [], ("b", ("p", "sa%d" % self.tag))))
            else:
                out.append(a)
        out.append(self.probe())
        return out

    def ro_local_call(self, depth=1):
        """a call whose body makes a local readonly (local -r | local + readonly | declare -r), then attacks it in the
        same function, in a callee and through prefixed builtins; probes rb<k> / ra<k> / rc<k> bracket the attacks"""
        r = self.rng
        n = self.name()
        val = ("s", n, r.choice(["locked", "7", "Ab"])) if r.random() < 0.75 else ("a", n, [(None, "p"), (None, "q")])
        how = r.choice(["local-r", "local+readonly", "declare-r"])
        if how == "local-r":
            body = [D("l", [("-", "r")] + ([("-", "x")] if r.random() < 0.2 else []), val)]
        elif how == "declare-r":
            body = [D("d", [("-", "r")], val)]
        else:
            body = [D("l", [], val), D("r", [], ("n", n))]
        self.tag += 1
        k = self.tag
        body.append(P("rb%d" % k))

        def attack():
            x = r.random()
            if x < 0.35:
                return ("C", self.temps() if r.random() < 0.3 else [], ("b", ("u", n)))
            if x < 0.45:
                return ("C", [], ("b", ("ue", n, r.choice(["0", "1"]))))
            if x < 0.55:
                return ("C", [], ("b", ("e", n, (("s", "exp"), r.random() < 0.3), False)))
            if x < 0.65:
                return ("C", [], ("b", ("s", r.choice(["read", "printf"]), n, ("s", "rd"))))
            if x < 0.75:
                return D(r.choice(["l", "d"]), r.choice([[], [("+", "r")], [("-", "i")]]), ("s", n, "re"))
            if x < 0.9 and depth < 3:
                inner = [("C", [], ("b", ("u", n)))]
                if r.random() < 0.5:
                    inner.append(("C", [], ("b", ("s", "printf", n, ("s", "cal")))))
                inner.append(self.probe())
                return ("C", [], ("f", inner))
            return ("C", [(n, None, ("s", "tmp"), False)], ("b", (":",)))
        for _ in range(r.randrange(1, 4)):
            body.append(attack())
        body.append(P("ra%d" % k))
        y = r.random()
        if y < 0.6:
            body.append(("=", n, None, ("s", "changed"), r.random() < 0.2))
        elif y < 0.75:
            body.append(("=", n, "0", ("s", "changed"), False))
        elif y < 0.85:
            body.append(("S", "for", n, ("s", "changed")))
        body.append(P("rc%d" % k))
        steps = [("C", self.temps() if r.random() < 0.25 else [], ("f", body))]
        # after the return the readonly local is gone: the name is an ordinary (global) name again
        z = r.random()
        if z < 0.4:
            steps.append(("=", n, None, ("s", "after"), False))
        elif z < 0.6:
            steps.append(("C", [], ("b", ("u", n))))
        return steps

    def program(self):
        r = self.rng
        steps = []
        if r.random() < 0.25:
            if r.random() < 0.5:
                steps.append(("=", self.name(), None, self.scal(), False))
            steps += self.ro_local_call()
        for _ in range(r.randrange(4, 12)):
            a = self.action(0, False)
            if a[0] == "C" and a[2][0] == "x":
                self.tag += 1
                steps.append(("C", a[1], ("b", ("p", "e%d" % self.tag))))
            steps.append(a)
        return steps


def api_alphabet():
    v, w = "va", "vb"
    ops = [
        ["push", "L"], ["push", "C"], ["pop", "L"], ["pop", "C"],
        ["uoa", v, "s", "1", "n", "a", "G"], ["uoa", v, "s", "Ab", "x", "a", "G"], ["uoa", w, "s", "2", "n", "a", "G"],
        ["uoa", v, "s", "3", "n", "c", "L"], ["uoa", v, "a", "2", "n", "p", "n", "q", "n", "a", "G"],
        ["uoa", v, "s", "4", "u", "g", "G"], ["uoa", v, "s", "5", "n", "l", "L"], ["uoa", v, "s", "6", "x", "a", "C"],
        ["uoae", v, "1", "e", "a", "G"], ["uoae", v, "-1", "f", "a", "G"],
        ["add", v, "L"], ["add", v, "C"],
        ["unset", v], ["unsetix", v, "0"], ["unsetix", v, "-1"],
        ["ro", v], ["exp", v, "1"], ["exp", v, "0"], ["int", v, "1"], ["xf", v, "u"],
        ["asg", v, "s", "7", "0"], ["asg", v, "s", "Zz", "1"], ["asg", v, "a", "2", "k", "3", "r", "n", "s", "1"],
        ["asgix", v, "2", "g", "0"], ["asgix", v, "0", "9", "1"],
        ["toidx", v], ["toassoc", v],
        ["get", v, "a"], ["get", v, "c"], ["get", v, "g"], ["get", v, "l"], ["child"],
    ]
    return ops


def api_ro_local(rng):
    """readonly variable in a Local scope, then every writer aimed at it: same frame, deeper frames, after the pop"""
    n = rng.choice(NAMES)
    c = []
    if rng.random() < 0.5:
        c += ["uoa", n, "s", "g", rng.choice(["n", "x"]), "a", "G"]
    c += ["push", "L"]
    if rng.random() < 0.3:
        c += ["push", "C"]
    x = rng.random()
    if x < 0.5:
        c += ["uoa", n, "s", "3", "n", "c", "L"]
    elif x < 0.75:
        c += ["uoa", n, "a", "2", "n", "p", "n", "q", "n", "c", "L"]
    else:
        c += ["add", n, "L", "asg", n, "s", "7", "0"]
    c += ["ro", n]
    attacks = [["unset", n], ["unset", n], ["asg", n, "s", "ch", "0"], ["asg", n, "s", "ch", "1"], ["asgix", n, "0", "e", "0"],
               ["unsetix", n, "0"], ["uoa", n, "s", "u", "n", "a", "G"], ["uoa", n, "s", "u", "x", "c", "L"],
               ["uoae", n, "1", "e", "a", "G"], ["push", "L"], ["push", "C"], ["exp", n, "1"], ["int", n, "1"],
               ["get", n, "a"], ["get", n, "c"], ["child"]]
    for _ in range(rng.randrange(1, 6)):
        c += rng.choice(attacks)
    c += ["get", n, "a"]
    if rng.random() < 0.5:
        c += ["pop", rng.choice(["L", "L", "C"]), "unset", n, "uoa", n, "s", "after", "n", "a", "G"]
    return c


API_ARITY = {"push": 1, "pop": 1, "uoae": 5, "add": 2, "unset": 1, "unsetix": 2, "get": 2, "child": 0, "asgix": 4, "ro": 1,
             "exp": 2, "int": 2, "xf": 2, "toidx": 1, "toassoc": 1}


def api_ops(toks):
    """split a token list into ops"""
    def lit_len(i):
        if toks[i] == "s":
            return 2
        k, j = int(toks[i + 1]), i + 2
        for _ in range(k):
            j += 3 if toks[j] == "k" else 2
        return j - i
    ops, i = [], 0
    while i < len(toks):
        op = toks[i]
        if op == "uoa":
            n = 2 + lit_len(i + 2) + 3
        elif op == "asg":
            n = 2 + lit_len(i + 2) + 1
        else:
            n = 1 + API_ARITY[op]
        ops.append(toks[i:i + n])
        i += n
    return ops


def api_states(toks, fields):
    """-> list of (op, result fields, scopes after)"""
    out, i = [], 0
    for op in api_ops(toks):
        if op[0] == "get":
            n = 1 if fields[i] == "none" else 4 + 2 * int(fields[i + 3])
        elif op[0] == "child":
            n = 2 + 2 * int(fields[i + 1])
        else:
            n = 1
        res = fields[i:i + n]
        i += n
        if fields[i] != "T":
            raise ValueError("no state after %r" % (op,))
        sc, i = parse_env(fields, i + 1)
        out.append((op, res, sc))
    return out


def check_api(toks, fields):
    """the readonly invariant on the code's own states: no writer of ShellEnvironment/ShellVariable (other than `add`,
    which replaces by contract, and pop) changes, un-marks or removes a readonly variable in any scope"""
    out = []
    try:
        sts = api_states(toks, fields)
    except (ValueError, IndexError, KeyError):
        return [("the code's API dump is malformed", None)]
    prev = [("G", {})]
    for op, res, sc in sts:
        if op[0] not in ("pop", "add"):
            for pos, kb, n, b, a in ro_lost(prev, sc):
                out.append(("API: %s on a readonly %s in the %s scope at depth %d: %r -> %r (result %r)"
                            % (" ".join(op), n, kb, pos, b, a, res), None))
        prev = sc
    return out


def gen_api(ctx):
    ops = api_alphabet()
    cases = []
    depth = 2 if ctx.quick else 3
    core_ops = ops[:31]
    for d in range(1, depth + 1):
        for seq in itertools.product(range(len(core_ops)), repeat=d):
            c = []
            for i in seq:
                c += core_ops[i]
            cases.append(c + ["child", "get", "va", "a"])
    nex = len(cases)
    rng = ctx.rng
    for _ in range(6000 if ctx.quick else 60000):
        c = []
        for _ in range(rng.randrange(3, 12)):
            o = list(rng.choice(ops))
            # vary operands
            o = [rng.choice(NAMES) if x in ("va", "vb") else x for x in o]
            c += o
        cases.append(c)
    for _ in range(1500 if ctx.quick else 15000):
        cases.append(api_ro_local(rng))
    return cases, nex


# ------------------------------------------------------------------ parsing the dumps

def parse_env(f, i):
    ns = int(f[i]); i += 1
    scopes = []
    for _ in range(ns):
        kind = f[i]; nv = int(f[i + 1]); i += 2
        m = {}
        for _ in range(nv):
            name, attrs, vk, cnt = f[i], f[i + 1], f[i + 2], int(f[i + 3]); i += 4
            items = []
            for _ in range(cnt):
                items.append((f[i], f[i + 1])); i += 2
            m[name] = (attrs, vk, items)
        scopes.append((kind, m))
    return scopes, i


def parse_records(fields):
    """-> list of steps; each step = (observations, state) ; observation = ('P', tag, scopes) | ('E', [(k,v)])"""
    steps, obs = [], []
    i = 0
    try:
        while i < len(fields):
            t = fields[i]; i += 1
            if t == "P":
                tag = fields[i]; i += 1
                sc, i = parse_env(fields, i)
                obs.append(("P", tag, sc))
            elif t == "E":
                n = int(fields[i]); i += 1
                l = []
                for _ in range(n):
                    l.append((fields[i], fields[i + 1])); i += 2
                obs.append(("E", l))
            elif t == "T":
                sc, i = parse_env(fields, i)
                steps.append((obs, sc))
                obs = []
            else:
                return None
    except (ValueError, IndexError):
        return None
    return steps


# ------------------------------------------------------------------ the property, on the code's own dumps

def visible(scopes, n):
    for kind, m in reversed(scopes):
        if n in m:
            return kind, m[n]
    return None


def scalar_view(b):
    attrs, vk, items = b
    if vk == "S":
        return items[0][1]
    for k, v in items:
        if k == "0":
            return v
    return ""


def expected_child(scopes):
    out = []
    for n in NAMES:
        v = visible(scopes, n)
        if v and "x" in v[1][0] and not v[1][1].startswith("U"):
            out.append((n, scalar_view(v[1])))
    return sorted(out)


def export_shadow_class(scopes, got):
    """KF-C09-export-shadow: every differing name has an exported binding below a non-exported (or unset) top binding"""
    exp = dict(expected_child(scopes))
    got = dict(got)
    for n in NAMES:
        if exp.get(n) == got.get(n):
            continue
        bs = [m[n] for _, m in scopes if n in m]
        if len(bs) < 2:
            return False
        top = bs[-1]
        if "x" in top[0] and not top[1].startswith("U"):
            return False
        if not any("x" in b[0] for b in bs[:-1]):
            return False
    return True


def writes_elem(a, n):
    """does the action (recursively) contain an element write / element unset / conversion aimed at n"""
    k = a[0]
    if k == "=":
        return a[1] == n and a[2] is not None
    if k == "Se":
        return a[1] == n
    if k == "C":
        for t in a[1]:
            if t[0] == n and t[1] is not None:
                return True
        c = a[2]
        if c[0] == "f":
            return any(writes_elem(x, n) for x in c[1])
        if c[0] == "b":
            b = c[1]
            if b[0] == "ue" and b[1] == n:
                return True
            if b[0] == "d" and b[3][1] == n and any(f in ("a", "A") for _, f in b[2]):
                return True   # same class as Scope/ReadonlyProofs.v ro_safe
    return False


def content(b):
    attrs, vk, items = b
    return sorted(items)


def mentions(a, n, pred):
    if pred(a, n):
        return True
    if a[0] == "C" and a[2][0] == "f":
        return any(mentions(x, n, pred) for x in a[2][1])
    return False


def is_unset_or_g(a, n):
    if a[0] == "C" and a[2][0] == "b":
        b = a[2][1]
        if b[0] == "u" and b[1] == n:
            return True
        if b[0] == "d" and b[3][1] == n and (any(f == "g" for _, f in b[2]) or b[1] == "r"):
            return True
    return False


def probe_temps(steps, acc=None):
    """tag -> temporary-assignment prefix of the probe command carrying it"""
    acc = {} if acc is None else acc
    for a in steps:
        if a[0] == "C":
            if a[2][0] == "b" and a[2][1][0] == "p":
                acc[a[2][1][1]] = a[1]
            elif a[2][0] == "f":
                probe_temps(a[2][1], acc)
    return acc


def ro_lost(before, after):
    """readonly bindings of `before` (scope by scope, from the bottom) that are missing / not readonly / changed in `after`"""
    bad = []
    for pos, ((kb, mb), (ka, ma)) in enumerate(zip(before, after)):
        for n, b in mb.items():
            if "r" in b[0]:
                a = ma.get(n) if ka == kb else None
                if a is None or "r" not in a[0] or content(a) != content(b):
                    if b[1].startswith("U") and a is not None and "r" in a[0] and content(a) in ([], [("0", "")]):
                        continue
                    bad.append((pos, kb, n, b, a))
    return bad


def check_program(steps, recs):
    """returns list of (why, known-id or None)"""
    out = []
    ptemps = probe_temps(steps)
    if recs is None or len(recs) != len(steps):
        return [("the code's dump is malformed / incomplete", None)]
    prev = [("G", {})]
    for a, (obs, st) in zip(steps, recs):
        # O3 stack discipline
        if [k for k, _ in st] != ["G"]:
            out.append(("scope stack after the step is %s, expected [G]" % [k for k, _ in st], None))
        last_e_probe = None
        sand = {}
        for o in obs:
            if o[0] == "P":
                kinds = "".join(k for k, _ in o[2])
                if not re.fullmatch(r"G(CL)*C", kinds):
                    out.append(("scope stack at probe %s is %s" % (o[1], kinds), None))
                if o[1].startswith("e"):
                    last_e_probe = o[2]
                    last_e_tag = o[1]
                if o[1].startswith("rb"):
                    sand["ro" + o[1][2:]] = o[2]
                if o[1][:2] in ("ra", "rc") and "ro" + o[1][2:] in sand:
                    # O2c: same function invocation: every scope below the probe's own Command scope is the same frame
                    for pos, kb, n, b, a2 in ro_lost(sand["ro" + o[1][2:]][:-1], o[2][:-1]):
                        out.append(("readonly %s in the %s scope at depth %d changed inside the function that owns it "
                                    "(between probes rb/%s): %r -> %r" % (n, kb, pos, o[1], b, a2), None))
                if o[1].startswith("sb"):
                    sand[o[1][2:]] = o[2]
                if o[1].startswith("sa") and o[1][2:] in sand:
                    before = sand[o[1][2:]]
                    if before != o[2]:
                        # O4: `n=v <no-op>` left a trace
                        kn = None
                        # known: a binding inside an enclosing Command scope was overwritten
                        if len(before) == len(o[2]) and all(
                                kb == ka and (mb == ma or kb == "C") for (kb, mb), (ka, ma) in zip(before, o[2])):
                            kn = "KF-C09-nested-temp"
                        out.append(("state differs around a temporary assignment on a no-op command (probe %s): %r -> %r"
                                    % (o[1], before, o[2]), kn))
                # O2b readonly global shadowed
                g = o[2][0][1]
                for n in NAMES:
                    if n in g and "r" in g[n][0]:
                        vis = visible(o[2], n)
                        if vis and vis[0] != "G":
                            out.append(("readonly global %s is shadowed by a %s-scope binding at probe %s" % (n, vis[0], o[1]),
                                        "KF-C09-readonly-local-shadow" if vis[0] == "L" else "KF-C09-readonly-temp-shadow"))
            else:
                # O1 child environment
                if last_e_probe is not None:
                    exp = expected_child(last_e_probe)
                    if exp != sorted(o[1]):
                        # a prefix name that did not land in the probe's own Command scope hit an enclosing
                        # Command scope instead (KF-C09-nested-temp); the probe itself then disturbed the state
                        nested = any(t[0] not in last_e_probe[-1][1] for t in ptemps.get(last_e_tag, []))
                        out.append(("child environment %r, but the visible exported set variables are %r (scopes %r)"
                                    % (sorted(o[1]), exp, last_e_probe),
                                    "KF-C09-nested-temp" if nested else
                                    "KF-C09-export-shadow" if export_shadow_class(last_e_probe, o[1]) else None))
                    last_e_probe = None
        # O2a readonly globals keep content and flag
        g0, g1 = prev[0][1], st[0][1] if st else {}
        for n in NAMES:
            if n in g0 and "r" in g0[n][0]:
                if n not in g1 or "r" not in g1[n][0] or content(g0[n]) != content(g1[n]):
                    if g0[n][1].startswith("U") and n in g1 and "r" in g1[n][0] and content(g1[n]) in ([], [("0", "")]):
                        continue   # declare -a on a readonly unset name: still no value to speak of
                    out.append(("readonly %s changed: %r -> %r" % (n, g0[n], g1.get(n)),
                                "KF-C09-readonly-elem" if writes_elem(a, n) else None))
        # O5 local restores
        if a[0] == "C" and a[2][0] == "f" and a[2][1]:
            first = a[2][1][0]
            if first[0] == "C" and not first[1] and first[2][0] == "b" and first[2][1][0] == "d" and first[2][1][1] == "l":
                n = first[2][1][3][1]
                ok_flags = not any(f == "r" and s == "+" for s, f in first[2][1][2])
                rest = a[2][1][1:]
                if ok_flags and not any(mentions(x, n, is_unset_or_g) for x in rest) and not any(t[0] == n for t in a[1]):
                    if g0.get(n) != g1.get(n) and not (n in g0 and "r" in g0[n][0]):
                        out.append(("global %s changed across a call whose body starts with `local %s`: %r -> %r"
                                    % (n, n, g0.get(n), g1.get(n)), None))
        # O6 attribute transforms on a plain top-level scalar assignment
        if a[0] == "=" and a[2] is None and a[3][0] == "s" and not a[4] and a[1] in g0 and a[1] in g1:
            attrs, vk, items = g1[a[1]]
            if g0[a[1]][1] == "S" and vk == "S" and "r" not in attrs:
                val, src = items[0][1], a[3][1]
                if "i" in attrs:
                    want = arith_lit(src)
                    if want is None:
                        out.append(("integer variable %s assigned %r holds %r (arithmetic evaluation expected)" % (a[1], src, val),
                                    "KF-C09-integer-attr"))
                    elif val != want:
                        out.append(("integer variable %s assigned %r holds %r, expected %r" % (a[1], src, val, want), None))
                elif "l" in attrs and val != src.lower():
                    out.append(("lowercase variable %s assigned %r holds %r" % (a[1], src, val), None))
                elif "u" in attrs and val != src.upper():
                    out.append(("uppercase variable %s assigned %r holds %r" % (a[1], src, val), None))
                elif not (set(attrs) & set("iluc")) and val != src:
                    out.append(("variable %s assigned %r holds %r" % (a[1], src, val), None))
        prev = st
    return out


def arith_lit(s):
    """value of s when it is a plain decimal literal (what needs no arithmetic evaluation); None otherwise"""
    if re.fullmatch(r"[+-]?[1-9][0-9]*|[+-]?0", s):
        return str(int(s))
    if s == "":
        return "0"
    return None


# ------------------------------------------------------------------ run

def run_sh(ctx, progs):
    rendered = [render(p) for p in progs]
    impl = ctx.impl("envsh", [h for h, _ in rendered], shards=12)
    model = ctx.model("c09sh", [m for _, m in rendered])
    return rendered, impl, model


def run(ctx):
    mism, specv, apiv = [], [], []
    # API level
    api_cases, nex = gen_api(ctx)
    a_impl = ctx.impl("envapi", api_cases)
    a_model = ctx.model("c09api", api_cases)
    for c, il, ml in zip(api_cases, a_impl, a_model):
        if il != ml:
            mism.append({"level": "api", "ops": c, "code": core.dec_line(il)[-60:] if not il.startswith("PANIC") else il,
                         "model": core.dec_line(ml)[-60:]})
        if il.startswith(("PANIC", "DIED", "TIMEOUT")):
            apiv.append({"input": {"api_ops": c}, "why": "the API sequence did not complete: %s" % il[:200]})
            continue
        for why, kn in check_api(c, core.dec_line(il)):
            apiv.append({"input": {"api_ops": c}, "why": why})
    # shell level
    g = Gen(ctx.rng)
    progs = [g.program() for _ in range(1500 if ctx.quick else 20000)]
    progs = WITNESSES + progs
    rendered, impl, model = run_sh(ctx, progs)
    nontriv = set()
    dist = {}
    for p, (h, m), il, ml in zip(progs, rendered, impl, model):
        if il != ml:
            mism.append({"level": "shell", "script": h[1:], "code": il[:2000] if il.startswith(("PANIC", "DIED", "TIMEOUT")) else diff_fields(il, ml)})
        if il.startswith(("PANIC", "DIED", "TIMEOUT")):
            specv.append({"input": {"script": h[1:]}, "why": "the shell did not complete the program: %s" % il[:200]})
            continue
        recs = parse_records(core.dec_line(il))
        for why, kn in check_program(p, recs):
            v = {"input": {"script": h[1:]}, "why": why}
            if kn:
                v["known"] = kn
            specv.append(v)
        kinds = set()
        count_kinds(p, kinds, dist)
        if {"f", "temp"} & kinds and len(kinds) >= 3:
            nontriv.add(repr(p))
    specv, apiv = dedup(specv), dedup(apiv)
    # shell programs first (they read as programs), API sequences interleaved so that both levels are reported
    unknown = [v for v in specv if not v.get("known")]
    specv = unknown[:3] + apiv[:2] + unknown[3:] + [v for v in specv if v.get("known")] + apiv[2:]
    # differential part of the verdict: flat programs over every writer / attribute of the property, brush vs bash
    from props import c09_bash
    bprogs = c09_bash.gen_programs(ctx)
    btexts, bbr, bba = c09_bash.run_all(ctx, bprogs)
    bstat = {"programs": len(bprogs), "steps_compared": 0, "programs_equal_to_bash": 0, "by_family": {}, "known": {}}
    bviol = []
    for bp, bt, x, y in zip(bprogs, btexts, bbr, bba):
        n, vs = c09_bash.compare(bp, x, y)
        bstat["steps_compared"] += n
        bstat["by_family"][bp["family"]] = bstat["by_family"].get(bp["family"], 0) + 1
        if not vs:
            bstat["programs_equal_to_bash"] += 1
        for why, kn in vs:
            v = {"input": {"script": bt.replace(c09_bash.PROBE + "\n", "")}, "why": "bash parity: " + why}
            if kn:
                v["known"] = kn
                bstat["known"][kn] = bstat["known"].get(kn, 0) + 1
            bviol.append(v)
    bviol = dedup(bviol)
    unknown_b = [v for v in bviol if not v.get("known")]
    specv = unknown_b[:2] + specv + unknown_b[2:] + [v for v in bviol if v.get("known")]
    svb = bash_second_opinion(ctx, progs, rendered, impl, 150 if ctx.quick else 4000)
    # extraction cross-check
    idx = ctx.rng.sample(range(len(progs)), 24)
    ce = ctx.coq_eval("c09sh", [rendered[i][1] for i in idx])
    xbad = [i for i, v in zip(idx, ce) if v != model[i]]
    idx2 = ctx.rng.sample(range(len(api_cases)), 24)
    ce2 = ctx.coq_eval("c09api", [api_cases[i] for i in idx2])
    xbad2 = [i for i, v in zip(idx2, ce2) if v != a_model[i]]
    if xbad or xbad2:
        raise core.CheckBroken("extracted runner and vm_compute disagree (sh %r api %r)" % (xbad[:1], xbad2[:1]))
    return {
        "evaluations": len(api_cases) + len(progs) + len(bprogs),
        "distinct_nontrivial": len(nontriv) + len({repr(c) for c in api_cases[:nex]}),
        "rule": "API level: all op sequences up to length %d over a 31-op alphabet on ShellEnvironment/ShellVariable "
                "(push/pop, update_or_add with 4 policies x 3 creation scopes, array-element update, add, unset, unset_index, "
                "assign, assign_at_index, readonly/export/integer/transform flags, conversions) followed by child+get (%d cases), "
                "plus random sequences of 3..11 ops over 2 names; shell level: random programs of 4..11 steps from the action "
                "grammar (assignment, +=, array and element assignment, declare/local/readonly with attribute flags, export, "
                "unset, for, read, printf -v, (( )), ${v:=}), function calls to depth 3, temporary-assignment prefixes on "
                "builtins, functions, externals (/usr/bin/env) and unknown commands, probes inside bodies; state dumped after "
                "every step. non-trivial (shell) = contains a function call or a temporary prefix and >= 3 distinct action kinds; "
                "(api) = each exhaustive sequence" % (2 if ctx.quick else 3, nex),
        "samples": [{"script": rendered[len(WITNESSES)][0][1:]}, {"api": api_cases[nex]}, {"api": api_cases[nex - 1]}],
        "distribution": dist,
        "extraction_crosscheck": {"cases": len(idx) + len(idx2), "agree": len(idx) + len(idx2) - len(xbad) - len(xbad2)},
        "model_mismatches": mism,
        "spec_violations": specv,
        "spec_vs_bash": svb,
        "notes": "proof-backed (Coq model + theorems + correspondence): scope stack, lookup policies, locals, prefix assignments, "
                 "export/child environment, readonly invariant, transforms of plain assignments (API and in-process shell level). "
                 "differential only (brush vs /usr/bin/bash, declare -p after every step, part of the verdict): every writer of the "
                 "property's list (=, +=, element writes, compound assignment, read, read -a, printf -v, printf -v 'n[k]', for, (( )), "
                 "${n:=}, ${n[k]:=}, mapfile, getopts, prefix assignments, export/declare/readonly n=v, unset, unset 'n[k]') against "
                 "every declared-but-unset typed variable (-a -A -i -l -u -c -x, combinations, global and function-local), attribute "
                 "removal/re-declaration sequences, random flat programs: %s" % bstat,
    }


def dedup(vs):
    seen, out = {}, []
    for v in vs:
        key = (v.get("known"), re.sub(r"[0-9]+", "#", v["why"])[:60])
        seen[key] = seen.get(key, 0) + 1
        if seen[key] <= (1 if v.get("known") else 3):
            out.append(v)
    return out


def diff_fields(il, ml):
    a, b = core.dec_line(il), core.dec_line(ml)
    k = 0
    while k < min(len(a), len(b)) and a[k] == b[k]:
        k += 1
    return {"first_difference_at_field": k, "code": a[max(0, k - 12):k + 25], "model": b[max(0, k - 12):k + 25]}


def count_kinds(p, kinds, dist):
    for a in p:
        k = a[0]
        if k == "C":
            if a[1]:
                kinds.add("temp"); dist["temp-prefix"] = dist.get("temp-prefix", 0) + 1
            c = a[2]
            k = c[0] if c[0] != "b" else "b:" + c[1][0]
            if c[0] == "f":
                count_kinds(c[1], kinds, dist)
        kinds.add(k)
        dist[k] = dist.get(k, 0) + 1


def P(tag):
    return ("C", [], ("b", ("p", tag)))


def D(verb, flags, decl):
    return ("C", [], ("b", ("d", verb, flags, decl)))


# witnesses of the refuted statements (replayed on the code on every run)
WITNESSES = [
    # exported global shines through an unexported local
    [("=", "va", None, ("s", "1"), False), ("C", [], ("b", ("e", "va", None, False))),
     ("C", [], ("f", [D("l", [], ("s", "va", "2")), P("e9001"), ("C", [], ("x",))]))],
    # readonly: element assignment, element unset
    [D("r", [], ("a", "va", [(None, "1")])), ("=", "va", "0", ("s", "x"), False), ("C", [], ("b", ("ue", "va", "0")))],
    # readonly global shadowed by a local / by a temporary assignment
    [D("r", [], ("s", "va", "1")), ("C", [], ("f", [D("l", [], ("s", "va", "5")), P("t9002")])),
     ("C", [("va", None, ("s", "2"), False)], ("b", ("p", "t9003")))],
    # integer attribute
    [D("d", [("-", "i")], ("s", "va", "0")), ("=", "va", None, ("s", "1+2"), False)],
    # nested temporary assignment of the same name
    [("C", [("va", None, ("s", "1"), False)], ("f", [P("sb9004"), ("C", [("va", None, ("s", "2"), False)], ("b", (":",))), P("sa9004")]))],
]


# ------------------------------------------------------------------ bash as a second opinion

def bash_script(h):
    """the same program for /usr/bin/bash: probes become no-ops, the global view is printed after every step"""
    setup, steps = h[1], h[2:]
    out = ["__probe() { :; }", "__T() { declare -p va 2>/dev/null || echo 'none va'; declare -p vb 2>/dev/null || echo 'none vb'; echo @@T; }",
           setup]
    for st in steps:
        out.append(st)
        out.append("__T")
    return "\n".join(out) + "\n"


def canon_decl(line):
    """`declare -ai va=([0]="1")` -> (flags, value) ; value = str | tuple of (k,v) | None"""
    m = re.match(r"declare -([-A-Za-z]+) (v[ab])(?:=(.*))?$", line)
    if not m:
        return None
    flags = "".join(sorted(set(m.group(1)) & set("aAilrux")))
    v = m.group(3)
    if v is None:
        return (flags, None)
    if v.startswith("("):
        items = tuple(re.findall(r"\[([^\]]*)\]=\"((?:[^\"\\\\]|\\\\.)*)\"", v))
        return (flags, tuple((k.strip('"'), x) for k, x in items))
    return (flags, v[1:-1] if len(v) >= 2 and v[0] == '"' else v)


def canon_binding(b):
    if b is None:
        return None
    attrs, vk, items = b
    fl = set(attrs) & set("ilrux")
    if vk in ("I", "Ua"):
        fl.add("a")
    if vk in ("A", "UA"):
        fl.add("A")
    flags = "".join(sorted(fl))
    if vk.startswith("U"):
        return (flags, None)
    if vk == "S":
        return (flags, items[0][1])
    return (flags, tuple(items))


def bash_second_opinion(ctx, progs, rendered, impl, limit):
    """per-step comparison of the global view with bash; counts only (bash-parity of every writer is not this check's claim)"""
    import subprocess, concurrent.futures
    idx = list(range(len(progs)))[:limit]

    def run(i):
        rc, o, _ = core.run_in_group(["/usr/bin/bash", "--norc", "--noprofile", "-c", bash_script(rendered[i][0])], 30,
                                     stderr=subprocess.DEVNULL, env={"PATH": "/usr/bin:/bin"})
        return o.decode("utf-8", "replace") if rc is not None else ""
    with concurrent.futures.ThreadPoolExecutor(max_workers=8) as ex:
        outs = list(ex.map(run, idx))
    stat = {"programs": 0, "steps_compared": 0, "steps_agree": 0, "programs_agree_everywhere": 0, "child_envs_compared": 0,
            "child_envs_agree": 0}
    examples = []
    for i, out in zip(idx, outs):
        if impl[i].startswith(("PANIC", "DIED", "TIMEOUT")):
            continue
        recs = parse_records(core.dec_line(impl[i]))
        if recs is None:
            continue
        chunks = out.split("@@T\n")[:-1]
        if len(chunks) != len(recs):
            continue
        stat["programs"] += 1
        allok = True
        for k, (ch, (obs, st)) in enumerate(zip(chunks, recs)):
            lines = ch.split("\n")
            bash_view = {}
            envs, cur = [], []
            for l in lines:
                if l == "@@E":
                    envs.append(sorted(x for x in cur if x.split("=")[0] in NAMES)); cur = []
                elif l.startswith("declare "):
                    c = canon_decl(l)
                    if c:
                        bash_view[l.split(" ")[2].split("=")[0]] = c
                elif re.match(r"[A-Za-z_][A-Za-z0-9_]*=", l):
                    cur.append(l)
            g = st[0][1] if st else {}
            same = all(canon_binding(g.get(n)) == bash_view.get(n) for n in NAMES)
            stat["steps_compared"] += 1
            stat["steps_agree"] += 1 if same else 0
            benv = [sorted("%s=%s" % kv for kv in o[1]) for o in obs if o[0] == "E"]
            for a, b in zip(benv, envs):
                stat["child_envs_compared"] += 1
                stat["child_envs_agree"] += 1 if a == b else 0
            if not same:
                allok = False
                if len(examples) < 5:
                    examples.append({"step": rendered[i][0][2 + k], "brush": {n: canon_binding(g.get(n)) for n in NAMES},
                                     "bash": {n: bash_view.get(n) for n in NAMES}})
        stat["programs_agree_everywhere"] += 1 if allok else 0
    stat["first_disagreements"] = examples
    return stat


def search(ctx, res):
    import random
    rng = random.Random(ctx.seed + 7)
    g = Gen(rng)
    progs = [g.program() for _ in range(6000)]
    rendered = [render(p) for p in progs]
    impl = ctx.impl("envsh", [h for h, _ in rendered], shards=12)
    specv = []
    for p, (h, m), il in zip(progs, rendered, impl):
        if il.startswith(("PANIC", "DIED", "TIMEOUT")):
            specv.append({"input": {"script": h[1:]}, "why": "the shell did not complete the program: %s" % il[:200]})
            continue
        for why, kn in check_program(p, parse_records(core.dec_line(il))):
            if not kn:
                specv.append({"input": {"script": h[1:]}, "why": why})
    specv.sort(key=lambda v: len(repr(v["input"])))
    return {"evaluations": len(progs), "spec_violations": specv[:5]}


def run_code_only(ctx):
    r = search(ctx, {})
    r.update({"distinct_nontrivial": r["evaluations"], "rule": "code vs python oracles only (model did not build)", "samples": []})
    return r
