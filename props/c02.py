"""C02 — control flow and exit statuses of compound commands equal bash's."""
from vlib import core
from props import c02gen as sg

PID = "C02"
ENTRIES = {"cf_model": ("Shell.Entry", "entry_cf_model"), "cf": ("Shell.Entry", "entry_cf")}
TRUSTED = []
ASSUMPTIONS = []
FUEL = 60


def parse_impl(line):
    if line.startswith(("PANIC", "DIED", "TIMEOUT")):
        return None
    f = line.split(" ")
    return {"status": f[0], "flow": f[1], "last": f[2], "out": core.unhx(f[3]).decode("utf-8", "replace")}


def parse_model(line):
    f = core.dec_line(line)
    if not f or f[0] != "ok":
        return {"kind": f[0] if f else "?"}
    return {"kind": "ok", "status": f[1], "flow": f[2], "last": f[3], "out": f[4], "ghost": f[5]}


def run(ctx):
    n = 3000 if ctx.quick else 30000
    progs = []
    for i in range(n):
        g = sg.Gen(ctx.rng, opts=False, maxdepth=ctx.rng.choice([2, 3, 4, 5]), budget=ctx.rng.choice([8, 15, 30, 45]))
        progs.append(g.program())
    model = [parse_model(l) for l in ctx.model("cf_model", [[str(FUEL)] + sg.encode(p) for p in progs])]
    keep = [i for i, m in enumerate(model) if m["kind"] == "ok"]
    impl = ctx.impl("c02", [[sg.render(progs[i])] for i in keep])
    mism = []
    for i, il in zip(keep, impl):
        r = parse_impl(il)
        m = model[i]
        if r is None or any(r[k] != m[k] for k in ("status", "flow", "last", "out")):
            mism.append({"script": sg.render(progs[i]), "code": r or il, "model": m})
    return {"evaluations": len(keep), "distinct_nontrivial": len(keep), "rule": "wip", "samples": [],
            "distribution": {"fuel_out": n - len(keep)}, "model_mismatches": mism, "spec_violations": []}
