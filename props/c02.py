"""C02 — control flow and exit statuses of compound commands equal bash's."""
from vlib import core
from props import c02gen as sg
from props import c02lib as lib

PID = "C02"
ENTRIES = {"cf": ("Shell.Entry", "entry_cf"), "cf_model": ("Shell.Entry", "entry_cf_model")}
TRUSTED = [
    "modelled, not verified (tied by differential execution every run): brush-core/src/interp.rs Execute impls for Program, "
    "CompoundList, AndOrList, Pipeline (+ wait_for_pipeline_processes_and_update_status), CompoundCommand (brace group, subshell), "
    "ForClause, ArithmeticFor, CaseClause, IfClause, WhileOrUntil, ArithmeticCommand, FunctionDefinition; results.rs "
    "try_decrement_loop_levels; commands.rs invoke_shell_function; shell.rs apply_errexit_if_enabled; builtins break/continue/return/exit/set",
    "leaves are scripted (echo mK, true/false, (exit n), echo \"?=$?\", (( cV++ < n ))): word expansion, pattern matching of case "
    "(patterns are the literals x / y) and arithmetic are outside this model",
    "the specification is a Gallina interpreter in the style of bash's execute_cmd.c; it is validated against /usr/bin/bash 5.2.15 "
    "by differential runs (spec_vs_bash), not proved against bash's source",
    "multi-stage pipelines are modelled, specified and tested, but excluded from the simulation theorem (scope class P)",
    "not modelled: the Err that leaves Pipeline::execute when a function called from a pipeline stage lets a break/continue escape "
    "(programs of the open class stray-break with Scope.v stage_call_hazard): there brush is compared with spec/bash only "
    "(distribution.known/model_not_applicable_stage_call)",
    "brush's parser is outside the model: the renderer terminates every subshell body that mentions `esac` with `;` (finding "
    "KF-C02-esac-rparen, class = Scope.v parser_hazard + brush rejecting the script)",
]
ASSUMPTIONS = ["bash 5.2 (compat level > 44: loop_level reset in subshells) is the reference",
               "stdout of the shell is a regular file (no SIGPIPE); non-final pipeline stages are silent"]


def gen_programs(ctx, n, opts=False):
    progs = []
    for i in range(n):
        g = sg.Gen(ctx.rng, opts=opts, scoped=ctx.rng.choice([1.0, 1.0, 1.0, 0.97, 0.9, 0.5]),
                   maxdepth=ctx.rng.choice([2, 3, 4, 5]), budget=ctx.rng.choice([8, 15, 30, 45]),
                   pipes=ctx.rng.choice([0.0, 0.0, 0.03, 0.1]))
        progs.append(g.program())
    return progs


def result(ctx, ev, progs, extra_rule=""):
    st = ev["stats"]
    return {
        "evaluations": ev["evaluated"],
        "distinct_nontrivial": ev["distinct"],
        "rule": "programs from a typed grammar of the control constructs (lists, && || !, pipelines, brace groups, subshells, if/elif/else, "
                "while/until over counter conditions, for / arithmetic for, case with ;; ;& ;;&, function definitions and calls, "
                "break/continue/return/exit with counts 0..5) with depth<=5 and <=45 nodes, an `echo \"?=$?\"` probe after about every "
                "second command; each is run by the extracted model+spec (fuel %d; programs that run out of fuel are dropped), by brush in "
                "process (status, control flow, $?, stdout) and, when brush differs from the spec, by bash. non-trivial = terminates, prints "
                ">=2 lines and contains a compound/and-or/! construct; counted distinct by script text. %s" % (lib.FUEL, extra_rule),
        "samples": [sg.render(progs[i]) for i in ev["keep"][:3]],
        "distribution": {"constructs": ev["constructs"], "dropped_out_of_fuel": st["fuel_out"],
                         "inside_theorem_hypotheses": st["in_theorem"], "outside_only_multistage_pipelines": st["outside_theorem_pipes_only"],
                         "known_divergence_hits": st["known_class"], "repaired_upstream": st["repaired_upstream"]},
        "spec_vs_bash": ev["spec_vs_bash"],
        "model_mismatches": ev["mism"],
        "spec_violations": ev["specv"],
    }


def run(ctx):
    wit = lib.witnesses()
    progs = [wit[k] for k in sorted(wit) if k != "w_compound"] + gen_programs(ctx, 4000 if ctx.quick else 40000)
    ev = lib.evaluate(ctx, progs, bash_sample=400 if ctx.quick else 40000)
    res = result(ctx, ev, progs)
    res["spec_violations"] += lib.text_probes(ctx)
    res["extraction_crosscheck"] = lib.crosscheck(ctx, progs)
    if ev["spec_vs_bash"]["disagree"]:
        ctx.notes.append("spec disagrees with bash on %d sampled programs (see spec_vs_bash)" % len(ev["spec_vs_bash"]["disagree"]))
    return res


def search(ctx, res):
    """extended search: more programs, biased to well-scoped ones (where any difference is a new violation)"""
    import random
    sub = type(ctx)(ctx.pid, ctx.tier, ctx.seed + 1)
    sub.runner, sub.harness, sub.vbrush = ctx.runner, ctx.harness, ctx.vbrush
    progs = gen_programs(sub, 30000)
    ev = lib.evaluate(sub, progs)
    specv = [v for v in ev["specv"] if not v.get("known")] or ev["specv"][:3]
    specv.sort(key=lambda v: len(v["input"]))
    return {"evaluations": ev["evaluated"], "spec_violations": specv[:5]}


def run_code_only(ctx):
    raise core.CheckBroken("the specification oracle is the extracted Coq spec; it did not build")
