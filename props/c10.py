"""C10 — redirections give each command bash's descriptors and are undone afterwards; noclobber;
here-documents byte-exact."""
import os, re, shutil, subprocess, threading
from concurrent.futures import ThreadPoolExecutor
from vlib import core

PID = "C10"
ENTRIES = {"c10_run": ("Redir.Entry", "entry_c10_run"),
           "c10_here": ("Redir.HereEntry", "entry_c10_here"),
           "c10_hexp": ("Redir.HereExpEntry", "entry_c10_hexp")}
TRUSTED = [
    "modelled, not verified: brush-core/src/interp.rs setup_redirect / setup_redirect_output_and_error_to / "
    "setup_open_file_with_contents, ExecutionParameters::try_fd, the redirect loops of SimpleCommand::execute_in_pipeline, "
    "Command::Compound and commands.rs invoke_shell_function, error propagation of failed redirections, "
    "commands.rs compose_std_command (child's 0/1/2 and injected descriptors), builtins exec.rs (no-argument branch), "
    "openfiles.rs OpenFiles (Open/NotPresent/NotSpecified), brush-parser tokenizer.rs here-document state "
    "(InHereDocs character loop, remove_here_end_tag, delimit_current_token queueing, unquote_str), peg.rs io_here requires_expansion",
    "kernel semantics of open/write/read/dup on regular files, /dev/null and pipes (Redir/FdTable.v k_open, k_write, k_read_all): "
    "shared by model and spec, exercised for real by every process-level case",
    "the observer programs: builtin echo, the POSIX-sh script `fdprobe` written by this driver (reads /proc/$$/fd and fdinfo), /bin/sh",
    "diagnostic texts are inputs of the model (brush's wording / bash's wording); which descriptor receives them is modelled",
]
ASSUMPTIONS = ["descriptors 0-9; targets are three scratch files and /dev/null; the shell is started with 0, 1, 2 on three distinct regular files",
               "no concurrent writers: every observed command runs to completion before the next starts (no pipelines or background jobs in the generated programs)",
               "here-document tie: first line made of plain words and here-document operators; text after the last end tag has no quoting characters"]

NAMES = {0: "/dev/null", 4: "a", 5: "b", 6: "c"}
KOP = {"r": "<", "w": ">", "a": ">>", "x": "<>", "c": ">|"}

# ------------------------------------------------------------------ the observer script

FDPROBE = r"""#!/bin/sh
# fdprobe TAG : report the descriptors 0..9 this process was started with.
tag=$1
me=$$
set=
modes=
for n in 0 1 2 3 4 5 6 7 8 9; do
  if [ -e /proc/$me/fd/$n ]; then
    set=$set$n
    f=$(cat /proc/$me/fdinfo/$n)
    f=${f#*flags:}
    f=${f%%mnt_id*}
    for x in $f; do f=$x; done
    case $f in
      *0) modes="$modes r" ;;
      *1) modes="$modes w" ;;
      *2) modes="$modes b" ;;
      *) modes="$modes x" ;;
    esac
  else
    modes="$modes -"
  fi
done
set -- $modes
m0=$1; m1=$2
if [ "$m0" = r ] || [ "$m0" = b ]; then
  data=$(cat <&0 | tr '\000' '@'; echo x)
  data=${data%x}
  if [ "$m1" = w ] || [ "$m1" = b ]; then
    printf '%s<%s>\n' "$tag" "$data" >&1
  fi
fi
n=0
for m in $modes; do
  if [ "$m" = w ] || [ "$m" = b ]; then
    eval "printf '%s:%s:%s\n' \"\$tag\" $n \"\$set\" >&$n"
  fi
  n=$((n+1))
done
exit 0
"""

# ------------------------------------------------------------------ programs
# redir: ("f", n, kind, path) | ("d", n, out, src) | ("c", n, out) | ("b", path, app) | ("w", n, path)
#        | ("h", n, body, strip?) | ("s", n, word)          n = None or int
# cmd:   ("S", rs, ("e"|"p", tag), split) | ("X", rs) | ("G", kind, rs, body) | ("F", drs, crs, body)


def gen_redir(rng, fds, nc):
    r = rng.random()
    n = rng.choice(fds) if rng.random() < 0.6 else None
    path = rng.choice([4, 4, 5, 5, 6, 6, 0])
    if r < 0.40:
        k = rng.choice("rwwwaaxc")
        if k == "r" and path == 6 and rng.random() < 0.7:
            path = 4
        return ("f", n, k, path)
    if r < 0.62:
        src = rng.choice([0, 1, 1, 2, 2]) if rng.random() < 0.8 else rng.choice(fds)
        return ("d", n, rng.random() < 0.75, src)
    if r < 0.70:
        if n is not None and n < 3 and rng.random() < 0.6:
            n = rng.choice([3, 4, 5])
        return ("c", n if n is not None or rng.random() < 0.3 else rng.choice([3, 4]), rng.random() < 0.7)
    if r < 0.80:
        return ("b", path, rng.random() < 0.4)
    if r < 0.84:
        return ("w", n if rng.random() < 0.3 else None, rng.choice([4, 5, 6]))
    if r < 0.92:
        val, word = rng.choice([("hs", "hs"), ("W", "W"), ("x1", "x1"), ("a b", '"a b"'), (XVAL, "$x"), (XVAL + "!", '"$x"!'),
                                ("q $x", "'q $x'"), ("a b", "a\\ b"), ("", '""')])
        return ("s", n if rng.random() < 0.4 else None, val, word)
    return gen_heredoc(rng, n if rng.random() < 0.4 else None)


XVAL = "Xv al"
HLINES = ["l1", "two words", "\ttab", "\t\tEOF x", "$x \\ '\"", "EOFX", " EOF", "a $x b", "${x}", "\\$x", "\\\\", "q\\q", "'$x'", ""]
HLINES_BSNL = HLINES + ["cont\\", "\tc2\\", "\\\\\\", "a ) b", "( c", "d\"q"]
KF_SUBST = "KF-C10-heredoc-in-command-substitution-special-chars"


def expand_doc(body):
    """bash: in a here-document with an unquoted delimiter: $x / ${x} expand, backslash quotes only $ ` \\ and
    removes a following newline"""
    out = []
    i = 0
    while i < len(body):
        c = body[i]
        if c == "\\" and i + 1 < len(body) and body[i + 1] in "$`\\":
            out.append(body[i + 1]); i += 2
        elif c == "\\" and i + 1 < len(body) and body[i + 1] == "\n":
            i += 2
        elif body.startswith("${x}", i):
            out.append(XVAL); i += 4
        elif body.startswith("$x", i):
            out.append(XVAL); i += 2
        else:
            out.append(c); i += 1
    return "".join(out)


def gen_heredoc(rng, n):
    lines = [rng.choice(HLINES) for _ in range(rng.randrange(0, 4))]
    strip = rng.random() < 0.35
    mode = rng.choice(["sq", "sq", "bs", "dq", "plain", "plain"])
    tagtok = {"sq": "'EOF'", "bs": "\\EOF", "dq": '"EOF"', "plain": "EOF"}[mode]
    lines = [l + "x" if (l.lstrip("\t") if strip else l) == "EOF" else l for l in lines]
    raw = "".join(l + "\n" for l in lines)
    doc = "".join((l.lstrip("\t") if strip else l) + "\n" for l in lines)
    cls6 = False
    if mode == "plain":
        cls6 = "\\\n" in doc
        doc = expand_doc(doc)
    return ("h", n, doc, raw, tagtok, strip, cls6)


def gen_redirs(rng, nc, maxlen=4, p_empty=0.25):
    if rng.random() < p_empty:
        return []
    wide = rng.random() < 0.35
    fds = list(range(10)) if wide else [0, 1, 2, 3, 4]
    k = rng.choice([1, 1, 2, 2, 3, 4])
    return [gen_redir(rng, fds, nc) for _ in range(min(k, maxlen))]


class Tags:
    def __init__(self):
        self.n = 0

    def next(self):
        self.n += 1
        return "t%d" % self.n


def gen_cmd(rng, nc, depth, tags, p_exec=0.08):
    r = rng.random()
    if depth <= 0 or r < 0.55:
        if rng.random() < p_exec:
            return ("X", gen_redirs(rng, nc, p_empty=0.0))
        rs = gen_redirs(rng, nc)
        return ("S", rs, (rng.choice("ep"), tags.next()), rng.randrange(0, len(rs) + 1))
    if r < 0.85:
        body = [gen_cmd(rng, nc, depth - 1, tags, p_exec) for _ in range(rng.randrange(1, 4))]
        return ("G", rng.choice("bsl"), gen_redirs(rng, nc, p_empty=0.15), body)
    body = [gen_cmd(rng, nc, depth - 1, tags, p_exec) for _ in range(rng.randrange(1, 3))]
    return ("F", gen_redirs(rng, nc, p_empty=0.3), gen_redirs(rng, nc, p_empty=0.5), body)


def gen_prog(rng, nc):
    tags = Tags()
    n = rng.choice([1, 1, 2, 2, 3])
    prog = [gen_cmd(rng, nc, 2, tags) for _ in range(n)]
    if rng.random() < 0.15:
        # `exec cmd redirections` as the last command: the shell is replaced by the observer, which must get the same descriptors
        safe = [("f", rng.choice([3, 5, 9]), "a", rng.choice([4, 5])), ("d", rng.choice([4, 7]), True, rng.choice([1, 2])),
                ("s", None, "ex", "ex"), ("f", None, "a", 6), ("c", rng.choice([6, 8]), True)]
        prog.append(("S", rng.sample(safe, rng.randrange(0, 3)), ("p", "end"), 0, True))
    else:
        prog.append(("S", [], ("p", "end"), 0))
    return prog


def opt(n):
    return "" if n is None else str(n)


def enc_redir(r):
    t = r[0]
    if t == "f":
        return ["f", opt(r[1]), r[2], str(r[3])]
    if t == "d":
        return ["d", opt(r[1]), "1" if r[2] else "0", str(r[3])]
    if t == "c":
        return ["c", opt(r[1]), "1" if r[2] else "0"]
    if t == "b":
        return ["b", str(r[1]), "1" if r[2] else "0"]
    if t == "w":
        return ["w", opt(r[1]), str(r[2])]
    if t == "h":
        return ["h", opt(r[1]), r[2]]
    if t == "s":
        return ["s", opt(r[1]), r[2]]
    raise ValueError(r)


def enc_redirs(rs):
    out = [str(len(rs))]
    for r in rs:
        out += enc_redir(r)
    return out


def enc_cmd(c):
    t = c[0]
    if t == "S":
        return ["S"] + enc_redirs(c[1]) + [c[2][0], c[2][1]]
    if t == "X":
        return ["X"] + enc_redirs(c[1])
    if t == "G":
        return ["G", c[1]] + enc_redirs(c[2]) + [str(len(c[3]))] + [x for b in c[3] for x in enc_cmd(b)]
    if t == "F":
        return ["F"] + enc_redirs(c[1]) + enc_redirs(c[2]) + [str(len(c[3]))] + [x for b in c[3] for x in enc_cmd(b)]
    raise ValueError(c)


class Render:
    """shell text of a program; here-document bodies are queued in the order their operators appear"""

    def __init__(self):
        self.docs = []
        self.nf = 0

    def redir(self, r):
        t = r[0]
        if t == "f":
            return "%s%s%s" % (opt(r[1]), KOP[r[2]], NAMES[r[3]])
        if t == "d":
            return "%s%s&%d" % (opt(r[1]), ">" if r[2] else "<", r[3])
        if t == "c":
            return "%s%s&-" % (opt(r[1]), ">" if r[2] else "<")
        if t == "b":
            return "&>%s%s" % (">" if r[2] else "", NAMES[r[1]])
        if t == "w":
            return "%s>&%s" % (opt(r[1]), NAMES[r[2]])
        if t == "s":
            return "%s<<<%s" % (opt(r[1]), r[3] if len(r) > 3 else r[2])
        if t == "h":
            self.docs.append(r[3] + ("\t" if r[5] else "") + "EOF\n")
            return "%s<<%s%s" % (opt(r[1]), "-" if r[5] else "", r[4])
        raise ValueError(r)

    def redirs(self, rs):
        return " ".join(self.redir(r) for r in rs)

    def cmd(self, c):
        t = c[0]
        if t == "S":
            words = ("echo %s" if c[2][0] == "e" else "fdprobe %s") % c[2][1]
            if len(c) > 4 and c[4]:
                words = "exec " + words
            pre = self.redirs(c[1][:c[3]])
            post = self.redirs(c[1][c[3]:])
            return " ".join(x for x in (pre, words, post) if x)
        if t == "X":
            return "exec " + self.redirs(c[1])
        if t == "G":
            if c[1] == "b":
                head = "{ "
                body = "; ".join(self.cmd(b) for b in c[3])
                s = head + body + "; }"
            elif c[1] == "s":
                # `( (` is kept apart from the arithmetic command `((`: brush reads "( ( x ) )" as arithmetic (not this property)
                first = ":; " if c[3] and c[3][0][0] == "G" and c[3][0][1] == "s" else ""
                s = "( " + first + "; ".join(self.cmd(b) for b in c[3]) + " )"
            else:
                s = "for i in 1 2; do " + "; ".join(self.cmd(b) for b in c[3]) + "; done"
            rs = self.redirs(c[2])
            return s + (" " + rs if rs else "")
        if t == "F":
            self.nf += 1
            name = "fn%d" % self.nf
            body = "; ".join(self.cmd(b) for b in c[3])
            drs = self.redirs(c[1])
            crs = self.redirs(c[2])
            return "%s() { %s; }%s; %s%s" % (name, body, " " + drs if drs else "", name, " " + crs if crs else "")
        raise ValueError(c)

    def script(self, prog):
        line = "; ".join(self.cmd(c) for c in prog)
        if not self.docs:
            return line
        return line + "\n" + "".join(self.docs)


# ------------------------------------------------------------------ diagnostics tables

RED = "\x1b[31merror:\x1b[39m "


def brush_msgs(d):
    texts = {}
    for n in range(10):
        texts[(0, n)] = "bad file descriptor: %d" % n
    for p, name in NAMES.items():
        ap = name if name.startswith("/") else os.path.join(d, name)
        texts[(1, p)] = "failed to redirect to %s: No such file or directory (os error 2)" % ap
        texts[(2, p)] = "failed to redirect to %s: File exists (os error 17)" % ap
    for p in NAMES:
        texts[(3, p)] = "invalid redirection target"
    texts[(20, 0)] = "i/o error: I/O write error: standard output not available"
    texts[(21, 0)] = "i/o error: cannot write to stdin"
    texts[(22, 0)] = "i/o error: Bad file descriptor (os error 9)"
    texts[(23, 0)] = "i/o error: cannot write to pipe reader"
    texts[(24, 0)] = "i/o error: I/O write error: standard error not available"
    out = []
    for (k, a), t in sorted(texts.items()):
        out.append((0, k, a, "error: " + t + "\n"))
        out.append((1, k, a, RED + t + "\n"))
        out.append((2, k, a, RED + "echo: " + t + "\n"))
    return out


def bash_msgs(d, argv0="/usr/bin/bash"):
    texts = {}
    pre = "%s: line 1: " % argv0
    for n in range(10):
        texts[(0, n)] = "%d: Bad file descriptor" % n
    for p, name in NAMES.items():
        texts[(1, p)] = "%s: No such file or directory" % name
        texts[(2, p)] = "%s: cannot overwrite existing file" % name
        texts[(3, p)] = "%s: ambiguous redirect" % name
    for k in (20, 21, 22, 23):
        texts[(k, 0)] = "echo: write error: Bad file descriptor"
    texts[(24, 0)] = ""
    out = []
    for (k, a), t in sorted(texts.items()):
        for s in (0, 1, 2):
            out.append((s, k, a, pre + t + "\n"))
    return out


def enc_msgs(ms):
    out = [str(len(ms))]
    for s, k, a, t in ms:
        out += [str(s), str(k), str(a), t]
    return out


# ------------------------------------------------------------------ running the real shells

INPUT = "IN\n"


def make_case(rng, quick):
    nc = rng.random() < 0.3
    files = []
    for name in "abc":
        ex = rng.random() < (0.85 if name != "c" else 0.25)
        files.append((ex, ("OLD%s\n" % name.upper()) * rng.choice([1, 1, 3]) if ex else ""))
    prog = gen_prog(rng, nc)
    return {"nc": nc, "files": files, "prog": prog}


def model_fields(case, msgs):
    f = ["1" if case["nc"] else "0", INPUT]
    for ex, data in case["files"]:
        f += ["1" if ex else "0", data]
    f += enc_msgs(msgs)
    f += [str(len(case["prog"]))]
    for c in case["prog"]:
        f += enc_cmd(c)
    return f


def script_of(case):
    s = Render().script(case["prog"])
    return "x='%s'; " % XVAL + ("set -C; " if case["nc"] else "") + s


def run_group(argv, timeout, **kw):
    """run a child in its own session/process group; the whole group is killed on timeout and once the child is done
    (nothing a generated script started may outlive its case). -> (returncode or "timeout", stdout, stderr)"""
    import signal
    p = subprocess.Popen(argv, start_new_session=True, close_fds=True, **kw)
    try:
        out, err = p.communicate(timeout=timeout)
        rc = p.returncode
    except subprocess.TimeoutExpired:
        rc = "timeout"
        try:
            os.killpg(p.pid, signal.SIGKILL)
        except (ProcessLookupError, PermissionError):
            pass
        try:
            out, err = p.communicate(timeout=5)
        except subprocess.TimeoutExpired:
            out, err = b"", b""
    finally:
        try:
            os.killpg(p.pid, signal.SIGKILL)
        except (ProcessLookupError, PermissionError):
            pass
    return rc, out, err


def run_shell(shell_argv, case, d, bindir, executable=None):
    """run one case in directory d; returns dict name -> (exists, bytes)"""
    os.makedirs(d, exist_ok=True)
    for (ex, data), name in zip(case["files"], "abc"):
        if ex:
            open(os.path.join(d, name), "w").write(data)
    obs = os.path.join(d, ".obs")
    os.makedirs(obs, exist_ok=True)
    open(os.path.join(obs, "in"), "w").write(INPUT)
    env = {"PATH": bindir + ":/usr/bin:/bin", "HOME": d, "LANG": "C", "TERM": "dumb"}
    status = None
    with open(os.path.join(obs, "in"), "rb") as fi, open(os.path.join(obs, "out"), "wb") as fo, \
            open(os.path.join(obs, "err"), "wb") as fe:
        status, _, _ = run_group(shell_argv + ["-c", script_of(case)], 20, stdin=fi, stdout=fo, stderr=fe, cwd=d, env=env,
                                 executable=executable)
    res = {}
    for name, path in (("out", os.path.join(obs, "out")), ("err", os.path.join(obs, "err")),
                       ("a", os.path.join(d, "a")), ("b", os.path.join(d, "b")), ("c", os.path.join(d, "c"))):
        if os.path.exists(path):
            res[name] = (True, open(path, "rb").read().decode("utf-8", "replace"))
        else:
            res[name] = (False, "")
    if executable:
        for name in ("out", "err", "a", "b", "c"):
            res[name] = (res[name][0], re.sub(r"environment: line \d+: ", "environment: line 1: ", res[name][1]))
    extra = sorted(x for x in os.listdir(d) if x not in ("a", "b", "c", ".obs"))
    res["extra"] = extra
    res["status"] = status
    shutil.rmtree(d, ignore_errors=True)
    return res


def run_many(shell_argv, cases, root, bindir, workers=None, executable=None):
    workers = workers or max(2, min(8, (os.cpu_count() or 4) // 2))
    with ThreadPoolExecutor(max_workers=workers) as ex:
        futs = [ex.submit(run_shell, shell_argv, c, os.path.join(root, "k%d" % i), bindir, executable) for i, c in enumerate(cases)]
        return [f.result() for f in futs]


def parse_model(line):
    f = core.dec_line(line)
    try:
        i = f.index("M")
        assert f[i + 12] == "S" and f[i + 24] == "K"
    except (ValueError, AssertionError, IndexError):
        return None

    def files(j):
        return {n: (f[j + 2 * k] == "1", f[j + 2 * k + 1]) for k, n in enumerate(("out", "err", "a", "b", "c"))}
    return {"model": files(i + 1), "model_fds": f[i + 11], "spec": files(i + 13), "spec_fds": f[i + 23],
            "flags": [x == "1" for x in f[i + 25:i + 28]]}


# the classes of brush's deviations that are still open (order = Redir/Entry.v show_flags); the five repaired ones
# (std-stream dup, compound redirect failure, &> noclobber, move-fd, self-dup) are part of model and spec now:
# a deviation there is a plain violation
FLAG_IDS = ["KF-C10-diagnostic-on-unusable-stderr-aborts", "KF-C10-exec-leaks-enclosing-redirections",
            "KF-C10-closed-std-descriptor-inherited"]
KF_BSNL = "KF-C10-heredoc-backslash-newline-kept"
KF_EXECCMD = "KF-C10-exec-command-with-descriptor-ge-3-collides"


def has_bsnl(case):
    """unquoted here-document whose body contains backslash-newline (python side of the class predicate)"""
    def rs_has(rs):
        return any(r[0] == "h" and r[6] for r in rs)

    def walk(c):
        if c[0] in ("S", "X"):
            return rs_has(c[1])
        if c[0] == "G":
            return rs_has(c[2]) or any(walk(b) for b in c[3])
        return rs_has(c[1]) or rs_has(c[2]) or any(walk(b) for b in c[3])
    return any(walk(c) for c in case["prog"])


def nocolour(x):
    """diagnostics are compared without ANSI colour codes"""
    return (x[0], re.sub("\x1b\\[[0-9;]*m", "", x[1]))


def obs_equal(code, want):
    return all(nocolour(code[n]) == nocolour(want[n]) for n in ("out", "err", "a", "b", "c"))


def diff_obs(code, want):
    return {n: {"code": code[n], "expected": want[n]} for n in ("out", "err", "a", "b", "c")
            if nocolour(code[n]) != nocolour(want[n])}


def nontrivial(case):
    def rs_of(c):
        if c[0] == "S" or c[0] == "X":
            return len(c[1])
        if c[0] == "G":
            return len(c[2]) + sum(rs_of(b) for b in c[3])
        return len(c[1]) + len(c[2]) + sum(rs_of(b) for b in c[3])
    return sum(rs_of(c) for c in case["prog"]) >= 2


def kinds_of(case, dist):
    def walk(c, depth):
        if c[0] == "S":
            dist["cmd:" + ("echo" if c[2][0] == "e" else "external")] = dist.get("cmd:" + ("echo" if c[2][0] == "e" else "external"), 0) + 1
            rss = [c[1]]
        elif c[0] == "X":
            dist["cmd:exec"] = dist.get("cmd:exec", 0) + 1
            rss = [c[1]]
        elif c[0] == "G":
            key = "cmd:" + {"b": "brace", "s": "subshell", "l": "loop"}[c[1]]
            dist[key] = dist.get(key, 0) + 1
            rss = [c[2]]
            for b in c[3]:
                walk(b, depth + 1)
        else:
            dist["cmd:function"] = dist.get("cmd:function", 0) + 1
            rss = [c[1], c[2]]
            for b in c[3]:
                walk(b, depth + 1)
        dist["depth:%d" % depth] = dist.get("depth:%d" % depth, 0) + 1
        for rs in rss:
            dist["listlen:%d" % len(rs)] = dist.get("listlen:%d" % len(rs), 0) + 1
            for r in rs:
                dist["redir:" + r[0] + (r[2] if r[0] == "f" else "")] = dist.get("redir:" + r[0] + (r[2] if r[0] == "f" else ""), 0) + 1
    for c in case["prog"]:
        walk(c, 0)


def scratch_root():
    root = os.path.join(core.SCRATCH, "c10-%d" % os.getpid())
    shutil.rmtree(root, ignore_errors=True)
    os.makedirs(os.path.join(root, "bin"))
    p = os.path.join(root, "bin", "fdprobe")
    open(p, "w").write(FDPROBE)
    os.chmod(p, 0o755)
    return root


WITNESSES = [
    # (class id, script, predicate on (stdout, stderr) that holds when the defect is REPAIRED)
    (FLAG_IDS[0], "echo x 2>&- >&7; echo after", lambda o, e: o == "after\n"),
    (FLAG_IDS[1], "{ exec 5>/dev/null; } 2>/dev/null; echo e >&2", lambda o, e: e == "e\n"),
    (FLAG_IDS[2], "/bin/echo hi >&-", lambda o, e: o == ""),
]


def repaired_classes(ctx, root):
    """classes whose witness no longer reproduces on the code under test: the model (which follows the code as
    recorded in the finding) is not compared inside them"""
    d = os.path.join(root, "wit")
    out = set()
    for cid, script, ok in WITNESSES:
        o, e = run_hd([ctx.vbrush, "--norc", "--noprofile"], {"script": script}, d)
        if ok(o, e):
            out.add(cid)
    shutil.rmtree(d, ignore_errors=True)
    return out


def eval_redir_cases(ctx, cases, root, with_bash, sub="r"):
    """-> (mismatches, spec violations, stats)"""
    bindir = os.path.join(root, "bin")
    root = os.path.join(root, sub)
    dirs = [os.path.join(root, "k%d" % i) for i in range(len(cases))]
    fields = [model_fields(c, brush_msgs(d)) for c, d in zip(cases, dirs)]
    model = ctx.model("c10_run", fields)
    code = run_many([ctx.vbrush, "--norc", "--noprofile"], cases, root, bindir)
    repaired = repaired_classes(ctx, root)
    mism, specv, stale = [], [], {}
    stats = {"flagged": 0, "by_flag": {}, "code_eq_spec": 0}
    parsed = []
    for case, ml, co in zip(cases, model, code):
        pm = parse_model(ml)
        parsed.append(pm)
        if pm is None:
            raise core.CheckBroken("model output not understood: %r for %r" % (ml[:200], script_of(case)))
        flags = [FLAG_IDS[i] for i, b in enumerate(pm["flags"]) if b]
        bsnl = has_bsnl(case)
        if bsnl:
            flags.append(KF_BSNL)
        last = case["prog"][-1]
        if len(last) > 4 and last[4] and (any(ch in "3456789" for ch in pm["spec_fds"] + pm["model_fds"]) or
                                           any(n is not None and n >= 3 for n in (r[1] for r in last[1] if r[0] != "b"))):
            flags.append(KF_EXECCMD)      # `exec CMD` while a descriptor >= 3 is open for the command
        if flags:
            stats["flagged"] += 1
            for fl in flags:
                stats["by_flag"][fl] = stats["by_flag"].get(fl, 0) + 1
        eq_spec = obs_equal(co, pm["spec"]) and not co["extra"]
        eq_model = obs_equal(co, pm["model"]) and not co["extra"]
        if eq_spec:
            stats["code_eq_spec"] += 1
        if not eq_spec:
            v = {"input": {"script": script_of(case), "noclobber": case["nc"], "files": case["files"]},
                 "why": "observed files differ from the flat-table (bash) semantics: %r" % (diff_obs(co, pm["spec"]),),
                 "status": co["status"]}
            if flags:
                v["known"] = flags[0]
                v["classes"] = flags
            specv.append(v)
        if not eq_model:
            # once some defect is repaired the model (which follows the recorded code) is behind; inside the known
            # classes spec and model states diverge, so the repaired class cannot be attributed per case
            # (the runtime panic of the exec-command class depends on descriptor numbers and timing: not modelled)
            if flags and (eq_spec or repaired or KF_EXECCMD in flags):
                for fl in flags:
                    stale[fl] = stale.get(fl, 0) + 1     # defect repaired in the code: the model is behind
            else:
                mism.append({"script": script_of(case), "noclobber": case["nc"], "files": case["files"],
                             "diff": diff_obs(co, pm["model"]), "classes": flags})
    bash_stats = None
    if with_bash:
        bfields = [model_fields(c, bash_msgs(d, "environment")) for c, d in zip(cases, dirs)]
        bmodel = ctx.model("c10_run", bfields)
        bcode = run_many(["environment", "--norc", "--noprofile"], cases, root, bindir, executable="/usr/bin/bash")
        agree = 0
        dis = []
        for case, ml, bo in zip(cases, bmodel, bcode):
            pm = parse_model(ml)
            if pm and obs_equal(bo, pm["spec"]):
                agree += 1
            else:
                dis.append({"script": script_of(case), "diff": diff_obs(bo, pm["spec"]) if pm else None})
        bash_stats = {"cases": len(cases), "spec_equals_bash": agree, "disagreements": dis[:10]}
        # false-alarm discipline: a violation must also differ from bash
        bad = {script_of(c) for c, ml, bo in zip(cases, bmodel, bcode)
               if not (parse_model(ml) and obs_equal(bo, parse_model(ml)["spec"]))}
        kept = []
        for v in specv:
            if v["input"]["script"] in bad:
                v.setdefault("note", "spec disagrees with bash on this input: not reported")
                continue
            kept.append(v)
        specv = kept
    return mism, specv, stats, stale, bash_stats, parsed, code


# ------------------------------------------------------------------ here-documents (tokenizer level)

DELIMS = ["EOF", "E", "END", "_x1"]
BODY_LINES = ["", "text", "EOF", "EOFX", "XEOF", " EOF", "EOF ", "\tEOF", "\t\tEOF", "\t text", " \tEOF", "$x", "${y} z",
              "a\\", "\\$x", "\\\\", "'q'", "\"dq\"", "E", "END", "\tEND", "_x1", "two  words", "\t", "EO", "EOF\tEOF", "`", "$(", "é"]
SAFE_REST = ["", "echo done", "next word", "\tx", "EOF"]


def quote_delim(rng, d):
    r = rng.random()
    if r < 0.45:
        return d, False
    if r < 0.6:
        return "'%s'" % d, True
    if r < 0.72:
        return '"%s"' % d, True
    if r < 0.84:
        return "\\" + d, True
    if r < 0.92 and len(d) > 1:
        return d[0] + "'" + d[1:] + "'", True
    return d[:1] + '""' + d[1:], True


def strip_tabs(line):
    return line.lstrip("\t")


TABBY_LINES = ["\ttext", "\t\tdeep", "\t", "\tEOF x", "\t$x", "\t two", "plain", "\tEND.", " \tmixed"]


def gen_here_case(rng):
    # 40% of the cases: several documents on one line whose operators DIFFER (<< next to <<-), bodies and end tags
    # indented with tabs - which document's operator governs tab stripping is only visible there
    mixed = rng.random() < 0.4
    ndocs = rng.choice([2, 2, 3]) if mixed else rng.choice([1, 1, 1, 2, 2, 3])
    first_strip = rng.random() < 0.5
    docs = []
    words = []
    line = rng.choice(["cat", "cmd -x", "a b"])
    text = ""
    for k in range(ndocs):
        d = rng.choice(DELIMS)
        tagtok, quoted = quote_delim(rng, d)
        strip = (first_strip if k % 2 == 0 else not first_strip) if mixed else rng.random() < 0.4
        docs.append((strip, tagtok))
        if k > 0 and rng.random() < 0.4:
            line += " ; cat"                      # the next document belongs to another command of the same line
        line += " <<" + ("-" if strip else "") + rng.choice(["", " "]) + tagtok
        if rng.random() < 0.3:
            line += " w%d" % len(docs)
        # body: arbitrary lines, but nothing that ends the document early unless we decide so
        nl = rng.randrange(0, 5)
        early = rng.random() < 0.15
        lines = []
        if mixed:
            nl = rng.randrange(1, 5)
        for _ in range(nl):
            l = rng.choice(TABBY_LINES) if mixed and rng.random() < 0.7 else rng.choice(BODY_LINES)
            eff = strip_tabs(l) if strip else l
            if eff == d and not early:
                l = l + "x"
            lines.append(l)
        text += "".join(l + "\n" for l in lines)
        if early and any((strip_tabs(l) if strip else l) == d for l in lines):
            # the rest of what we generated for this document becomes shell text: keep it harmless
            k = [i for i, l in enumerate(lines) if (strip_tabs(l) if strip else l) == d][0]
            text = text[:len(text) - sum(len(l) + 1 for l in lines[k + 1:])]
            text += "".join(rng.choice(SAFE_REST[:4]) + "\n" for _ in lines[k + 1:])
            text += ("\t" if strip and rng.random() < 0.5 else "") + d + "x\n" if False else ""
            continue
        text += ("\t" * (rng.randrange(1, 3) if mixed else rng.randrange(0, 3)) if strip else "") + d + "\n"
    rest = "".join(rng.choice(SAFE_REST[:4]) + "\n" for _ in range(rng.randrange(0, 3)))
    mode = rng.random()
    if mode < 0.08 and text.endswith("\n"):
        full = line + "\n" + text[:-1]              # end tag at end of input without newline
    elif mode < 0.14:
        full = line + "\n" + text[:max(0, len(text) - 3)]   # truncated: unterminated
    else:
        full = line + "\n" + text + rest
    return {"docs": docs, "input": full, "line": line}


def here_fields(case):
    f = [str(len(case["docs"]))]
    for strip, tagtok in case["docs"]:
        f += ["1" if strip else "0", tagtok]
    nl = case["input"].find("\n")
    f.append(case["input"][nl + 1:] if nl >= 0 else "")
    return f


def canon_tokens(fields, ndocs):
    """harness output -> ("ok", [(body, endtag)...], other words) | ("err", kind)"""
    if not fields:
        return ("bad",)
    if fields[0] == "ERR":
        return ("err", fields[1] if len(fields) > 1 else "")
    toks = []
    i = 1
    while i + 1 < len(fields):
        toks.append((fields[i], fields[i + 1]))
        i += 2
    bodies = []
    others = []
    i = 0
    while i < len(toks):
        k, t = toks[i]
        if k == "O" and t in ("<<", "<<-") and i + 3 < len(toks):
            bodies.append((toks[i + 2][1], toks[i + 3][1]))
            i += 4
            continue
        if not (k == "O" and t == "\n"):
            others.append(t)
        i += 1
    return ("ok", bodies, others)


def eval_here_cases(ctx, cases):
    model = ctx.model("c10_here", [here_fields(c) for c in cases])
    code = ctx.impl("c10_heredoc", [[c["input"]] for c in cases])
    mism, specv = [], []
    stats = {"ok": 0, "unterminated": 0}
    for c, ml, cl in zip(cases, model, code):
        mf = core.dec_line(ml)
        cf = core.dec_line(cl) if not cl.startswith(("PANIC", "DIED", "TIMEOUT")) else ["ERR", cl]
        got = canon_tokens(cf, len(c["docs"]))
        # model line: "OK" n (body endtag)* rest | "UNTERMINATED"  ; then "S" + the same from the line-based spec
        try:
            si = mf.index("S", 1)
        except ValueError:
            raise core.CheckBroken("here-document model output not understood: %r" % (mf,))
        mpart, spart = mf[:si], mf[si + 1:]

        def want(part):
            if part[0] != "OK":
                return ("err", "unterminated")
            n = int(part[1])
            bodies = [(part[2 + 2 * k], part[3 + 2 * k]) for k in range(n)]
            rest = part[2 + 2 * n] if len(part) > 2 + 2 * n else ""
            first = c["line"].replace("<<-", " ").replace("<<", " ").split()
            tagtoks = {t for _, t in c["docs"]}
            others = [w for w in first if w not in tagtoks] + rest.split()
            return ("ok", bodies, others)

        def same(g, w):
            if w[0] == "err":
                return g[0] == "err" and "nterminated" in g[1] or (g[0] == "err" and "here" in g[1].lower())
            return g[0] == "ok" and g[1] == w[1] and sorted(g[2]) == sorted(w[2])
        wm, ws = want(mpart), want(spart)
        if wm[0] == "ok":
            stats["ok"] += 1
        else:
            stats["unterminated"] += 1
        if not same(got, ws):
            specv.append({"input": {"tokenizer_input": c["input"]},
                          "why": "here-document bodies differ from the line-based definition: code=%r expected=%r" % (got, ws)})
        if not same(got, wm):
            mism.append({"tokenizer_input": c["input"], "code": got, "model": wm})
    return mism, specv, stats


# ------------------------------------------------------------------ here-documents at process level (python oracle + bash)

# bodies by what they contain (the "nothing to expand" shortcut of brush looks at exactly these characters)
H_BS_ONLY = ["C:\\\\dir\\\\file", "a\\\\", "\\\\", "q\\q", "\\a \\\" \\'", "t\\\\\\\\t", "\tw\\\\"]
H_DOLLAR_ONLY = ["$x", "a ${x} b", "$xy|$e|${e}.", "cost 5$", "$ x", "'$x' \"$x\"", "${x}y $x-y $x.y", "\t$x"]
H_BOTH = ["\\$x", "\\\\$x", "\\${x}", "$x \\ '\"", "\\` \\$ \\\\", "p\\\\$e\\q"]
H_NEITHER = ["l1", "two words", "\ttab", "'q' \"dq\"", "", "EOFX", " EOF", "\t\tEOF x", "a ) b", "( c"]
H_BSNL = ["cont\\", "\tc2\\", "\\\\\\"]
H_ENV = [("x", XVAL), ("e", "")]
H_PREFIX = "x='%s'; e=; " % XVAL


def gen_hdproc_case(rng):
    """-> dict(shape, docs=[dict(strip, tagtok, tag, lines)], ...); the expected text comes from the Coq entry c10_hexp"""
    def one_doc(tag, strip=None, tabby=False):
        cat = rng.choice(["bs", "bs", "dollar", "both", "neither", "any", "any", "bsnl"])
        pool = {"bs": H_BS_ONLY + H_NEITHER[:3], "dollar": H_DOLLAR_ONLY + H_NEITHER[:3], "both": H_BOTH + H_BS_ONLY[:2] + H_DOLLAR_ONLY[:2],
                "neither": H_NEITHER, "any": H_BS_ONLY + H_DOLLAR_ONLY + H_BOTH + H_NEITHER,
                "bsnl": H_BSNL + H_BS_ONLY[:2] + H_NEITHER[:2]}[cat]
        lines = [rng.choice(TABBY_LINES[:4] + ["\ttab", "plain"]) if tabby and rng.random() < 0.5 else rng.choice(pool)
                 for _ in range(rng.randrange(1, 5))]
        if strip is None:
            strip = rng.random() < 0.4
        mode = rng.choice(["sq", "bs", "dq", "plain", "plain", "plain", "plain"])
        tagtok = {"sq": "'%s'", "bs": "\\%s", "dq": '"%s"', "plain": "%s"}[mode] % tag
        lines = [l + "x" if (l.lstrip("\t") if strip else l) == tag else l for l in lines]
        if mode == "plain" and lines[-1].endswith("\\") and (len(lines[-1]) - len(lines[-1].rstrip("\\"))) % 2 == 1:
            lines.append("tail")          # a continuation must not swallow the delimiter line
        endtag = ("\t" if strip and (tabby or rng.random() < 0.5) else "") + tag + "\n"
        return {"strip": strip, "tagtok": tagtok, "tag": tag, "lines": lines, "endtag": endtag, "cat": cat,
                "op": "<<" + ("-" if strip else "") + tagtok, "raw": "".join(l + "\n" for l in lines)}
    shape = rng.choice(["plain", "plain", "subst", "func", "two", "two", "two_subst", "two_cmds", "two_cmds"])
    mixed = shape.startswith("two") and rng.random() < 0.7
    s1 = rng.random() < 0.5 if mixed else None
    docs = [one_doc("EOF", s1, mixed)]
    if shape.startswith("two"):
        docs.append(one_doc("E2", (not s1) if mixed else None, mixed))
    text = "".join(d["raw"] + d["endtag"] for d in docs)
    ops = [d["op"] for d in docs]
    if shape == "plain":
        script = "cat %s\n%s" % (ops[0], text)
    elif shape == "subst":
        script = "v=$(cat %s\n%s); printf '%%s\\n' \"$v\"" % (ops[0], text)
    elif shape == "func":
        script = "f() { cat %s\n%s}; f; f" % (ops[0], text)
    elif shape == "two_cmds":
        script = "cat %s; cat %s\n%s" % (ops[0], ops[1], text)
    elif shape == "two":
        script = "{ cat; cat <&3; } %s 3%s\n%s" % (ops[0], ops[1], text)
    else:
        script = "v=$({ cat; cat <&3; } %s 3%s\n%s); printf '%%s\\n' \"$v\"" % (ops[0], ops[1], text)
    special = "subst" in shape and any(ch in d["raw"] for d in docs for ch in '"()')
    return {"script": script, "shape": shape, "docs": docs, "subst_special": special}


def hexp_fields(case):
    f = [str(len(H_ENV))]
    for k, v in H_ENV:
        f += [k, v]
    f.append(str(len(case["docs"])))
    for d in case["docs"]:
        f += ["1" if d["strip"] else "0", d["tagtok"], d["raw"]]
    return f


def compose(case, texts):
    if case["shape"] == "func":
        t = texts[0] + texts[0]
    else:
        t = "".join(texts)
    if "subst" in case["shape"]:
        t = t.rstrip("\n") + "\n"
    return t


def attach_expected(ctx, cases):
    """fills expected (spec), expected_model, bsnl from the extracted Coq entry"""
    lines = ctx.model("c10_hexp", [hexp_fields(c) for c in cases])
    for c, l in zip(cases, lines):
        f = core.dec_line(l)
        n = len(c["docs"])
        if len(f) != 3 * n or any(x.startswith("?") for x in f):
            raise core.CheckBroken("here-document expansion model output not understood: %r" % (f,))
        c["expected_model"] = compose(c, [f[3 * k] for k in range(n)])
        c["expected"] = compose(c, [f[3 * k + 1] for k in range(n)])
        c["bsnl"] = any(f[3 * k + 2] == "1" for k in range(n))


# differential only (no Coq model of command / arithmetic substitution inside bodies): brush vs bash
H_SUBST_LINES = ["$(echo hi)", "a $((1+2)) b", "`echo bq`", "\\$(echo no)", "$(printf 'a\\\\b')", "\\`echo no\\`", "$((x1=3)) $x1",
                 "$(echo \"$x\")", "n $(( 7 * 6 ))", "${x:-d} ${u:-d} ${#x}", "C:\\\\dir", "plain"]


def gen_hddiff_case(rng):
    lines = [rng.choice(H_SUBST_LINES) for _ in range(rng.randrange(1, 4))]
    strip = rng.random() < 0.3
    tagtok = rng.choice(["EOF", "EOF", "EOF", "'EOF'", "\\EOF"])
    body = "".join(("\t" if strip and rng.random() < 0.5 else "") + l + "\n" for l in lines)
    return {"script": "cat <<%s%s\n%s%sEOF\n" % ("-" if strip else "", tagtok, body, "\t" if strip else ""), "shape": "diff"}


KF_MOVE = "KF-C10-move-fd-closes-wrong-descriptor"
MOVE_CASES = [
    {"script": "echo hi 3>&1 >&3-", "expected": "hi\n", "expected_model": "hi\n", "bsnl": False, "shape": "movefd", "move": True},
    {"script": "/bin/echo hi 3>&1 >&3-", "expected": "hi\n", "expected_model": "hi\n", "bsnl": False, "shape": "movefd", "move": True},
    {"script": "{ echo hi; } 3>&1 >&3-", "expected": "hi\n", "expected_model": "hi\n", "bsnl": False, "shape": "movefd", "move": True},
    {"script": "( echo hi >&4 ) 4>&1-", "expected": "hi\n", "expected_model": "hi\n", "bsnl": False, "shape": "movefd", "move": True},
]


def run_hd(shell_argv, case, d, executable=None):
    os.makedirs(d, exist_ok=True)
    env = {"PATH": "/usr/bin:/bin", "HOME": d, "LANG": "C", "TERM": "dumb"}
    rc, out, err = run_group(shell_argv + ["-c", H_PREFIX + case["script"]], 20, stdin=subprocess.DEVNULL,
                             stdout=subprocess.PIPE, stderr=subprocess.PIPE, cwd=d, env=env, executable=executable)
    if rc == "timeout":
        return "TIMEOUT", ""
    return (out or b"").decode("utf-8", "replace"), (err or b"").decode("utf-8", "replace")[:300]


def eval_hdproc_cases(ctx, cases, root, diff_cases=()):
    """verdict: code vs the Coq spec of body processing (spec_doc_text); correspondence: code vs the Coq model
    (code_doc); bash is the second opinion on the spec.  diff_cases: code vs bash directly."""
    attach_expected(ctx, [c for c in cases if "docs" in c])
    d = os.path.join(root, "hd")
    os.makedirs(d, exist_ok=True)
    allc = list(cases) + list(diff_cases)
    with ThreadPoolExecutor(max_workers=max(2, min(8, (os.cpu_count() or 4) // 2))) as ex:
        code = list(ex.map(lambda c: run_hd([ctx.vbrush, "--norc", "--noprofile"], c, d), allc))
        bash = list(ex.map(lambda c: run_hd(["/usr/bin/bash", "--norc", "--noprofile"], c, d), allc))
    specv, mism = [], []
    stats = {"cases": len(cases), "spec_equals_bash": 0, "code_equals_spec": 0, "by_shape": {}, "by_body_kind": {},
             "differential_only_cases": len(diff_cases), "differential_only_agree": 0, "spec_disagreements_with_bash": []}
    for c, (co, ce), (bo, be) in zip(allc, code, bash):
        stats["by_shape"][c["shape"]] = stats["by_shape"].get(c["shape"], 0) + 1
        if c["shape"] == "diff":
            if co == bo:
                stats["differential_only_agree"] += 1
            else:
                specv.append({"input": {"script": c["script"]},
                              "why": "here-document with command/arithmetic substitution differs from bash: code=%r bash=%r stderr=%r" % (co, bo, ce)})
            continue
        for dd in c.get("docs", []):
            k = dd["cat"] + ("/quoted" if dd["tagtok"] != dd["tag"] else "/unquoted") + ("/<<-" if dd["strip"] else "/<<")
            stats["by_body_kind"][k] = stats["by_body_kind"].get(k, 0) + 1
        known = KF_MOVE if c.get("move") else KF_SUBST if c.get("subst_special") else KF_BSNL if c["bsnl"] else None
        if co != c["expected_model"] and not known:
            mism.append({"script": c["script"], "code": co, "model": c["expected_model"], "stderr": ce})
        if bo != c["expected"]:
            if len(stats["spec_disagreements_with_bash"]) < 5:
                stats["spec_disagreements_with_bash"].append({"script": c["script"], "bash": bo, "spec": c["expected"]})
            continue            # false-alarm discipline: the spec must agree with bash on the input
        stats["spec_equals_bash"] += 1
        if co == c["expected"]:
            stats["code_equals_spec"] += 1
            continue
        v = {"input": {"script": c["script"]},
             "why": "here-document content differs from the specification (= bash): code=%r expected=%r stderr=%r" % (co, c["expected"], ce)}
        if known:
            v["known"] = known
        specv.append(v)
    return specv, mism, stats


# ------------------------------------------------------------------ entry points

def run(ctx):
    rng = ctx.rng
    root = scratch_root()
    try:
        n_redir = 1500 if ctx.quick else 12000
        cases = [make_case(rng, ctx.quick) for _ in range(n_redir)]
        mism, specv, stats, stale, bash_stats, parsed, code = eval_redir_cases(ctx, cases, root, with_bash=not ctx.quick)
        if ctx.quick:
            # bash second opinion on a sample even in the quick tier
            sample = cases[:150]
            _, _, _, _, bash_stats, _, _ = eval_redir_cases(ctx, sample, root, with_bash=True, sub="b")
        hp = [gen_hdproc_case(rng) for _ in range(700 if ctx.quick else 6000)] + MOVE_CASES
        hdiff = [gen_hddiff_case(rng) for _ in range(150 if ctx.quick else 1500)]
        hpv, hpm, hpstats = eval_hdproc_cases(ctx, hp, root, hdiff)
        specv += hpv
        mism += hpm
    finally:
        shutil.rmtree(root, ignore_errors=True)
    n_here = 3000 if ctx.quick else 40000
    hcases = [gen_here_case(rng) for _ in range(n_here)]
    hm, hv, hstats = eval_here_cases(ctx, hcases)
    mism += hm
    specv += hv
    # extraction cross-check
    d0 = "/var/tmp/x"
    idx = rng.sample(range(len(cases)), 24)
    xs = [model_fields(cases[i], brush_msgs(d0)) for i in idx]
    got = ctx.model("c10_run", xs)
    ce = ctx.coq_eval("c10_run", xs)
    hidx = rng.sample(range(len(hcases)), 24)
    hx = [here_fields(hcases[i]) for i in hidx]
    hgot = ctx.model("c10_here", hx)
    hce = ctx.coq_eval("c10_here", hx)
    bad = [i for i, (a, b) in enumerate(zip(got + hgot, ce + hce)) if a != b]
    if bad:
        raise core.CheckBroken("extracted runner and vm_compute disagree on case %r" % ((xs + hx)[bad[0]],))
    dist = {}
    for c in cases:
        kinds_of(c, dist)
    dist["noclobber_cases"] = sum(1 for c in cases if c["nc"])
    dist["cases_in_known_classes"] = stats["flagged"]
    dist["by_class"] = stats["by_flag"]
    dist["code_equals_spec"] = stats["code_eq_spec"]
    dist["heredoc"] = hstats
    dist["heredoc_process_level"] = hpstats
    distinct = {script_of(c) + repr(c["files"]) for c in cases if nontrivial(c)} | {c["input"] for c in hcases if c["docs"]}
    res = {
        "evaluations": len(cases) + len(hcases) + len(hp) + len(hdiff),
        "distinct_nontrivial": len(distinct),
        "rule": "process level: random programs (1-3 commands + a final probe) of simple commands (builtin echo / external fdprobe), exec, "
                "brace groups, subshells, for loops and functions (definition + call redirections), nested <= 2, every redirection list of "
                "length <= 4 over descriptors 0-9 (biased to 0-4), files a b c /dev/null, all operators of the property plus here-strings and "
                "quoted here-documents, 30% under noclobber, random initial existence/content of the files; here-string words plain / quoted / with $x; 15% end with `exec fdprobe end <redirections>` (exec with a command); run through vbrush -c in a "
                "scratch directory; observed: final content of a, b, c, captured stdout and stderr (every fdprobe writes its open set 0-9 "
                "to every writable descriptor and echoes what it reads from 0). non-trivial = at least two redirections; distinct by script "
                "text + initial files. tokenizer level: first line with 1-3 here-document operators (<< / <<-, delimiter unquoted or quoted "
                "in 5 ways) followed by bodies drawn from lines equal to / containing / prefixed by the delimiter, tabs, $, backslashes, "
                "quotes; 8% end tag at end of input, 6% truncated; non-trivial = all; distinct by input text. here-documents at process level "
                "(python oracle of bash's rules, kept only where real bash agrees with it): cat of 1-2 documents (two documents on one line: 70% "
                "with different operators << / <<- and tab-indented bodies and end tags; same command or two commands), plain / inside $( ) / inside a "
                "function, << and <<-, quoted and unquoted delimiters, bodies with $x, backslash forms, backslash-newline",
        "samples": [{"script": script_of(c)} for c in cases[:3]] + [{"tokenizer_input": c["input"]} for c in hcases[:2]],
        "distribution": dist,
        "extraction_crosscheck": {"cases": len(idx) + len(hidx), "agree": len(idx) + len(hidx) - len(bad)},
        "model_mismatches": mism,
        "spec_violations": specv,
        "spec_vs_bash": bash_stats,
    }
    res["explanation"] = ("proof-backed (Coq model + theorems + correspondence): redirection programs (Redir/Interp vs SpecInterp), tokenizer-level "
                          "here-document scan (HereDoc.scan vs spec_doc), here-document body processing for text/backslashes/$name/${name} under quoted and "
                          "unquoted delimiters and <<- (HereExpand.code_doc vs spec_doc_text, expected texts of the process-level here-document stream come from "
                          "the extracted entry c10_hexp). differential only (brush vs /usr/bin/bash in the verdict): here-document bodies with $( ), $(( )), "
                          "backquotes and ${v:-d}/${#v} (shape 'diff'); here-string words are expanded by the driver (plain words, quoted words, $x)")
    if stale:
        res["notes"] = ["code now equals the spec inside known classes (model follows the old code): %r" % stale]
    return res


def search(ctx, res):
    import random
    rng = random.Random(ctx.seed + 7)
    root = scratch_root()
    try:
        cases = [make_case(rng, False) for _ in range(1500)]
        _, specv, _, _, _, _, _ = eval_redir_cases(ctx, cases, root, with_bash=True)
    finally:
        shutil.rmtree(root, ignore_errors=True)
    hcases = [gen_here_case(rng) for _ in range(8000)]
    _, hv, _ = eval_here_cases(ctx, hcases)
    specv = [v for v in specv if "known" not in v] + hv
    specv.sort(key=lambda v: len(v["input"].get("script", v["input"].get("tokenizer_input", ""))))
    return {"evaluations": len(cases) + len(hcases), "spec_violations": specv[:5]}


def run_code_only(ctx):
    raise core.CheckBroken("the C10 spec oracle is the extracted Coq specification; it did not build")
