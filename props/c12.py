"""C12 — subshell isolation: nothing done in a subshell changes the parent shell."""
import os, re, subprocess, concurrent.futures
from vlib import core

PID = "C12"
ENTRIES = {"c12": ("Subshell.Entry", "entry_c12")}
TRUSTED = [
    "modelled, not verified: `impl Clone for Shell` (field table regenerated from brush-core/src/shell.rs by "
    "translator/ex_c12.py; sharing is recognised syntactically: Arc/Rc/Mutex/RefCell/reference in the declared type after "
    "expanding the file's own type aliases, or Arc::clone in the expression), the subshell call sites of interp.rs/commands.rs "
    "(all `shell.clone()`), umask/ulimit as process-global state; field contents are abstract tokens",
    "in-process second view (harness `subsh`): serde serialisation of the parent `Shell` before/after; 22 of the 27 fields are "
    "serialisable (error_formatter, jobs, builtins, parser_impl, key_bindings are `serde(skip)`)",
    "python oracle in props/c12.py: the parent's textual dump (declare -p, declare -f, set -o, shopt, alias, trap -p, pwd, "
    "/proc/$$/cwd, dirs, $@, /proc/self/fd, umask, ulimit -a) is identical before and after the subshell",
]
ASSUMPTIONS = ["the subshell body is drawn from the mutator grammar (assignment/unset/export/declare/readonly, function definition, "
               "set -o, shopt, alias, trap, cd, pushd, set --, shift, exec redirections, umask, ulimit -n, exit, nested subshells)",
               "concurrent parent activity is sampled (background job racing parent mutators), not proved"]

SECTIONS = ["env", "funcs", "options", "aliases", "traps", "working_dir", "directory_stack", "args", "open_files"]
VOLATILE = {"_", "BASH_COMMAND", "LINENO", "RANDOM", "SRANDOM", "SECONDS", "PIPESTATUS", "EPOCHSECONDS", "EPOCHREALTIME",
            "PWD", "OLDPWD", "SHELLOPTS", "BASHOPTS", "DIRSTACK", "BASH_ARGC", "BASH_ARGV", "BASH_LINENO", "BASH_SOURCE",
            "FUNCNAME", "BASHPID", "BASH_SUBSHELL", "COPROC", "COPROC_PID", "__x", "BASH_ALIASES", "BASH_CMDS"}

PRELUDE = r"""umask 022
cd /var/tmp
v0=old; v1=old; export v2=old; arr=(a b); n=0
f0() { echo f0; }
alias a0=b0
trap 'echo u2' USR2
set -- p1 p2
__dump() {
echo "##env"; declare -p
echo "##funcs"; declare -f
echo "##options"; set -o; shopt
echo "##aliases"; alias
echo "##traps"; trap -p
echo "##working_dir"; pwd; echo "$PWD|$OLDPWD"; /bin/pwd; /usr/bin/readlink /proc/$$/cwd
echo "##directory_stack"; dirs
echo "##args"; echo "$#:$*"
echo "##open_files"; /bin/ls /proc/self/fd
echo "##umask"; umask
echo "##nofile"; ulimit -n
echo "##ulimit"; ulimit -a
}
"""

SETUP = """cd /var/tmp
v0=old; v1=old; export v2=old; arr=(a b); n=0
f0() { echo f0; }
alias a0=b0
trap 'echo u2' USR2
set -- p1 p2
"""

# what the serde view of `Shell` must show for a mutator run in the current shell
SERDE_FIELD = {"env": "env:", "funcs": "funcs", "options": "options", "aliases": "aliases", "traps": "traps",
               "working_dir": "working_dir", "directory_stack": "directory_stack", "args": "args", "open_files": "open_files"}


def serde_view(ctx, cases):
    """in-process tie: serialise the parent `Shell` (serde) before and after; no field may differ after a subshell"""
    sel = [(c, b) for c, b in cases if not has(b, "U") and not has(b, "L")]
    inp = [[SETUP, wrap("cur", body_text(b)) if c == "cur" else mut_text(("S", c, b))] for c, b in sel]
    res = ctx.impl("subsh", inp, shards=8)
    viol, fields_seen, n = [], set(), 0
    for (c, b), line, i in zip(sel, res, inp):
        if line.startswith(("PANIC", "DIED", "TIMEOUT")):
            viol.append({"input": {"script": i[1]}, "why": "in-process run failed: %s" % line[:100]})
            continue
        f = core.dec_line(line)
        if len(f) < 2:
            f = f + [""]
        fields_seen |= set(x for x in f[0].split(",") if x)
        diff = [x for x in f[1].split(",") if x]
        n += 1
        if c == "cur":
            for m in b:
                want = [SERDE_FIELD[m[1]]] if m[0] == "F" else [SERDE_FIELD[x] for x in m[2]] if m[0] == "P" else []
                for w in want:
                    if not any(d.startswith(w) for d in diff):
                        viol.append({"input": {"script": i[1]}, "why": "the serde view of Shell does not show a change of %s for a mutator run in the current shell (the oracle would be blind)" % w})
            continue
        if c == "coproc":
            diff = [d for d in diff if d != "open_files" and "COPROC" not in d]
        if diff:
            viol.append({"input": {"script": i[1]}, "why": "field(s) %s of the parent's Shell (serde) differ after a %s subshell" % (diff, c)})
    return {"n": n, "violations": viol, "fields": sorted(fields_seen)}


# (text, [model tokens]) per mutator; `once` = the fields it is known to change from the initial state
MUTS = {
    "env": [("v1=new", "v1"), ("export v3=zz", "v3"), ("unset v0", "v0"), ("declare -i v4=5", "v4"), ("readonly v5=1", "v5"),
            ("v1+=x", "v1+")],
    "funcs": [("f1() { echo f1; }", "f1"), ("unset -f f0", "f0")],
    "options": [("set -o noglob", "noglob"), ("set -o noclobber", "noclobber"), ("shopt -s nullglob", "nullglob"),
                ("shopt -s dotglob", "dotglob")],
    "aliases": [("alias a1=b1", "a1"), ("unalias a0", "a0")],
    "traps": [("trap 'echo u1' USR1", "u1"), ("trap - USR2", "u2")],
    "working_dir": [("cd /tmp", "tmp"), ("cd /usr", "usr")],
    "args": [("set -- q1 q2 q3", "q"), ("shift", "shift")],
    "open_files": [("exec 7>/dev/null", "7"), ("exec 8</dev/null", "8")],
}
# stages that are a single simple command without a command word
BARE = [("F", "env", "v1=new", "v1"), ("F", "env", "v1+=x", "v1+"), ("F", "env", "arr[1]=v", "arr1"),
        ("F", "env", "n=$((n+5))", "n5"), ("F", "env", ": $((n+=5))", "n+5"), ("F", "env", ": ${v9:=w}", "v9"),
        ("F", "env", "v1=$((n+=7))", "v1n"), ("F", "env", "v8=a v1=b", "v8v1"), ("N", "> /dev/null"), ("N", "7>/dev/null")]
CTXS = ["paren", "cmdsubst", "backquote", "pipefirst", "pipelast", "background", "procin", "coproc"]


def gen_body(rng, depth=0, allow_bq=True):
    """-> list of mutator nodes: ('F', field, text, tag) | ('P', text, fields) | ('U', oct) | ('L', n) | ('X', n) | ('S', ctx, body)"""
    out = []
    for _ in range(rng.randrange(1, 6)):
        x = rng.random()
        if x < 0.6:
            f = rng.choice(list(MUTS))
            t, tag = rng.choice(MUTS[f])
            out.append(("F", f, t, tag))
        elif x < 0.66:
            out.append(("P", "pushd /usr >/dev/null", ["working_dir", "directory_stack"]))
        elif x < 0.76:
            out.append(("U", rng.choice(["077", "027", "002"])))
        elif x < 0.84:
            out.append(("L", rng.choice(["64", "128", "256"])))
        elif x < 0.9:
            out.append(("X", str(rng.randrange(0, 4))))
        elif depth < 2:
            c = rng.choice([c for c in CTXS[:5] if allow_bq or c != "backquote"])
            out.append(("S", c, gen_body(rng, depth + 1, allow_bq and c != "backquote")))
    if not out:
        out.append(("F", "env", "v1=new", "v1"))
    return out


def body_text(body):
    return "\n".join(mut_text(m) for m in body)


def wrap(ctx, inner):
    if ctx.endswith("!bare"):      # the stage is the simple command itself (assignment-only / redirect-only / `:` with a word)
        base = ctx.split("!")[0]
        return {"pipefirst": "%s | /bin/cat >/dev/null", "pipemid": ": | %s | /bin/cat >/dev/null", "pipelast": ": | %s"}[base] % inner
    if ctx == "pipemid":
        return ": | {\n%s\n} | /bin/cat >/dev/null" % inner
    if ctx == "cur":
        return "{\n%s\n}" % inner
    if ctx == "paren":
        return "(\n%s\n)" % inner
    if ctx == "cmdsubst":
        return ": \"$(\n%s\n)\"" % inner
    if ctx == "backquote":
        return ": \"`\n%s\n`\"" % inner
    if ctx == "pipefirst":
        return "{\n%s\n} | /bin/cat >/dev/null" % inner
    if ctx == "pipelast":
        return ": | {\n%s\n}" % inner
    if ctx == "background":
        return "{\n%s\n} &\nwait" % inner
    if ctx == "procin":
        return "/bin/cat <(\n%s\n) >/dev/null" % inner
    if ctx == "coproc":
        # leading `:` — brush's parser rejects `coproc { {` / `coproc { (` (a parser limitation outside this property)
        return "coproc {\n:\n%s\n}\nwait" % inner
    raise ValueError(ctx)


def mut_text(m):
    if m[0] in ("F", "P"):
        return m[2] if m[0] == "F" else m[1]
    if m[0] == "U":
        return "umask " + m[1]
    if m[0] == "L":
        return "ulimit -n " + m[1]
    if m[0] == "X":
        return "exit " + m[1]
    if m[0] == "R":
        return "return " + m[1]
    if m[0] == "C":
        return "__f"            # defined before the first dump (see script())
    if m[0] == "N":
        return m[1]
    if m[0] == "B":
        return bg_text(m[1], m[2], m[3])
    return wrap(m[1], body_text(m[2]))


COLLECT = {"wait": "wait", "wait%1": "wait %1", "wait%%": "wait %%", "wait%+": "wait %+", "wait$!": "wait $!",
           "wait-n": "/bin/sleep 0.3\nwait -n", "jobs": "/bin/sleep 0.3\njobs", "none": "/bin/sleep 0.3", "fg": "fg"}
COLLECT_TOK = {"wait": "wait", "wait%1": "spec", "wait%%": "spec", "wait%+": "spec", "wait$!": "pid", "wait-n": "none",
               "jobs": "jobs", "none": "none", "fg": "fg"}


def bg_text(form, collect, body):
    inner = body_text(body)
    job = {"brace": "{\n%s\n} &" % inner, "func": "__j &", "loop": "while :; do\n%s\nbreak\ndone &" % inner}[form]
    return job + "\n" + COLLECT[collect]


def mut_tok(m):
    if m[0] == "F":
        return ["F", m[1], m[3]]
    if m[0] == "P":
        out = []
        for f in m[2]:
            out += ["F", f, "pushd"]
        return out
    if m[0] == "U":
        return ["U", str(int(m[1], 8))]
    if m[0] == "L":
        return ["L", m[1]]
    if m[0] == "X":
        return ["X", m[1]]
    if m[0] == "R":
        return ["R", m[1]]
    if m[0] == "N":
        return []
    body = m[1] if m[0] == "C" else m[3] if m[0] == "B" else m[2]
    n = sum(len(x[2]) if x[0] == "P" else 0 if x[0] == "N" else 1 for x in body)
    out = ["C", str(n)] if m[0] == "C" else ["B", COLLECT_TOK[m[2]], str(n)] if m[0] == "B" else ["S", m[1].split("!")[0], str(n)]
    for x in body:
        out += mut_tok(x)
    return out


def reaches_exit(body):
    """does an `exit` executed by the body propagate out of it: a top-level exit, or one propagating out of a
    nested last-pipeline-stage context (Coq: the flow of run_mut is Exited only through CPipeLast)"""
    return any(m[0] == "X" or (m[0] == "S" and m[1] == "pipelast" and reaches_exit(m[2])) for m in body)


def has(body, kind):
    return any(m[0] == kind or (m[0] == "S" and has(m[2], kind)) or (m[0] == "C" and has(m[1], kind)) or
               (m[0] == "B" and has(m[3], kind)) for m in body)


# ---- options that decide where a pipeline stage runs
OPTSETS = ["", "p", "l", "m", "pl", "lm", "pm", "plm"]
OPT_TEXT = {"p": "set -o pipefail", "l": "shopt -s lastpipe", "m": "set -m"}


def opts_text(opts):
    return "".join(OPT_TEXT[o] + "\n" for o in opts)


def is_subshell(opts, c):
    """bash: the last stage of a pipeline runs in the current shell iff lastpipe is set and job control is not active;
    every other context is always a subshell (Coq: Subshell.Model.is_subshell)"""
    return not (c.split("!")[0] == "pipelast" and "l" in opts and "m" not in opts)


def spec_run(opts, body, cur, acc):
    """reference semantics of the grammar (independent of the Coq model): which dump sections the PARENT sees changed,
    which umask / nofile it ends with, and the control flow (go / exit / return) that reaches it"""
    for m in body:
        k = m[0]
        if k == "F" and cur:
            acc["sections"].add(m[1])
        elif k == "P" and cur:
            acc["sections"].update(m[2])
        elif k == "U" and cur:
            acc["umask"] = str(int(m[1], 8))
        elif k == "L" and cur:
            acc["nofile"] = m[1]
        elif k == "X":
            return "exit"
        elif k == "R":
            return "return"
        elif k == "C":
            if spec_run(opts, m[1], cur, acc) == "exit":
                return "exit"
        elif k == "B":
            spec_run(opts, m[3], False, acc)           # a background job is a subshell, however it is collected
        elif k == "S":
            if is_subshell(opts, m[1]):
                spec_run(opts, m[2], False, acc)       # nothing but status and output comes back
            else:
                f = spec_run(opts, m[2], cur, acc)     # a brace group in the current shell
                if f != "go":
                    return f
    return "go"


def no_args(body):
    # `declare` inside a function makes a local, `set --`/`shift` change the function's own parameters
    out = [("S", m[1], no_args(m[2])) if m[0] == "S" else m for m in body
           if not (m[0] == "F" and (m[1] == "args" or m[2].startswith("declare ")))]
    return out or [("F", "env", "v1=new", "v1")]


def top_nodes(kind, body):
    if kind.startswith("bg:"):
        _, form, collect = kind.split(":")
        return [("B", form, collect, body)]
    return body if kind == "cur" else [("C", body)] if kind == "call" else [("S", kind, body)]


def script(opts, kind, body):
    fdef = "__f() {\n%s\n}\n" % body_text(body) if kind == "call" else ""
    if kind.startswith("bg:") and kind.split(":")[1] == "func":
        fdef = "__j() {\n%s\n}\n" % body_text(body)
    main = wrap("cur", body_text(body)) if kind == "cur" else "__f" if kind == "call" else mut_text(top_nodes(kind, body)[0])
    return (PRELUDE + opts_text(opts) + fdef + "echo @@BEFORE\n__dump \"$@\"\necho @@MID\n" + main +
            "\necho @@AFTER\n__dump \"$@\"\necho @@END\n")


def parse_dump(text):
    secs, cur = {}, None
    for line in text.split("\n"):
        if line.startswith("##"):
            cur = line[2:]
            secs[cur] = []
        elif cur is not None:
            secs[cur].append(line)
    if "env" in secs:
        keep, skip = [], False
        for l in secs["env"]:
            m = re.match(r"declare -[-A-Za-z]+ ([A-Za-z_][A-Za-z0-9_]*)", l)
            if m:
                skip = m.group(1) in VOLATILE
            if not skip:
                keep.append(l)
        secs["env"] = keep
    for k in ("aliases", "traps"):      # HashMap iteration order
        if k in secs:
            secs[k] = sorted(secs[k])
    if secs.get("directory_stack"):
        # `dirs` starts with the current directory, which belongs to the working_dir section
        secs["directory_stack"] = [" ".join(secs["directory_stack"][0].split(" ")[1:])] + secs["directory_stack"][1:]
    return secs


def run_one(vbrush, text):
    rc, o, e = core.run_in_group([vbrush, "--norc", "--noprofile", "-c", text], 60, cwd="/var/tmp",
                                 env={"PATH": "/usr/bin:/bin", "HOME": "/var/tmp", "LC_ALL": "C"})
    if rc is None:
        return None, "timeout"
    out = o.decode("utf-8", "replace")
    m = re.search(r"@@BEFORE\n(.*?)@@MID\n.*?@@AFTER\n(.*?)@@END", out, flags=re.S)
    if not m and "@@MID" in out and "@@AFTER" not in out:
        return None, "exited %d" % rc
    if not m:
        return None, "no complete dump (exit %s): %s" % (rc, (out[-300:] + e.decode("utf-8", "replace")[-300:]))
    return (parse_dump(m.group(1)), parse_dump(m.group(2))), None


def observe(d):
    """code side of the tie: changed flags of the observed sections, final umask, final nofile"""
    b, a = d
    flags = ["1" if b.get(s) != a.get(s) else "0" for s in SECTIONS]
    um = str(int((a.get("umask") or ["0"])[0], 8))
    nf = (a.get("nofile") or ["0"])[0]
    return flags + [um, nf if nf != "unlimited" else "-1"]


def gen_cases(ctx):
    """-> list of (opts, kind, body); kind = 'cur' | 'call' | a subshell context"""
    rng = ctx.rng
    cases = []
    # sanity of the dump: every mutator, run in the current shell, changes its section
    for f in MUTS:
        for t, tag in MUTS[f]:
            cases.append(("", "cur", [("F", f, t, tag)]))
    cases.append(("", "cur", [("P", "pushd /usr >/dev/null", ["working_dir", "directory_stack"])]))
    cases.append(("", "cur", [("U", "027")]))
    cases.append(("", "cur", [("L", "128")]))
    # every mutator alone in every context
    singles = [("F", f, t, tag) for f in MUTS for t, tag in MUTS[f]] + [("U", "077"), ("L", "64"), ("X", "3"),
              ("P", "pushd /usr >/dev/null", ["working_dir", "directory_stack"])]
    for c in CTXS:
        for m in singles:
            cases.append(("", c, [m]))
    # option prefixes x stage position x mutators (exit and return included)
    marker = ("F", "env", "v1=new", "v1")
    for opts in OPTSETS[1:]:
        for c in ("pipefirst", "pipelast"):
            for m in singles:
                cases.append((opts, c, [m]))
    for opts in OPTSETS:
        for c in ("pipefirst", "pipelast"):
            for flow in (("R", "7"), ("X", "3"), ("R", "0")):
                cases.append((opts, "call", [("S", c, [flow]), marker]))
                cases.append((opts, "call", [("S", c, [("F", "traps", "trap 'echo u1' USR1", "u1"), flow, marker])]))
    # assignment-only / redirect-only / word-only stages at every stage position
    for m in BARE:
        if m[0] == "F":
            cases.append(("", "cur", [m]))
    for opts in ("", "l", "lm", "p", "pl"):
        for pos in ("pipefirst!bare", "pipemid!bare", "pipelast!bare"):
            for m in BARE:
                cases.append((opts, pos, [m]))
    for m in singles:
        cases.append(("", "pipemid", [m]))
    # background jobs ending via exit / return / break, and every way of collecting them
    for form in ("brace", "func", "loop"):
        for collect in ("wait", "wait%1", "wait%%", "wait%+", "wait$!", "wait-n", "jobs", "none"):
            for ending in ([("X", "3")], [("R", "4")], []):
                cases.append(("", "bg:%s:%s" % (form, collect), [marker] + ending))
            cases.append(("", "bg:%s:%s" % (form, collect), [rng.choice([x for x in singles if x[0] == "F"]), ("X", "2")]))
        for ending in ([("X", "3")], [("R", "4")], []):
            cases.append(("m", "bg:%s:fg" % form, [marker] + ending))
            cases.append(("m", "bg:%s:wait%%1" % form, [marker] + ending))
    # random sequences in every context, under random options
    for _ in range(260 if ctx.quick else 4000):
        c = rng.choice(CTXS + ["pipefirst", "pipelast", "call"])
        opts = rng.choice(OPTSETS) if rng.random() < 0.6 else ""
        body = gen_body(rng, 0, c != "backquote")
        if c == "call":
            body = no_args(body)     # only mutators whose effect outlives the function
        if c == "call" and rng.random() < 0.5:
            body.insert(rng.randrange(0, len(body) + 1), ("S", rng.choice(["pipefirst", "pipelast", "paren"]), [("R", "5")]))
        cases.append((opts, c, body))
    return cases


def run_cases(ctx, cases):
    texts = [script(o, k, b) for o, k, b in cases]
    with concurrent.futures.ThreadPoolExecutor(max_workers=8) as ex:
        res = list(ex.map(lambda t: run_one(ctx.vbrush, t), texts))
    return texts, res


def check_case(opts, kind, body, d):
    """the property on the code's own dumps: the parent's dump changes exactly where the reference semantics says a
    mutator ran in the current shell; nothing done in a subshell shows"""
    out = []
    if kind == "cur":
        return out
    b, a = d
    acc = {"sections": set(), "umask": None, "nofile": None}
    spec_run(opts, top_nodes(kind, body), True, acc)
    where = "a background job (%s)" % kind if kind.startswith("bg:") else \
        "a %s subshell" % kind if kind not in ("call",) and is_subshell(opts, kind) else \
        "a function call" if kind == "call" else "the last stage under lastpipe (current shell)"
    where += " [%s]" % (opts_text(opts).replace("\n", "; ").strip() or "no options")
    for s in sorted(set(b) | set(a)):
        if s == "open_files" and kind == "coproc":
            continue   # the coprocess' pipe ends are opened in the parent (COPROC array), as in bash
        changed = b.get(s) != a.get(s)
        diff = [l for l in a.get(s, []) if l not in b.get(s, [])][:3] + ["<"] + [l for l in b.get(s, []) if l not in a.get(s, [])][:3]
        if s in SECTIONS:
            if changed and s not in acc["sections"]:
                out.append(("the parent's %s differs after %s: %s" % (s, where, diff), None))
            elif not changed and s in acc["sections"]:
                out.append(("the parent's %s is unchanged although a mutator of it ran in the current shell (%s)" % (s, where), None))
        elif s == "umask":
            want = acc["umask"]
            got = str(int((a.get("umask") or ["0"])[0], 8))
            before = str(int((b.get("umask") or ["0"])[0], 8))
            if got != (want if want is not None else before):
                out.append(("the parent's umask is %s after %s, expected %s: %s" % (got, where, want or before, diff),
                            "KF-C12-umask" if has(body, "U") else None))
        elif s == "nofile":
            want = acc["nofile"]
            got, before = (a.get(s) or ["?"])[0], (b.get(s) or ["?"])[0]
            if got != (want if want is not None else before):
                out.append(("the parent's open-file limit is %s after %s, expected %s" % (got, where, want or before),
                            "KF-C12-ulimit" if has(body, "L") else None))
        elif s == "ulimit":
            if changed and not has(body, "L"):
                out.append(("the parent's ulimit -a differs after %s: %s" % (where, diff), None))
    return out


def case_tokens(opts, kind, body, u0, n0):
    toks = []
    for m in top_nodes(kind, body):
        toks += mut_tok(m)
    return [u0, n0, opts or "-"] + toks


def run(ctx):
    cases = gen_cases(ctx)
    texts, res = run_cases(ctx, cases)
    mism, specv = [], []
    model_cases, obs = [], []
    for (opts, kind, body), (d, err), text in zip(cases, res, texts):
        if d is None and err.startswith("exited"):
            legit = kind != "cur" and spec_run(opts, top_nodes(kind, body), True, {"sections": set(), "umask": None, "nofile": None}) == "exit"
            if not legit:
                v = {"input": {"script": text[len(PRELUDE):]},
                     "why": "the parent shell itself exited (%s) although every `exit` of the program is inside a subshell (%s context)" % (err, kind)}
                if kind.startswith("bg:") and kind.endswith(":fg") and has(body, "X"):
                    v["known"] = "KF-C12-fg-exit"
                specv.append(v)
            model_cases.append(case_tokens(opts, kind, body, "18", "0")); obs.append(["exited"])
            continue
        if d is None:
            specv.append({"input": {"script": text[len(PRELUDE):]}, "why": "no dump: %s" % err})
            model_cases.append(None); obs.append(None)
            continue
        if kind != "cur" and spec_run(opts, top_nodes(kind, body), True, {"sections": set(), "umask": None, "nofile": None}) == "exit":
            specv.append({"input": {"script": text[len(PRELUDE):]},
                          "why": "the parent shell survived an `exit` executed in the current shell (%s context)" % kind})
        u0 = str(int((d[0].get("umask") or ["0"])[0], 8))
        n0 = (d[0].get("nofile") or ["0"])[0]
        n0 = "-1" if n0 == "unlimited" else n0
        model_cases.append(case_tokens(opts, kind, body, u0, n0))
        obs.append(observe(d))
        for why, kn in check_case(opts, kind, body, d):
            v = {"input": {"script": text[len(PRELUDE):]}, "why": why}
            if kn:
                v["known"] = kn
            specv.append(v)
    idx = [i for i, m in enumerate(model_cases) if m is not None]
    model = ctx.model("c12", [model_cases[i] for i in idx])
    for i, ml in zip(idx, model):
        got = core.dec_line(ml)
        exp = obs[i]
        opts, c, body = cases[i]
        if c == "coproc" and got != ["exited"]:
            got = [g if SECTIONS[k] != "open_files" else exp[k] for k, g in enumerate(got[:len(SECTIONS)])] + got[len(SECTIONS):]
        if got != exp:
            mism.append({"options": opts, "context": c, "script": texts[i][len(PRELUDE):], "sections": SECTIONS + ["umask", "nofile"],
                         "code": exp, "model": got})
    # extraction cross-check
    samp = ctx.rng.sample(idx, min(30, len(idx)))
    ce = ctx.coq_eval("c12", [model_cases[i] for i in samp])
    pos = {i: k for k, i in enumerate(idx)}
    xbad = [i for i, v in zip(samp, ce) if v != model[pos[i]]]
    if xbad:
        raise core.CheckBroken("extracted runner and vm_compute disagree on %r" % (model_cases[xbad[0]],))
    # concurrent parent activity (sampled)
    conc = concurrent_cases(ctx)
    specv += conc["violations"]
    ser = serde_view(ctx, [(k, b) for o, k, b in cases if o == "" and k in CTXS + ["cur"] and not has(b, "R") and not has(b, "N")])
    specv += ser["violations"]
    flw = flow_cases(ctx)
    specv += flw["violations"]
    seen, outv = {}, []
    for v in specv:
        key = (v.get("known"), re.sub(r"[0-9]+", "#", v["why"])[:50])
        seen[key] = seen.get(key, 0) + 1
        if seen[key] <= (1 if v.get("known") else 3):
            outv.append(v)
    dist = {}
    for o, c, body in cases:
        dist[c] = dist.get(c, 0) + 1
        dist["opts:" + (o or "none")] = dist.get("opts:" + (o or "none"), 0) + 1
    nontriv = {repr(x) for x in cases if x[1] != "cur"}
    return {
        "evaluations": len(cases) + conc["n"] + ser["n"] + flw["n"],
        "distinct_nontrivial": len(nontriv),
        "rule": "process level (harness-built brush binary, `-c`): for each of 8 subshell contexts (( ), $( ), backquotes, first and "
                "last pipeline stage, `&`+wait, <( ), coproc) every single mutator of the grammar, plus random mutator sequences "
                "(1-5 items, nested subshells to depth 2, exit); the parent's full textual dump before and after is compared "
                "section by section; the same mutators in the current shell check that the dump sees each of them; plus "
                "background jobs racing parent mutators; plus option prefixes {pipefail, lastpipe, set -m and all combinations} x "
                "{non-final, final} pipeline stage x every mutator, and exit/return in a stage of a pipeline inside a function "
                "(under lastpipe without job control the final stage is expected to run in the current shell); plus control-flow "
                "containment: continue/break [1-3], exit, return inside 7 subshell contexts nested in two parent loops in a function "
                "(directly and from a loop of the subshell), parent's iteration trace compared with the expectation and with bash. non-trivial = any case in a subshell context; distinct by (context, body)",
        "samples": [{"context": cases[-1][1], "script": texts[-1][len(PRELUDE):]}, {"context": cases[40][1], "script": texts[40][len(PRELUDE):]}],
        "distribution": dist,
        "extraction_crosscheck": {"cases": len(samp), "agree": len(samp) - len(xbad)},
        "model_mismatches": mism,
        "spec_violations": outv,
        "notes": "proof-backed (Coq model + theorems + correspondence on which dump sections change, umask/nofile, parent exit): "
                 "all subshell contexts, option-dependent stage classification, background jobs x collection, command-less "
                 "stages; the reference semantics `spec_run` (python) decides the verdict on the code's own full dumps for every "
                 "case; differential vs bash: none in this property (the expectations are isolation statements, not bash output). "
                 "concurrent samples: %d; in-process serde comparisons: %d over the fields %s" % (conc["n"], ser["n"], ser["fields"]),
    }


# ------------------------------------------------------------------ control flow does not flow back
# "Only the subshell's exit status and output flow back": `continue [n]` / `break [n]` / `exit` / `return` executed in a
# subshell context that sits inside the parent's (nested) loops, inside a function, must end the subshell only. The
# parent's loops are observed through a trace of every iteration; the expectation is the same for every flow keyword
# and every context (and is what bash prints).
FLOWS = ["continue", "continue 2", "continue 3", "break", "break 2", "break 3", "exit 3", "return 4"]
FLOW_CTX = {"paren": "( %s )", "cmdsubst": "x=$( %s )", "backquote": "x=` %s `", "pipefirst": "{ %s; } | cat",
            "pipelast": ": | { %s; }", "background": "{ %s; } & wait", "procin": "cat <( %s )"}
FLOW_EXPECT = "rc=0 a1 a2 /a b1 b2 /b c1 c2 /c \n"


def flow_script(c, flow, inner_loop):
    body = "[ $f$k = b1 ] && %s; :" % flow
    if inner_loop:
        body = "for j in 1 2; do [ $f$k = b1 ] && %s; :; done" % flow
    return ("trace=\"\"\ng() {\nfor f in a b c; do\n  for k in 1 2; do\n    %s\n    trace+=\"$f$k \"\n  done\n"
            "  trace+=\"/$f \"\ndone\n}\ng; echo \"rc=$? $trace\"\n" % (FLOW_CTX[c] % body))


def flow_cases(ctx):
    from concurrent.futures import ThreadPoolExecutor
    cases = [(c, fl, il) for c in FLOW_CTX for fl in FLOWS for il in (False, True)]
    env = {"PATH": "/usr/bin:/bin", "HOME": "/var/tmp", "LC_ALL": "C"}

    def one(case):
        s = flow_script(*case)
        rc, o, e = core.run_in_group([ctx.vbrush, "--norc", "--noprofile", "-c", s], 30, cwd="/var/tmp", env=env)
        rb, ob, eb = core.run_in_group(["/usr/bin/bash", "--norc", "--noprofile", "-c", s], 30, cwd="/var/tmp", env=env)
        return s, (None if rc is None else o.decode("utf-8", "replace")), (None if rb is None else ob.decode("utf-8", "replace"))
    with ThreadPoolExecutor(max_workers=8) as ex:
        res = list(ex.map(one, cases))
    viol = []
    for (c, fl, il), (s, got, bash) in zip(cases, res):
        if bash != FLOW_EXPECT:
            raise core.CheckBroken("control-flow containment: bash prints %r for %r" % (bash, s))
        if got != FLOW_EXPECT:
            viol.append({"input": {"script": s}, "why": "`%s` inside a %s context%s changed the parent's loops: trace %r, expected (and bash) %r" % (
                fl, c, " (in a loop of the subshell)" if il else "", got, FLOW_EXPECT)})
    return {"n": len(cases), "violations": viol}


def concurrent_cases(ctx):
    """a background subshell mutates while the parent mutates: the parent must end as if alone"""
    rng = ctx.rng
    viol, n = [], 0
    jobs = []
    for _ in range(24 if ctx.quick else 300):
        sub = gen_body(rng, 1, False)
        par = [m for m in gen_body(rng, 2, False) if m[0] in ("F",)]
        if not sub or not par or has(sub, "U") or has(sub, "L"):
            continue
        a = PRELUDE + "echo @@BEFORE\n__dump \"$@\"\necho @@MID\n{\n%s\n} &\n%s\nwait\necho @@AFTER\n__dump \"$@\"\necho @@END\n" % (body_text(sub), body_text(par))
        b = PRELUDE + "echo @@BEFORE\n__dump \"$@\"\necho @@MID\n%s\necho @@AFTER\n__dump \"$@\"\necho @@END\n" % body_text(par)
        jobs.append((a, b))
    with concurrent.futures.ThreadPoolExecutor(max_workers=8) as ex:
        ra = list(ex.map(lambda t: run_one(ctx.vbrush, t[0]), jobs))
        rb = list(ex.map(lambda t: run_one(ctx.vbrush, t[1]), jobs))
    for (a, b), (da, ea), (db, eb) in zip(jobs, ra, rb):
        n += 1
        if da is None or db is None:
            viol.append({"input": {"script": a[len(PRELUDE):]}, "why": "no dump: %s %s" % (ea, eb)})
            continue
        for s in sorted(set(da[1]) | set(db[1])):
            if da[1].get(s) != db[1].get(s):
                viol.append({"input": {"script": a[len(PRELUDE):]},
                             "why": "with a concurrent background subshell the parent's %s ends differently than alone" % s})
    return {"n": n, "violations": viol}


def search(ctx, res):
    import random
    rng = random.Random(ctx.seed + 3)

    class C:
        pass
    c2 = C(); c2.rng = rng; c2.quick = False
    cases = gen_cases(c2)[:2500]
    texts, rs = run_cases(ctx, cases)
    specv = []
    for (opts, kind, body), (d, err), text in zip(cases, rs, texts):
        if d is None:
            continue
        for why, kn in check_case(opts, kind, body, d):
            if not kn:
                specv.append({"input": {"script": text[len(PRELUDE):]}, "why": why})
    flw = flow_cases(ctx)
    specv += flw["violations"]
    specv.sort(key=lambda v: len(v["input"]["script"]))
    return {"evaluations": len(cases) + flw["n"], "spec_violations": specv[:5]}


def run_code_only(ctx):
    r = search(ctx, {})
    r.update({"distinct_nontrivial": r["evaluations"], "rule": "code vs dump oracle only (model did not build)", "samples": []})
    return r
