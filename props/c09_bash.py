"""C09 — differential part of the verdict: the same flat programs in brush (harness-built binary) and /usr/bin/bash,
`declare -p` of both names after every step; any difference is a violation unless it lies in a recorded narrow class.
No Coq model behind this part (differential only); the scoping/readonly/export theorems live in props/c09.py."""
import itertools, os, re, subprocess, concurrent.futures
from vlib import core

N = "va"
M = "vb"
PROBE = "declare -p va 2>/dev/null || echo 'none va'; declare -p vb 2>/dev/null || echo 'none vb'; echo @@T"

DECLS = ["declare -a %s", "declare -A %s", "declare -i %s", "declare -l %s", "declare -u %s", "declare -c %s",
         "export %s", "declare -x %s", "declare %s", "declare -ai %s", "declare -Au %s", "declare -al %s", "declare -ix %s"]
LOCAL_DECLS = ["local -A %s", "local -a %s", "local -i %s", "local -u %s", "local %s", "local -Ai %s", "local -x %s"]


def writers(n, k, v):
    """every writer of the property's list, aimed at n (element writers use key k)"""
    return [
        ("assign", "%s=%s" % (n, v)), ("append", "%s+=%s" % (n, v)),
        ("elem", "%s[%s]=%s" % (n, k, v)), ("elem+", "%s[%s]+=%s" % (n, k, v)),
        ("arr", "%s=(p %s)" % (n, v)), ("arr+", "%s+=(%s)" % (n, v)), ("arrk", "%s=([%s]=%s q)" % (n, k, v)),
        ("read", "read %s <<< %s" % (n, v)), ("read-a", "read -a %s <<< 'p %s'" % (n, v)),
        ("printf", "printf -v %s %%s %s" % (n, v)), ("printf-elem", "printf -v '%s[%s]' %%s %s" % (n, k, v)),
        ("for", "for %s in %s; do :; done" % (n, v)),
        ("arith", "(( %s = 5 ))" % n), ("arith+", "(( %s += 2 ))" % n), ("arith-elem", "(( %s[1] = 5 ))" % n),
        ("default", ": ${%s:=%s}" % (n, v)), ("default-elem", ": ${%s[%s]:=%s}" % (n, k, v)),
        ("mapfile", "mapfile -t %s <<< %s" % (n, v)), ("getopts", "getopts ab %s -a" % n),
        ("temp-ext", "%s=%s /bin/true" % (n, v)), ("temp-builtin", "%s=%s :" % (n, v)),
        ("temp-func", "%s=%s __g" % (n, v)), ("temp-func-w", "%s=%s __h" % (n, v)), ("temp-func-l", "%s=%s __k" % (n, v)),
        ("temp-read", "%s=%s read __r <<< x" % (n, v)), ("temp-append", "%s+=%s :" % (n, v)),
        ("temp-elem", "%s[%s]=%s /bin/true" % (n, k, v)),
        ("export=", "export %s=%s" % (n, v)), ("declare=", "declare %s=%s" % (n, v)), ("readonly=", "readonly %s=%s" % (n, v)),
        ("unset", "unset %s" % n), ("unset-elem", "unset '%s[%s]'" % (n, k)),
    ]


def gen_programs(ctx):
    """-> list of dicts {family, steps:[(kind, text)], infn}"""
    rng = ctx.rng
    progs = []
    keys = ["foo", "1", "0"]
    vals = ["Ab", "7", "1+2", "xY"]
    # F1: every writer against every declared-but-unset typed variable (global and function-local)
    for d in DECLS:
        for wi in range(len(writers(N, "foo", "Ab"))):
            k, v = rng.choice(keys), rng.choice(vals)
            w = writers(N, k, v)[wi]
            w2 = rng.choice(writers(N, rng.choice(keys), rng.choice(vals)))
            progs.append({"family": "typed-unset", "infn": False, "steps": [("decl", d % N), w, w2]})
    for d in LOCAL_DECLS:
        for wi in range(len(writers(N, "foo", "Ab"))):
            k, v = rng.choice(keys), rng.choice(vals)
            w = writers(N, k, v)[wi]
            w2 = rng.choice(writers(N, rng.choice(keys), rng.choice(vals)))
            progs.append({"family": "typed-unset-local", "infn": True, "steps": [("decl", d % N), w, w2]})
    # F2: attribute removal / re-declaration on a variable carrying a different attribute
    attrs = ["u", "l", "c", "i", "x", "a", "A"]
    removes = ["+l", "+u", "+c", "+i", "+x", "+r", "-l", "-u", "-c", "-i"]
    follow = lambda n: [("assign", "%s=bOb" % n), ("append", "%s+=DeF" % n), ("read", "read %s <<< cD" % n),
                        ("printf", "printf -v %s %%s 'eF gh'" % n), ("for", "for %s in Zz; do :; done" % n)]
    for a in attrs:
        for r in removes:
            for infn in (False, True):
                verb = "local" if infn else "declare"
                init = "%s -%s %s=%s" % (verb, a, N, "(aLice)" if a in "aA" and a != "A" else "aLice") if a != "A" else "%s -A %s" % (verb, N)
                fs = follow(N)
                st = [("decl", init), ("redecl", "%s %s %s" % (verb, r, N)), rng.choice(fs), rng.choice(fs)]
                progs.append({"family": "attr-seq", "infn": infn, "steps": st})
    # F3: random flat programs over the whole writer/attribute list, two names
    for _ in range(300 if ctx.quick else 4000):
        st = []
        for _ in range(rng.randrange(3, 9)):
            n = rng.choice([N, N, M])
            x = rng.random()
            if x < 0.25:
                fl = rng.sample(["-i", "-l", "-u", "-c", "-a", "-A", "-x", "-r", "+i", "+l", "+u", "+x", "+c"], rng.choice([1, 1, 2]))
                if "-a" in fl and "-A" in fl:
                    fl.remove("-A")
                # one command does not both set and clear a letter, nor select two case transforms (not in the property)
                if len(fl) == 2 and (fl[0][1] == fl[1][1] or {fl[0], fl[1]} <= {"-l", "-u", "-c"}):
                    fl = fl[:1]
                init = rng.choice(["", "=" + rng.choice(vals), ""])
                st.append(("decl", "declare %s %s%s" % (" ".join(fl), n, init)))
            else:
                st.append(rng.choice(writers(n, rng.choice(keys), rng.choice(vals))))
        progs.append({"family": "random-flat", "infn": False, "steps": st})
    return progs


FUNCS = "__g() { :; }\n__h() { va=inH; vb+=inH; }\n__k() { local va=inK; vb+=inK; }\n"


def script_of(p):
    lines = [FUNCS.rstrip("\n")]
    if p["infn"]:
        lines.append("__f() {")
    for kind, text in p["steps"]:
        lines.append(text)
        lines.append(PROBE)
    if p["infn"]:
        lines += ["}", "__f", PROBE]
    return "\n".join(lines) + "\n"


def canon(line):
    m = re.match(r"declare -([-A-Za-z]+) (v[ab])(?:=(.*))?$", line)
    if not m:
        return line.strip() if line.startswith("none ") else None
    flags = "".join(sorted(set(m.group(1)) & set("aAcilrux")))
    v = m.group(3)
    if v is None:
        # a declared array without elements prints as `declare -a n` or `declare -a n=()`: the same content
        return (m.group(2), flags, () if set(flags) & set("aA") else None)
    if v.startswith("("):
        items = re.findall(r"\[((?:[^\]\\]|\\.)*)\]=\"((?:[^\"\\]|\\.)*)\"", v)
        items = [(k.strip('"'), x) for k, x in items]
        return (m.group(2), flags, tuple(sorted(items) if "A" in flags else items))
    return (m.group(2), flags, v[1:-1] if len(v) >= 2 and v[0] == '"' else v)


def views(out):
    res = []
    for chunk in out.split("@@T\n")[:-1]:
        res.append(tuple(c for c in (canon(l) for l in chunk.split("\n")) if c is not None))
    return res


def run_shell(binary, text, extra):
    d = os.path.join(core.SCRATCH, "c09bash")
    os.makedirs(d, exist_ok=True)
    path = os.path.join(d, "p-%d-%d.sh" % (os.getpid(), abs(hash((binary, text))) % 10 ** 12))
    with open(path, "w") as f:
        f.write(text)
    try:
        rc, o, _ = core.run_in_group([binary] + extra + [path], 30, stderr=subprocess.DEVNULL,
                                     env={"PATH": "/usr/bin:/bin", "HOME": "/var/tmp", "LC_ALL": "C"}, cwd="/var/tmp")
    finally:
        try:
            os.remove(path)
        except OSError:
            pass
    return o.decode("utf-8", "replace") if rc is not None else None


def run_all(ctx, progs):
    texts = [script_of(p) for p in progs]
    with concurrent.futures.ThreadPoolExecutor(max_workers=8) as ex:
        br = list(ex.map(lambda t: run_shell(ctx.vbrush, t, ["--norc", "--noprofile"]), texts))
        ba = list(ex.map(lambda t: run_shell("/usr/bin/bash", t, ["--norc", "--noprofile"]), texts))
    return texts, br, ba


# ------------------------------------------------------------------ recorded divergences (narrow, decidable)

def binding(view, n):
    for x in view:
        if isinstance(x, tuple) and x[0] == n:
            return x
    return None


def target(text):
    m = re.search(r"\b(v[ab])\b", text)
    return m.group(1) if m else N


def classify(p, i, a, b):
    """a = brush view, b = bash view after step i (None = the listing ended early on that side)"""
    steps = p["steps"]
    kind, text = steps[i] if i < len(steps) else ("end", "")
    n = target(text)
    for cand in (N, M):      # the name whose binding differs (a function body may have written the other one)
        if (binding(a, cand) if a else None) != (binding(b, cand) if b else None):
            n = cand if (a is not None and b is not None) else n
            break
    xa, xb = (binding(a, n) if a else None), (binding(b, n) if b else None)
    fa, fb = (xa[1] if xa else ""), (xb[1] if xb else "")
    prev_i = any(re.search(r"(declare|local)[^;]*-[A-Za-z]*i[A-Za-z]* +(-[A-Za-z]+ +)*%s\\b" % n, t) for _, t in steps[:i + 1])
    nonlit = any(re.search(r"1\+2|eF gh|bOb|DeF|cD|Zz|aLice|getopts", t) for _, t in steps[:i + 1])

    def content_of(x):
        if x is None or x[2] is None:
            return ()
        c = x[2] if isinstance(x[2], tuple) else (("0", x[2]),)
        return () if c == (("0", ""),) else c
    if ("i" in fa or "i" in fb or (p["infn"] and prev_i)) and nonlit:
        return "KF-C09-integer-attr"
    if kind == "decl" and re.fullmatch(r"export v[ab]", text) and xa is None and xb is not None and xb[1:] == ("x", None):
        return "KF-C09-export-unset-name"
    if ("A" in fa or "A" in fb) and kind in ("arr", "arr+", "arrk", "read-a", "mapfile"):
        return "KF-C09-assoc-compound"
    if kind == "unset-elem" and xa is not None and not (set(fa) & set("aA")):
        return "KF-C09-unset-elem-scalar"
    if kind in ("export=", "decl", "declare=", "redecl") and ("r" in fa and "r" in fb) and content_of(xa) == content_of(xb) and fa != fb:
        return "KF-C09-readonly-attr-partial"
    if kind in ("decl", "redecl") and re.search(r" -[A-Za-z]*[aA]", text) and xb is not None and xb[2] in (None, ()) and xa is not None:
        return "KF-C09-declare-array-on-unset"
    if kind == "temp-append" and set(fa) & set("aA"):
        return "KF-C09-temp-append-array"
    if set(fa) & set("clu") and kind in ("append", "elem+", "temp-func-w", "temp-func-l") and set(fa) & set("aA") and fa == fb:
        return "KF-C09-transform-append-elem"
    t = target(text)
    ta, tb = (binding(a, t) if a else None), (binding(b, t) if b else None)
    if kind.startswith("temp") and (("r" in (ta[1] if ta else "")) or ("r" in (tb[1] if tb else ""))):
        return "KF-C09-readonly-temp-shadow"
    if (kind.startswith("arith") or kind == "for") and p["infn"] and "r" in fb:
        return "KF-C09-readonly-error-abort"
    return None


def compare(p, out_brush, out_bash):
    """-> (steps compared, list of (why, known))"""
    if out_brush is None or out_bash is None:
        return 0, [("a shell did not finish within 30 s", None)]
    va, vb = views(out_brush), views(out_bash)
    n = max(len(va), len(vb))
    for i in range(n):
        a = va[i] if i < len(va) else None
        b = vb[i] if i < len(vb) else None
        if a != b:
            kn = classify(p, i, a, b)
            upto = " ; ".join(t for _, t in p["steps"][:i + 1])
            return i, [("%s`%s`: brush shows %r, bash %r" % ("in a function: " if p["infn"] else "", upto, a, b), kn)]
    return n, []
