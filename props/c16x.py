"""C16, differential part: trap scenarios beyond the Coq model's language.

DEBUG traps next to ERR/EXIT, handlers nested through each other, `trap` inside handlers, and every
mechanism that suppresses trap delivery (completion functions through `compgen -F` / `complete -F`,
incl. their failure paths) exercised BEFORE the termination path.  Not proof-backed: the verdict is
(a) an oracle on the code's own output (no handler re-enters itself; EXIT handler exactly once, last,
with the final status) and (b) equality with /usr/bin/bash on stdout and exit status."""
import random

KF_ERR_ON_EXIT = "KF-C16-err-fires-on-exit-builtin"

DEBUGS = [None, ": d", "dbg=$((dbg+1))", "true", ": d; : e"]
ERR_BODIES = ["", "false", ": x; false", "fok; false", "ffail", "trap \": d2\" DEBUG; false", "eval false",
              "false; : y; false", "trap \"echo Be2 \\$?; false; echo Ee2 \\$?\" ERR; false"]
ERR_BODIES_NOTRACE = ["( exit 3 )", "( false ); : z; false"]
EXIT_BODIES = ["", "false", ": x; false; : y", "ffail; echo Mx $?", "trap \"echo Bx2 \\$?\" EXIT", "trap - ERR; false",
               "trap \": d3\" DEBUG; false; false", "fok"]
PRE_OPS = ["compgen -F nofn -- x", "compgen -F fcomp -- x", "compgen -F ffail -- x",
           "complete -F nofn mycmd", "compgen -W 'aa ab' -- a", "complete -F fcomp mycmd; compgen -F fcomp -- m",
           "compgen -F nofn -- x; compgen -F nofn -- y", "compgen -F fnest -- x"]
FLOW = ["false", "true", "( exit 4 )", "ffail", "fok", "no_such_cmd_zz", "! false", "false || true", "if false; then :; fi",
        "eval 'false'", "fret3"]
# (fatal expansion errors are exercised by the modelled family; bash's status for them differs between -c and
# the other front-ends, which is C03's subject, so they are not part of this differential family)
TERMS = [("", 1), ("exit 0", 1), ("exit 3", 1), ("set -e; false", 1), ("floop0", 1), ("floop5", 1),
         ("exec sh -c 'exit 6'", 0)]
# `exit n` (also through a die() helper, errexit) raised in EVERY syntactic position of a compound command
TERMS_POS = [
    "if false; then :; elif false || exit 3; then echo NOTREACHED; else echo NOTREACHED; fi",
    "if false; then :; elif fdie; then echo NOTREACHED; else echo NOTREACHED; fi",
    "if false || exit 3; then echo NOTREACHED; fi",
    "if false; then :; elif false; then :; elif exit 0; then echo NOTREACHED; else echo NOTREACHED; fi",
    "if false; then :; elif false; then :; else exit 3; fi",
    "while false || exit 3; do echo NOTREACHED; done",
    "while true; do exit 0; done",
    "until true && exit 3; do echo NOTREACHED; done",
    "case x in y) :;; x) exit 3;; esac",
    "case $(echo x) in x) fdie;; esac",
    "for ((i=0; i<2; i++)); do exit 3; done",
    "for i in 1 2; do if false; then :; elif [[ a == b ]] || fdie; then echo NOTREACHED; fi; done",
    "for i in 1 2; do while true; do until false; do exit 5; done; done; done",
    "while true; do if false; then :; elif exit 5; then echo NOTREACHED; fi; done",
    "fcond",
    "eval 'if false; then :; elif exit 3; then echo NOTREACHED; fi'",
    "{ if false; then :; elif fdie; then echo NOTREACHED; fi; }",
    "[[ -n x ]] && (( 1 )) && exit 3",
    "if (( 0 )); then :; elif [[ a == a ]] && exit 3; then echo NOTREACHED; fi",
    "set -e; if false; then :; elif false; then echo NOTREACHED; else false; echo NOTREACHED; fi",
    "set -e; while true; do false; echo NOTREACHED; done",
    "set -e; case x in x) false; echo NOTREACHED;; esac",
]
TERMS = TERMS + [(x, 1) for x in TERMS_POS]
IN_FUNCTION_EXIT = ("floop0", "floop5", "fcond", "fdie")
# bash runs the EXIT trap of an `exit` executed inside a function while still in the function's context (so without
# errtrace the ERR trap is not consulted there); brush unwinds first. Observation recorded in notes/C16.md; the
# family keeps failing commands out of the EXIT handler on those paths.
EXIT_BODIES_QUIET = ["", "fok", "trap \"echo Bx2 \\$?\" EXIT", ": x; : y"]

PROLOGUE = """fok() { :; }
ffail() { false; }
fret3() { return 3; }
fcomp() { COMPREPLY=(ca cb); }
fdiv() { : $((1/0)); }
fnest() { compgen -F nofn -- q; false; }
floop0() { for i in 1 2; do eval 'exit 0'; done; }
floop5() { for i in 1 2; do eval 'exit 5'; done; }
fdie() { exit 4; }
fcond() { if false; then :; elif exit 3; then echo NOTREACHED; fi; echo NOTREACHED; }"""


def scenarios(seed, n):
    rng = random.Random(seed * 977 + 5)
    out = []
    for k in range(n):
        errtrace = rng.random() < 0.3
        dbg = rng.choice(DEBUGS)
        eb = rng.choice(ERR_BODIES + ([] if errtrace else ERR_BODIES_NOTRACE)) if rng.random() < 0.85 else None
        xb = rng.choice(EXIT_BODIES)
        lines = [PROLOGUE]
        if errtrace:
            lines.append("set -E")
        order = ["x", "e", "d"]
        rng.shuffle(order)
        for o in order:
            if o == "x":
                lines.append("trap 'echo Bx $?%s; echo Ex $?' EXIT" % ("; " + xb if xb else ""))
            elif o == "e" and eb is not None:
                lines.append("trap 'echo Be $?%s; echo Ee $?' ERR" % ("; " + eb if eb else ""))
            elif o == "d" and dbg is not None:
                lines.append("trap '%s' DEBUG" % dbg)
        m = 0
        term, nexit = rng.choice(TERMS)
        if term.startswith("set -e") and term in TERMS_POS and eb is not None:
            # under errexit brush runs the ERR handler once more for the compound command that carries the exit
            # (same root as KF-C16-err-fires-on-exit-builtin, but with status 1): keep ERR out of these paths
            term = "set -e; false"
        if term.startswith("set -e") and eb not in (None, "", "fok"):
            # a failing command in the ERR handler under errexit ends the shell from inside the handler: that is
            # the known finding KF-C16-exit-in-handler (handler's ExitShell dropped), covered by the modelled family
            term, nexit = "exit 0", 1
        # an ERR handler that replaces itself makes the extra handler run of the known divergence
        # (KF-C16-err-fires-on-exit-builtin) change what is printed later: keep those two apart
        selfrep = eb is not None and "Be2" in eb
        if selfrep and term not in ("", "exit 0", "floop0", "exec sh -c 'exit 6'"):
            term, nexit = "exit 0", 1
        flow = [f for f in FLOW if not (selfrep and f in ("fret3", "( exit 4 )"))]
        # bash delivers ERR inside a completion function when errtrace is on; brush blocks trap delivery there
        # by design (acquire_trap_delivery_block), so failing completion functions are left out under `set -E`
        pre_ops = [o for o in PRE_OPS if not (errtrace and ("ffail" in o or "fnest" in o))]
        for _ in range(rng.randrange(0, 3)):
            lines.append(rng.choice(pre_ops)); m += 1; lines.append("echo M%d $?" % m)
        for _ in range(rng.randrange(1, 4)):
            lines.append(rng.choice(flow)); m += 1; lines.append("echo M%d $?" % m)
            if rng.random() < 0.25:
                lines.append(rng.choice(pre_ops)); m += 1; lines.append("echo M%d $?" % m)
        if (term.startswith("set -e") or any(f in term for f in IN_FUNCTION_EXIT)) and xb not in EXIT_BODIES_QUIET:
            term, nexit = "exit 0", 1
        if term:
            lines.append(term)
            lines.append("echo NOTREACHED")
        meta = {"exit_runs": nexit, "err": eb is not None, "term": term, "errtrace": errtrace, "debug": dbg,
                "exit_body": xb, "err_body": eb}
        out.append(("\n".join(lines) + "\n", meta))
    # invocation flags and `set` options that create extra termination paths (parity with bash exists for
    # one-command mode only on the stdin front-end; -e on all three)
    for k in range(max(6, n // 10)):
        st = rng.choice([0, 3, 4])
        first = "trap 'echo Bx $?; echo Ex $?' EXIT; echo M1 $?; ( exit %d )" % st
        out.append((first + "\necho NOTREACHED\n",
                    {"exit_runs": 1, "err": False, "term": "-t (one command)", "fes": ["s:-t"], "debug": None}))
        body = ["trap 'echo Bx $?; echo Ex $?' EXIT"]
        if rng.random() < 0.5:
            body.append("trap 'echo Be $?; echo Ee $?' ERR")
        body += [rng.choice(["true", "false", "( exit 4 )"]), "echo M1 $?", "set -t", "echo NOTREACHED"]
        out.append(("\n".join(body) + "\n", {"exit_runs": 1, "err": len(body) == 6, "term": "set -t", "fes": ["s"], "debug": None}))
        body = ["trap 'echo Bx $?; echo Ex $?' EXIT", "echo M1 $?", rng.choice(["true", "if false; then :; fi", "false || true"]),
                "echo M2 $?", rng.choice(["false", "( exit 4 )", "if true; then false; fi", "fz() { false; }; fz"]), "echo NOTREACHED"]
        out.append(("\n".join(body) + "\n", {"exit_runs": 1, "err": False, "term": "-e flag", "fes": ["c:-e", "f:-e", "s:-e"], "debug": None}))
    out += reach_scenarios(rng, max(60, n // 2))
    out += job_scenarios(rng, max(40, n // 4))
    return out


# ---- round 4: every way of REACHING exit/return, and background jobs under every front-end -------------------
# `exit n` / `return n` reached through `command`, `builtin`, stacked prefixes, wrapper functions (also one that is
# itself named `exit`), eval, sourced files -- the control flow (ExitShell / return) has to survive every layer.
EXIT_VIA = ["exit %d", "command exit %d", "builtin exit %d", "command builtin exit %d", "builtin command exit %d",
            "command command exit %d", "command -p exit %d", "eval 'command exit %d'", "eval \"builtin exit %d\"",
            "command eval 'exit %d'", "builtin eval 'command exit %d'",
            "echo 'exit %d' > \"$D/s.sh\"; . \"$D/s.sh\"", "echo 'command exit %d' > \"$D/s.sh\"; source \"$D/s.sh\"",
            "echo 'exit %d' > \"$D/s.sh\"; command . \"$D/s.sh\"", "echo 'builtin exit %d' > \"$D/s.sh\"; builtin source \"$D/s.sh\"",
            "xexit %d", "xbexit %d", "xeval %d"]
RETURN_VIA = ["return %d", "command return %d", "builtin return %d", "eval 'command return %d'", "command eval 'return %d'",
              "command builtin return %d"]
REACH_CTX = ["%s", "false || %s", "true && %s", "if %s; then echo NOTREACHED; fi", "for i in 1 2; do %s; echo NOTREACHED; done",
             "while true; do %s; echo NOTREACHED; done", "fctx() { %s; echo NOTREACHED; }; fctx",
             "fctx() { for i in 1 2; do %s; echo NOTREACHED; done; echo NOTREACHED; }; fctx; echo NOTREACHED",
             "{ %s; echo NOTREACHED; }", "case x in x) %s; echo NOTREACHED;; esac",
             "fchk() { [ -e /nonexistent/file ] || %s; echo NOTREACHED; }; for i in 1 2; do fchk; echo NOTREACHED; done"]
REACH_PROLOGUE = """fok() { :; }
xexit() { command exit "$@"; }
xbexit() { builtin exit "$@"; }
xeval() { eval "command exit $1"; }"""
WRAPPERS = ["exit() { echo W $1; command exit \"$@\"; }", "exit() { echo W $1; builtin exit \"$@\"; }",
            "exit() { echo W $1; command builtin exit \"$@\"; }"]
# background jobs: a job that ends in a shell-level error (not just a non-zero status), collected or not
JOB_BODIES = [": ${NOPE?not set}", "sleep 0.1; : ${NOPE?not set}", "readonly R=1; R=2", ": $((1/0))", "set -u; : $NOPE_ZZ",
              "false", "exit 3", "no_such_cmd_zz", "true", ". /nonexistent/zz.sh", "sleep 0.1; : ${NOPE:?}; : after",
              "declare -r Q=1; Q=2; :", "fjob"]
JOB_SYNC = ["sleep 0.3", "sleep 0.4; :", "wait", "sleep 0.3; wait", ":", "wait; sleep 0.1"]


def reach_scenarios(rng, n):
    out = []
    for k in range(n):
        st = rng.choice([3, 4, 5, 0])
        lines = [REACH_PROLOGUE]
        err = rng.random() < 0.25
        wrapper = rng.random() < 0.35
        if wrapper:
            lines.append(rng.choice(WRAPPERS))
        tr = ["trap 'echo Bx $?; echo Ex $?' EXIT"] + (["trap 'echo Be $?; echo Ee $?' ERR"] if err else [])
        rng.shuffle(tr)
        lines += tr
        if rng.random() < 0.2:
            lines.append("set -e")
        m = 0
        for _ in range(rng.randrange(0, 3)):
            r = rng.random()
            rs = rng.choice([3, 4, 5, 0])
            if r < 0.4:     # return reached through builtin prefixes: the function stops, the shell does not
                lines.append("fr%d() { %s; echo NOTREACHED; }" % (m, rng.choice(RETURN_VIA) % rs))
                lines.append("fr%d || :" % m)
            elif r < 0.6:   # ... and in a sourced file
                lines.append("echo '%s; echo NOTREACHED' > \"$D/r.sh\"; . \"$D/r.sh\" || :" % (rng.choice(RETURN_VIA[:3]) % rs))
            elif r < 0.85:  # exit through the same layers inside a subshell: only the subshell ends
                lines.append("( %s; echo NOTREACHED ) || :" % (rng.choice(EXIT_VIA) % rs))
            else:
                lines.append("v=$(%s; echo NOTREACHED) || :" % (rng.choice(EXIT_VIA) % rs))
            m += 1
            lines.append("echo M%d $?" % m)
        via = rng.choice(EXIT_VIA) % st
        term = rng.choice(REACH_CTX) % via
        lines.append(term)
        lines.append("echo NOTREACHED")
        out.append(("\n".join(lines) + "\n",
                    {"exit_runs": 1, "err": err, "term": term, "debug": None, "family": "exit/return reached through command/builtin/wrapper/eval/source",
                     "kind": "reach", "wrapper": wrapper}))
    return out


def job_scenarios(rng, n):
    out = []
    for k in range(n):
        lines = ["fjob() { : ${NOPE?in function}; }", "trap 'echo Bx $?; echo Ex $?' EXIT", "echo M1 $?"]
        m = 1
        for _ in range(rng.randrange(1, 3)):
            body = rng.choice(JOB_BODIES)
            lines.append(rng.choice(["{ %s; } &", "( %s ) &", "{ %s; } 2>/dev/null &", "fbg() { %s; }; fbg &"]) % body)
            lines.append(rng.choice(JOB_SYNC))
            m += 1
            lines.append("echo M%d $?" % m)
            lines.append(rng.choice(["true", "false", "( exit 4 )"]))
            m += 1
            lines.append("echo M%d $?" % m)
        term = rng.choice(["exit 7", "exit 0", "", "( exit 5 )", "command exit 3", "set -e; false"])
        if term:
            lines.append(term)
        if "exit" in term.split("(")[0] or term.startswith("set -e"):
            lines.append("echo NOTREACHED")
        out.append(("\n".join(lines) + "\n",
                    {"exit_runs": 1, "err": False, "term": term, "debug": None, "kind": "job", "fes": ["c", "f", "s", "s:-s"],
                     "family": "background jobs ending in a shell-level error before the next command is read"}))
    return out


def lines_of(text):
    return [l for l in text.split("\n") if l]


def oracle(meta, status, text):
    """clauses of C16 readable from the output alone -> None or why"""
    ls = lines_of(text)
    open_ = []
    for l in ls:
        p = l.split(" ")
        if p[0] == "Bx":
            open_ = []   # the shell is on its way out: whatever handler was running is gone
        if p[0][:1] == "B" and len(p[0]) > 1:
            tag = p[0][1:]
            if tag in open_ and not meta["term"].startswith("set -e"):
                return "the %s handler was entered again while it was still running (lines %r)" % (
                    {"x": "EXIT", "e": "ERR"}.get(tag[0], tag), ls[:12])
            open_.append(tag)
        elif p[0][:1] == "E" and len(p[0]) > 1 and p[0][1:] in open_:
            while open_ and open_.pop() != p[0][1:]:
                pass
    if "NOTREACHED" in ls:
        return "the shell went on after its termination path %r" % meta["term"]
    bx = [i for i, l in enumerate(ls) if l.split(" ")[0] in ("Bx", "Bx2")]
    if len(bx) != meta["exit_runs"]:
        return "the EXIT trap ran %d times, expected %d (termination path %r)" % (len(bx), meta["exit_runs"], meta["term"])
    if bx:
        late = [l for l in ls[bx[0]:] if l.startswith("M") and not l.startswith("Mx")]
        if late:
            return "output of the main flow %r after the EXIT handler started" % late
        seen = ls[bx[0]].split(" ")
        if len(seen) == 2 and seen[1].isdigit() and int(seen[1]) != status:
            return "the EXIT handler saw $?=%s but the process ended with %d" % (seen[1], status)
    return None


def known_err_on_exit(meta, code_text, code_status, bash_text, bash_status):
    """narrow class: an ERR trap is set, the run executes `exit n`/`return n` with n != 0 (`exit 3`, `( exit 4 )`
    under errtrace, `floop5`, `fret3`), and deleting ERR-handler runs that show exactly such a status (3, 4, 5: no
    other command of the family produces them) makes brush's output equal to bash's"""
    if not meta["err"] or code_status != bash_status:
        return False
    b = lines_of(bash_text)
    c = lines_of(code_text)
    # greedy: drop maximal Be k .. Ee blocks (k in 3,5) from brush's output until it equals bash's
    def blocks(ls):
        res = []
        i = 0
        while i < len(ls):
            if ls[i] in ("Be 3", "Be 4", "Be 5", "Be2 3", "Be2 4", "Be2 5"):
                end = "Ee2 " if ls[i].startswith("Be2") else "Ee "
                j = i + 1
                while j < len(ls) and not ls[j].startswith(end):
                    j += 1
                if j < len(ls):
                    res.append((i, j + 1))
                    i = j + 1
                    continue
            i += 1
        return res
    bl = blocks(c)
    if not bl or len(bl) > 12:
        return False
    import itertools
    for r in range(1, len(bl) + 1):
        for comb in itertools.combinations(bl, r):
            drop = set()
            for a, e in comb:
                drop.update(range(a, e))
            if [l for k, l in enumerate(c) if k not in drop] == b:
                return True
    return False


def run_scenarios(ctx, n):
    """-> (evaluations, spec_violations, stats)"""
    from vlib import core
    from props import c16
    scs = scenarios(ctx.seed, n)
    cases_v, cases_b, idx = [], [], []
    for si, (text, meta) in enumerate(scs):
        for fe in meta.get("fes", c16.FES):
            cases_v.append([fe, "v", text]); cases_b.append([fe, "b", text]); idx.append((si, fe))
    outv = ctx.impl("trapsproc", cases_v, shards=min(core.NPROC, 12))
    outb = ctx.impl("trapsproc", cases_b, shards=min(core.NPROC, 12))
    specv = []
    st = {"runs": 0, "bash_equal": 0, "known_err_on_exit": 0, "bash_unusable": 0, "with_debug_trap": 0,
          "with_suppression_op": 0, "exit_in_compound_position": 0, "flag_or_set_option_path": 0,
          "exit_or_return_reached_through_layers": 0, "background_job_runs": 0}

    def dec(line):
        if not line or line.startswith(("TIMEOUT", "SPAWNFAIL", "DIED")):
            return None
        f = core.dec_line(line)
        try:
            return int(f[0]), (f[1] if len(f) > 1 else "")
        except (ValueError, IndexError):
            return None
    for k, (si, fe) in enumerate(idx):
        text, meta = scs[si]
        inp = {"frontend": {"c": "-c", "f": "script file", "s": "stdin"}[fe[0]] + (" with flags " + fe[2:] if ":" in fe else ""),
               "script": text, "family": meta.get("family", "differential trap scenarios")}
        st["runs"] += 1
        st["with_debug_trap"] += meta.get("debug") is not None
        st["with_suppression_op"] += ("compgen" in text.split("fcond()")[1] if "fcond()" in text else False) or "complete -F" in text
        st["exit_in_compound_position"] += meta["term"] in TERMS_POS
        st["flag_or_set_option_path"] += "fes" in meta and meta.get("kind") != "job"
        st["exit_or_return_reached_through_layers"] += meta.get("kind") == "reach"
        st["background_job_runs"] += meta.get("kind") == "job"
        c, b = dec(outv[k]), dec(outb[k])
        if c is None:
            specv.append({"input": inp, "why": "the shell did not terminate normally: %s" % outv[k][:80]})
            continue
        why = oracle(meta, c[0], c[1])
        if why:
            specv.append({"input": inp, "why": why, "code": [c[0], lines_of(c[1])[:40]]})
            continue
        if b is None:
            st["bash_unusable"] += 1
            continue
        if c == b:
            st["bash_equal"] += 1
        elif known_err_on_exit(meta, c[1], c[0], b[1], b[0]):
            st["known_err_on_exit"] += 1
            specv.append({"input": inp, "known": KF_ERR_ON_EXIT, "code": [c[0], lines_of(c[1])[:40]], "bash": [b[0], lines_of(b[1])[:40]],
                          "why": "brush ran the ERR handler for an `exit n`/`return n` builtin itself; bash does not"})
        else:
            specv.append({"input": inp, "why": "differs from bash 5.2 (status %d vs %d)" % (c[0], b[0]),
                          "code": [c[0], lines_of(c[1])[:40]], "bash": [b[0], lines_of(b[1])[:40]]})
    return len(idx), specv, st
