"""C17 — `wait` really waits; live jobs carry distinct job numbers (partial).

Two ties, both on every run:
  api      in-process: op sequences {Add, Finish k, Poll, WaitAll, Wait %n} on the real JobManager of a Shell
           (jobs are `{ cat FIFO_k; echo > MARK_k; } &`, so task completion is controlled, not timed);
           the table after every op is compared with Conc/Jobs.v (today's algorithm, or the repaired one
           when the code has been repaired) and judged by an independent python oracle.
  process  `vbrush` reading commands from stdin (the front-end that polls between commands) and `-c`:
           1-8 background jobs of several shapes and durations, foreground commands in between, CPU sets
           {0}, {0,1}, all; a log file shows what had happened when `wait` returned.
"""
import itertools, os, shutil, subprocess, time
from concurrent.futures import ThreadPoolExecutor
from vlib import core

PID = "C17"
ENTRIES = {"c17_jobs": ("Conc.EntryJobs", "entry_c17_jobs")}
TRUSTED = [
    "modelled, not verified: brush-core/src/jobs.rs JobManager::{add_as_current, poll, wait_all, sweep_completed_jobs}, "
    "Job::{poll_done, wait}, resolve_job_spec (%n), interp.rs spawn_async_ao_list_in_task (one internal task per `&` list)",
    "partial by nature: whether a task has finished is an input of the model (a growing set); that the effects of a "
    "finished task are visible when its JoinHandle/waitpid completes rests on tokio and the kernel and is explored by the "
    "process-level runs (marker/log files), not proved; stopped jobs (terminal job control) are not modelled",
    "oracle: python live-set simulation that never looks at job numbers; bash only for the process-level log format",
]
ASSUMPTIONS = ["process-level durations are sleeps of 0-0.2 s on a loaded machine: finishing orders vary between runs and are not enumerated exhaustively; "
               "the API-level tie controls completion order exactly"]
# KF-C17-job-id-reuse (fixed: 649020c) and KF-C17-two-previous (fixed: 01e8198): the model follows the repaired code
# ([add_fixed]); a duplicate number or a second previous mark is a plain violation again.
KF_ID = None
KF_PREV = None
KF_WAIT_ERR = None      # fixed: e3063e4 — an errored task is a finished, failed job; deviations are plain violations
KF_WAIT_STATUS = "KF-C17-wait-status"
KF_KILL = "KF-C17-kill-jobspec"
_SESSIONS = []


def kill_sessions(sids):
    """SIGKILL every process whose session id is in `sids` (jobs and their children live in process groups of
    their own but cannot leave the session of the shell that started them)"""
    import signal
    sids = set(sids)
    if not sids:
        return
    for ent in os.listdir("/proc"):
        if not ent.isdigit():
            continue
        try:
            st = open("/proc/%s/stat" % ent).read()
            rest = st[st.rindex(")") + 2:].split()
            if int(rest[3]) in sids:
                os.kill(int(ent), signal.SIGKILL)
        except (OSError, ValueError, IndexError):
            pass


def run_session(cmd, timeout, env, cwd, input=None):
    """run a shell in a session of its own; on a timeout the whole session is killed. -> hung?"""
    p = subprocess.Popen(cmd, stdin=subprocess.PIPE if input is not None else subprocess.DEVNULL,
                         stdout=subprocess.DEVNULL, stderr=subprocess.DEVNULL, env=env, cwd=cwd, start_new_session=True)
    _SESSIONS.append(p.pid)
    try:
        p.communicate(input, timeout=timeout)
        return False
    except subprocess.TimeoutExpired:
        p.kill()
        p.communicate()
        kill_sessions([p.pid])
        return True


# ------------------------------------------------------------------ API level
def gen_api(ctx):
    rng = ctx.rng
    cases = []
    alpha = ["A", "F1", "F2", "P", "W", "J1", "J2", "E"]
    depth = 4 if ctx.quick else 5
    for d in range(0, depth):
        for seq in itertools.product(alpha, repeat=d):
            cases.append(["A"] + list(seq))
    for _ in range(250 if ctx.quick else 3000):
        n = rng.randrange(4, 12)
        seq = []
        for _ in range(n):
            r = rng.random()
            if r < 0.4:
                seq.append("A")
            elif r < 0.65:
                seq.append("F%d" % rng.randrange(1, 7))
            elif r < 0.85:
                seq.append("P")
            elif r < 0.90:
                seq.append("J%d" % rng.randrange(1, 5))
            elif r < 0.95:
                k = rng.randrange(1, 4)
                seq.append("M:" + ",".join(rng.choice(["1", "2", "3", "4", "7", "+", "-"]) for _ in range(k)))
            else:
                seq.append("W")
        if rng.random() < 0.25:      # one of the launches is a job that ends with an expansion error
            idx = [i for i, o in enumerate(seq) if o == "A"]
            if idx:
                seq[rng.choice(idx)] = "E"
        cases.append(seq)
    # job specs with HOLES in the table: n launches, a non-suffix subset finishes and is polled away, then
    # `wait %spec...` for live numbers, reaped numbers, numbers that never existed, %+ and %-, alone and mixed
    for n in (2, 3, 4):
        for gone in itertools.chain.from_iterable(itertools.combinations(range(1, n + 1), k) for k in range(1, n)):
            if gone == tuple(range(n - len(gone) + 1, n + 1)):
                continue            # a suffix leaves no hole
            alive = [i for i in range(1, n + 1) if i not in gone]
            base = ["A"] * n + ["F%d" % g for g in gone] + ["P"]
            for a in alive:
                cases.append(base + ["J%d" % a])
            cases.append(base + ["J%d" % gone[0], "W"])
            cases.append(base + ["M:%d,%d" % (gone[0], alive[-1])])
            cases.append(base + ["M:7,+"])
            cases.append(base + ["M:-,%d" % alive[0], "P", "A", "J%d" % (n + 1)])
            cases.append(base + ["A", "M:%d,%d,+" % (alive[0], n + 1), "P"])
    for pre in (["E", "A"], ["A", "E", "A"], ["E"], ["A", "E"]):
        cases.append(pre + ["W", "W"])
        cases.append(pre + ["W", "P", "A", "W"])
        cases.append(pre + ["A", "W", "A", "J1", "W"])
        cases.append(pre + ["W"])
        cases.append(pre + ["J1", "W"])
        cases.append(pre + ["F1", "P", "W"])
    # keep F only for tasks that exist and are not yet released (the harness ignores others; the model would not)
    out = []
    for seq in cases:
        fresh, rel, ok = 1, set(), []
        for o in seq:
            if o in ("A", "E"):
                fresh += 1
                ok.append(o)
            elif o[0] == "F":
                t = int(o[1:])
                if t < fresh and t not in rel:
                    rel.add(t)
                    ok.append(o)
            elif o == "W":
                rel |= set(range(1, fresh))
                ok.append(o)
            else:
                ok.append(o)     # J may release a task: tracked by the oracle from the tables
        out.append(ok)
    uniq = list(dict.fromkeys(tuple(s) for s in out if s))
    return [list(s) for s in uniq]


def fields(seq, variant):
    f = [variant]
    for o in seq:
        if o[0] in "FJ":
            f += [o[0], o[1:]]
        elif o[0] == "M":
            sp = o[2:].split(",")
            f += ["M", str(len(sp))] + sp
        elif o == "E" and variant != "impl":
            f.append("E")
        else:
            f.append(o)
    return f


def parse_table(t):
    """'1-R,2+R' -> [(1,'-','R'),...]"""
    t = t.split("!")[0]
    return [(int(x[:-2]), x[-2], x[-1]) for x in t.split(",") if x]


def oracle(seq, outs):
    """The property on the code's own tables; never uses the model. -> list of (why, known-id or None)"""
    bad = []
    live = []            # creation indices (= task ids) in table order, as the oracle believes
    done_mark = set()    # waited with %n: gone at the next poll
    rel = set()
    fresh = 1
    canonical = True
    prev_tab = []
    errs = set()         # creation indices of jobs that end with an expansion error (class of KF-C17-wait-error-abort)
    tainted = False      # a wait was aborted by such a job: the rest of the sequence runs on a table the oracle cannot follow
    if len(outs) != len(seq) and not any("!timeout" in x for x in outs):
        return [("the code produced %d table lines for %d ops: %r" % (len(outs), len(seq), outs[-1:]), None)]
    for o, line in zip(seq, outs):
        body = line.split("|", 1)[1] if "|" in line else line
        nbad = len(bad)
        if "!timeout" in line:
            bad.append(("%s never returned within the harness budget (4 s) although every task it has to wait for had been "
                        "let finish: it waits for the wrong job or for nothing that will ever happen: %s" % (o, line), None))
            return bad
        if "!" in line:
            in_cls = bool(errs & set(live)) and (o == "W" or o[0] in "JM") and "!err" in line
            if in_cls:
                tainted = True
            bad.append(("%s: %s" % (o, line), KF_WAIT_ERR if (in_cls or tainted) else None))
        tab = parse_table(body)
        idsv = [x[0] for x in tab]
        if o == "E":
            errs.add(fresh)
        if o in ("A", "E"):
            # class of KF-C17-two-previous: the launch demotes a current job while a previous one exists, or the
            # table already carries two previous marks from such a launch
            both = (any(x[1] == "-" for x in prev_tab) and any(x[1] == "+" for x in prev_tab)) or \
                sum(1 for x in prev_tab if x[1] == "-") > 1
            in_class = not canonical
            live.append(fresh)
            fresh += 1
            if len(set(idsv)) != len(idsv):
                bad.append(("two live jobs carry the same number after a launch: %s" % body, None))
            if sum(1 for x in tab if x[1] == "-") > 1:
                bad.append(("two jobs are marked previous: %s" % body, None))
        elif o[0] == "F":
            rel.add(int(o[1:]))
        elif o == "P":
            gone = [t for t in live if t in rel or t in done_mark]
            keep = [t for t in live if t not in gone]
            if gone and live[len(live) - len(gone):] != gone and keep:
                canonical = False
            live = keep
            done_mark -= set(gone)
            if not live:
                canonical = True
            rm = line.split("|")[0][3:]
            nrm = len([x for x in rm.split(",") if x])
            if nrm != len(gone) or len(tab) != len(live):
                bad.append(("poll removed %d jobs and left %d; %d had finished and %d were still running" % (
                    nrm, len(tab), len(gone), len(live)), None))
        elif o == "W":
            ret = [x for x in line.split("|")[0][4:].split("!")[0].split(",") if x]
            want = [str(x[0]) for x in prev_tab]
            if ret != want:
                bad.append(("wait_all returned jobs %r, the table held %r" % (ret, want), None))
            if tab:
                bad.append(("table not empty after wait_all: %s" % body, None))
            rel |= set(range(1, fresh))
            live, done_mark, canonical = [], set(), True
        elif o[0] in "JM":
            specs = [o[1:]] if o[0] == "J" else o[2:].split(",")
            want_st = 0
            for sp in specs:
                pos = None
                for k_, x in enumerate(prev_tab):
                    if (sp == "+" and x[1] == "+") or (sp == "-" and x[1] == "-") or (sp.isdigit() and x[0] == int(sp)):
                        pos = k_
                        break
                if pos is None:
                    want_st = 1
                elif pos < len(live):
                    if live[pos] in errs and pos < len(tab) and tab[pos][2] != "D":
                        # waiting for a job that ends with an error left it unwaited: KF-C17-wait-error-abort
                        tainted = True
                        bad.append(("`wait %%%s`: the job ended with an error and was not marked done: %s" % (sp, line), KF_WAIT_ERR))
                    done_mark.add(live[pos])
                    rel.add(live[pos])
            got_st = line.split("|")[0][2:].split("!")[0]
            if got_st != str(want_st) and "!err" not in line:
                bad.append(("`wait %s` gave status %s; %s expected (1 iff a spec names no job of the table)" % (
                    " ".join("%" + x for x in specs), got_st, want_st), None))
        if sum(1 for x in tab if x[1] == "+") > 1:
            bad.append(("two jobs are marked current: %s" % body, None))
        if len(tab) != len(live):
            bad.append(("after %s the table has %d jobs, %d are live" % (o, len(tab), len(live)), None))
        if tainted:
            bad[nbad:] = [(w, KF_WAIT_ERR) for w, _ in bad[nbad:]]
        prev_tab = tab
    return bad


def eval_api(ctx):
    cases = gen_api(ctx)
    impl = ctx.impl("c17_jobs", [fields(s, "fix") for s in cases], timeout=540)
    use_model = ctx.runner is not None
    m_fix = ctx.model("c17_jobs", [fields(s, "fix") for s in cases]) if use_model else None
    m_old = ctx.model("c17_jobs", [fields(s, "cur") for s in cases]) if use_model else None

    def lines_of(il):
        outs = core.dec_line(il) if not il.startswith(("PANIC", "DIED", "TIMEOUT")) else [il]
        return outs if outs else [""]

    # false-alarm discipline (shared, loaded machine): a case that looks wrong is executed once more, alone;
    # only what reproduces is kept. The job table logic is deterministic given the controlled completions.
    suspicious = [k for k, (seq, il) in enumerate(zip(cases, impl))
                  if any(kn is None for _, kn in oracle(seq, lines_of(il))) or
                  (use_model and il != m_fix[k] and not any(kn for _, kn in oracle(seq, lines_of(il))))]
    if suspicious and len(suspicious) <= 60:
        again = ctx.impl("c17_jobs", [fields(cases[k], "fix") for k in suspicious], timeout=540, shards=2)
        for k, il2 in zip(suspicious, again):
            if il2 != impl[k]:
                ctx.notes.append("api case %d gave a different table on repetition: %r / %r" % (k, impl[k][:120], il2[:120]))
                impl[k] = il2
    mism, specv = [], []
    n_diff = 0
    for k, (seq, il) in enumerate(zip(cases, impl)):
        outs = lines_of(il)
        issues = oracle(seq, outs)
        for why, known in issues:
            v = {"input": {"ops": seq}, "why": why, "code": outs}
            if known:
                v["known"] = known
            specv.append(v)
        if use_model:
            if m_old[k] != m_fix[k]:
                n_diff += 1
            if il != m_fix[k] :
                mism.append({"ops": seq, "code": outs, "model": core.dec_line(m_fix[k])})
    return cases, m_fix, mism, specv, {"api_cases": len(cases), "cases_where_the_old_numbering_differs": n_diff,
                                       "model": "repaired numbering (max id + 1, one previous)"}


# ------------------------------------------------------------------ process level
def job_text(rng, k, dur, log):
    shape = rng.choice(["brace", "andor", "pipe", "subsh", "func"])
    if shape == "brace":
        return "{ sleep %s; echo j%d >> %s; } &" % (dur, k, log)
    if shape == "andor":
        return "sleep %s && echo j%d >> %s &" % (dur, k, log)
    if shape == "pipe":
        return "sleep %s | { cat; echo j%d >> %s; } &" % (dur, k, log)
    if shape == "subsh":
        return "( sleep %s; echo j%d >> %s ) &" % (dur, k, log)
    return "bgf %s %d &" % (dur, k)


def gen_proc(ctx):
    rng = ctx.rng
    cases = []
    for i in range(48 if ctx.quick else 400):
        n = rng.randrange(1, 9)
        mode = rng.choice(["stdin", "stdin", "c"])
        cpus = rng.choice([None, "0", "0,1"])
        cases.append({"n": n, "mode": mode, "cpus": cpus, "seed": rng.randrange(1 << 30),
                      "delay_mid": rng.random() < 0.5, "rounds": rng.choice([1, 1, 2]),
                      "pause": rng.choice([None, None, "jobstart=40", "poll=30,jobstart=10"])})
    return cases


def build_script(c, d, tag):
    import random
    rng = random.Random(c["seed"])
    log = os.path.join(d, "log_%s" % tag)
    jobsf = os.path.join(d, "jobs_%s" % tag)
    lines = ["bgf() { sleep $1; echo j$2 >> %s; }" % log]
    k = 0
    for rnd in range(c["rounds"]):
        for i in range(c["n"]):
            k += 1
            lines.append(job_text(rng, k, rng.choice(["0", "0.03", "0.08", "0.2"]), log))
            if rng.random() < 0.4:
                lines.append("echo fg%d >> %s" % (k, log))
            if c["delay_mid"] and i == c["n"] // 2:
                lines.append("sleep 0.15")
        lines.append("jobs > %s_%d" % (jobsf, rnd))
        lines.append("wait")
        lines.append("echo W%d >> %s" % (rnd, log))
        lines.append("jobs >> %s_after" % jobsf)
    return "\n".join(lines) + "\n", log, jobsf, k


def run_proc_case(ctx, idx, c, d):
    tag = "p%d" % idx
    script, log, jobsf, njobs = build_script(c, d, tag)
    cmd = [ctx.vbrush, "--norc", "--noprofile", "--no-config"]
    if c["cpus"]:
        cmd = ["taskset", "-c", c["cpus"]] + cmd
    env = {"PATH": "/usr/bin:/bin", "HOME": d, "LC_ALL": "C"}
    if c["pause"]:
        env["BRUSH_VERIF_PAUSE"] = c["pause"]
    if c["mode"] == "stdin":
        hung = run_session(cmd, 120, env, d, input=script.encode())
    else:
        hung = run_session(cmd + ["-c", script], 120, env, d)

    def rd(p_):
        try:
            return open(p_).read()
        except OSError:
            return ""
    res = {"hung": hung, "log": rd(log).split(), "after": rd(jobsf + "_after"),
           "jobs": [rd("%s_%d" % (jobsf, r)) for r in range(c["rounds"])], "script": script, "njobs": njobs}
    return res


def judge_proc(c, r):
    """-> list of (why, known)"""
    bad = []
    if r["hung"]:
        return [("the shell did not finish", None)]
    log = r["log"]
    per = r["njobs"] // c["rounds"]
    for rnd in range(c["rounds"]):
        if "W%d" % rnd not in log:
            bad.append(("the line after `wait` (round %d) never ran" % rnd, None))
            continue
        wpos = log.index("W%d" % rnd)
        for k in range(rnd * per + 1, (rnd + 1) * per + 1):
            cnt = log.count("j%d" % k)
            if cnt != 1:
                bad.append(("job %d ran %d times" % (k, cnt), None))
            elif log.index("j%d" % k) > wpos:
                bad.append(("`wait` returned before job %d had finished (log %s)" % (k, " ".join(log)), None))
    fg = [int(x[2:]) for x in log if x.startswith("fg")]
    if fg != sorted(fg):
        bad.append(("foreground output out of order: %r" % fg, None))
    if r["after"].strip():
        bad.append(("jobs still listed after `wait`: %r" % r["after"], None))
    for txt in r["jobs"]:
        nums = [l.split("]")[0][1:] for l in txt.splitlines() if l.startswith("[")]
        if len(set(nums)) != len(nums):
            bad.append(("`jobs` lists a job number twice: %r" % txt, None))
        marks = [l.split("]")[1][:1] for l in txt.splitlines() if l.startswith("[")]
        if marks.count("-") > 1:
            bad.append(("`jobs` marks two jobs as previous: %r" % txt, None))
        if marks.count("+") > 1:
            bad.append(("`jobs` marks two jobs as current: %r" % txt, None))
    return bad


WITNESS = ("cat %(d)s/wf1 >/dev/null &\ncat %(d)s/wf2 >/dev/null &\n: > %(d)s/wf1\nsleep 0.4\n"
           "cat %(d)s/wf3 >/dev/null &\njobs > %(d)s/wjobs\n: > %(d)s/wf2\n: > %(d)s/wf3\nwait\n")


def witness(ctx, d):
    """the finding's own history at the stdin front-end: two launches, the first finishes, a third launch"""
    for f in ("wf1", "wf2", "wf3"):
        p = os.path.join(d, f)
        if os.path.exists(p):
            os.remove(p)
        os.mkfifo(p)
    if run_session([ctx.vbrush, "--norc", "--noprofile", "--no-config"], 60, {"PATH": "/usr/bin:/bin", "HOME": d}, d,
                   input=(WITNESS % {"d": d}).encode()):
        return None
    try:
        return open(os.path.join(d, "wjobs")).read()
    except OSError:
        return None


# ---- directed process-level scenarios on the stdin front-end (which reaps finished jobs before each command):
# job specs with a HOLE in the table, unresolved specs mixed with live ones, erroring jobs, kill %N.
# (name, script with %(L)s = log file, ordering constraints "x<y" on the log, known-finding id for a status/ordering deviation)
JOBSPEC_SCENARIOS = [
    ("wait-%2-after-hole", "{ sleep 0.1; echo a >> %(L)s; } &\n{ sleep 1.2; echo b >> %(L)s; } &\nsleep 0.5\nwait %%2\necho \"w s=$?\" >> %(L)s\nwait\n", ["a<w", "b<w"]),
    ("wait-%1-%2-hole", "{ sleep 0.1; echo a >> %(L)s; } &\n{ sleep 1.2; echo b >> %(L)s; } &\nsleep 0.5\nwait %%1 %%2\necho \"w s=$?\" >> %(L)s\nwait\n", ["a<w", "b<w"]),
    ("wait-%7-%+", "{ sleep 0.6; echo c >> %(L)s; } &\nwait %%7 %%+\necho \"w s=$?\" >> %(L)s\nwait\n", ["c<w"]),
    ("wait-%3-middle-gone", "{ sleep 0.9; echo a >> %(L)s; } &\n{ sleep 0.1; echo b >> %(L)s; } &\n{ sleep 1.3; echo c >> %(L)s; } &\nsleep 0.5\nwait %%3 %%1\necho \"w s=$?\" >> %(L)s\nwait\n", ["a<w", "c<w", "b<w"]),
    ("wait-%--with-hole", "{ sleep 0.1; echo a >> %(L)s; } &\n{ sleep 1.0; echo b >> %(L)s; } &\n{ sleep 0.7; echo c >> %(L)s; } &\nsleep 0.4\nwait %%-\necho \"w s=$?\" >> %(L)s\nwait\necho \"x s=$?\" >> %(L)s\n", ["b<w", "c<x"]),
    ("wait-status-per-spec", "(sleep 0.2; exit 3) &\n(sleep 0.3; exit 4) &\nwait %%1\necho \"w s=$?\" >> %(L)s\nwait %%2\necho \"x s=$?\" >> %(L)s\nwait %%9\necho \"y s=$?\" >> %(L)s\n", []),
    ("erroring-job-then-wait", "{ : ${nope_such:?gone}; } &\n{ sleep 0.6; echo b >> %(L)s; } &\nwait\necho \"w s=$?\" >> %(L)s\n", ["b<w"]),
    ("erroring-jobs-c", "-c:{ echo $((1/0)); } & { readonly r=1; r=2; } & { sleep 0.5; echo b >> %(L)s; } & wait; echo \"w s=$?\" >> %(L)s", ["b<w"]),
    ("kill-%1", "sleep 5 &\n{ sleep 0.3; echo b >> %(L)s; } &\nkill %%1\necho \"k s=$?\" >> %(L)s\nwait\necho \"w s=$?\" >> %(L)s\n", ["b<w"]),
]


def run_jobspec(ctx, binary, args, script, d, tag):
    log = os.path.join(d, "js_%s" % tag)
    if os.path.exists(log):
        os.remove(log)
    env = {"PATH": "/usr/bin:/bin", "HOME": d, "LC_ALL": "C"}
    t0 = time.time()
    if script.startswith("-c:"):
        hung = run_session([binary] + args + ["-c", script[3:] % {"L": log}], 60, env, d)
    else:
        hung = run_session([binary] + args, 60, env, d, input=(script % {"L": log}).encode())
    try:
        lines = open(log).read().split("\n")
    except OSError:
        lines = []
    return {"hung": hung, "log": [l for l in lines if l], "t": time.time() - t0}


def eval_jobspec(ctx, d):
    """verdict: ordering constraints (wait really waited) are absolute; statuses and the rest are compared with bash"""
    specv, res = [], []
    for name, script, order in JOBSPEC_SCENARIOS:
        c = run_jobspec(ctx, ctx.vbrush, ["--norc", "--noprofile", "--no-config"], script, d, "c_" + name)
        b = run_jobspec(ctx, "/usr/bin/bash", ["--norc", "--noprofile"], script, d, "b_" + name)
        words = [l.split()[0] for l in c["log"]]
        why = []
        if c["hung"]:
            why.append(("the shell did not finish within 60 s (bash %.1fs)" % b["t"], None))
        for con in order:
            x, y = con.split("<")
            if y in words and (x not in words or words.index(x) > words.index(y)):
                kn = KF_WAIT_ERR if name.startswith("erroring") else None
                why.append(("`wait` returned before the job writing %r had finished: log %r" % (x, c["log"]), kn))
            if y not in words:
                kn = KF_WAIT_ERR if name.startswith("erroring") else None
                why.append(("the command after `wait` never ran: log %r" % (c["log"],), kn))
        cst = [l for l in c["log"] if " s=" in l]
        bst = [l for l in b["log"] if " s=" in l]
        if cst != bst and not why:
            kn = KF_KILL if name.startswith("kill") else (KF_WAIT_STATUS if ("wait" in name or name.startswith("erroring")) else None)
            why.append(("statuses after wait/kill %r, bash %r" % (cst, bst), kn))
        if name.startswith("kill") and sorted(c["log"]) != sorted(b["log"]) and not why:
            why.append(("log %r, bash %r" % (c["log"], b["log"]), KF_KILL))
        res.append({"name": name, "ok": not why})
        for w, kn in why:
            v = {"input": {"scenario": name, "stdin": script % {"L": "$LOG"} if not script.startswith("-c:") else script}, "why": w}
            if kn:
                v["known"] = kn
            specv.append(v)
    return res, specv


def eval_proc(ctx):
    d = os.path.join(core.SCRATCH, "c17-%d" % os.getpid())
    os.makedirs(d, exist_ok=True)
    try:
        cases = gen_proc(ctx)
        with ThreadPoolExecutor(max_workers=8) as ex:
            results = list(ex.map(lambda a: run_proc_case(ctx, a[0], a[1], d), list(enumerate(cases))))
        specv = []
        for k, (c, r) in enumerate(zip(cases, results)):
            if r["hung"]:   # only a reproducible non-completion counts (shared, loaded machine)
                again = [run_proc_case(ctx, 1000 + 2 * k + i, c, d) for i in range(2)]
                if all(not a["hung"] for a in again):
                    results[k] = again[-1]
                    ctx.notes.append("process case %d stalled once and completed in two repetitions" % k)
        for c, r in zip(cases, results):
            for why, known in judge_proc(c, r):
                v = {"input": {"case": c, "script": r["script"]}, "why": why}
                if known:
                    v["known"] = known
                specv.append(v)
        js_res, js_specv = eval_jobspec(ctx, d)
        specv += js_specv
        w = witness(ctx, d)
        wdup = None
        if w is not None:
            nums = [l.split("]")[0][1:] for l in w.splitlines() if l.startswith("[")]
            wdup = len(set(nums)) != len(nums)
            if wdup:
                specv.append({"input": {"stdin": WITNESS % {"d": "$D"}}, "why": "`jobs` lists a job number twice: %r" % w})
        return cases, specv, {"proc_cases": len(cases), "jobspec_scenarios": js_res,
                              "proof_backed": "api op sequences (model + theorems + correspondence) incl. `wait %spec...` resolution with holes",
                              "differential_only": "process-level runs: log ordering rules (absolute) and statuses vs bash", "witness_duplicate_at_stdin_front_end": wdup,
                              "proc_modes": {m: sum(1 for c in cases if c["mode"] == m) for m in ("stdin", "c")},
                              "proc_cpus": {str(m): sum(1 for c in cases if c["cpus"] == m) for m in (None, "0", "0,1")}}
    finally:
        kill_sessions(_SESSIONS)
        del _SESSIONS[:]
        shutil.rmtree(d, ignore_errors=True)


def run(ctx):
    cases, m_cur, mism, specv, dist = eval_api(ctx)
    pcases, pspecv, pdist = eval_proc(ctx)
    dist.update(pdist)
    small = [k for k, s in enumerate(cases) if len(s) <= 6]
    pick = ctx.rng.sample(small, min(40, len(small)))
    ce = ctx.coq_eval("c17_jobs", [fields(cases[k], "fix") for k in pick])
    if [m_cur[k] for k in pick] != ce:
        raise core.CheckBroken("extracted runner and vm_compute disagree on c17_jobs")
    nontriv = {tuple(s) for s in cases if s.count("A") >= 2 and ("P" in s or "W" in s)}
    ops = {}
    for s in cases:
        for o in s:
            ops[o[0]] = ops.get(o[0], 0) + 1
    dist["ops_by_kind"] = ops
    return {
        "evaluations": len(cases) + len(pcases) + 1,
        "distinct_nontrivial": len(nontriv) + len(pcases),
        "rule": "api: op sequences over {Add, Finish k, Poll, WaitAll, Wait %%n} on the JobManager of an in-process Shell: every sequence "
                "`A` + up to %d ops over {A,F1,F2,P,W,J1,J2} plus random sequences of 4-11 ops with up to 6 tasks (Finish only of live, "
                "unreleased tasks); non-trivial = at least two launches and a Poll or WaitAll. process: 1-8 background jobs per round "
                "(brace group, and-or list, pipeline, subshell, function), durations {0,0.03,0.08,0.2}s, foreground commands in between, "
                "1-2 rounds, stdin front-end or -c, CPU sets {all, 0, 0-1}, optional BRUSH_VERIF_PAUSE job-start/poll delays; plus the "
                "finding's own FIFO-controlled history at the stdin front-end" % (3 if ctx.quick else 4),
        "samples": [{"ops": cases[40 % len(cases)]}, {"ops": cases[-1]}, {"process": pcases[0]}],
        "distribution": dist,
        "extraction_crosscheck": {"cases": len(pick), "agree": len(pick)},
        "model_mismatches": mism,
        "spec_violations": specv + pspecv,
    }


def search(ctx, res):
    import random
    old, q = ctx.rng, ctx.quick
    ctx.rng, ctx.quick = random.Random(ctx.seed + 17), False
    try:
        cases = gen_api(ctx)[-1500:]
    finally:
        ctx.rng, ctx.quick = old, q
    impl = ctx.impl("c17_jobs", [fields(s, "fix") for s in cases], timeout=540)
    specv = []
    for seq, il in zip(cases, impl):
        outs = core.dec_line(il) if not il.startswith(("PANIC", "DIED", "TIMEOUT")) else [il]
        for why, known in oracle(seq, outs):
            if not known:
                specv.append({"input": {"ops": seq}, "why": why, "code": outs})
    specv.sort(key=lambda v: len(v["input"]["ops"]))
    return {"evaluations": len(cases), "spec_violations": specv[:5]}


def run_code_only(ctx):
    r = search(ctx, {})
    r.update({"distinct_nontrivial": r["evaluations"], "rule": "code vs python oracle only (model did not build)", "samples": []})
    return r
