"""C19 — syntax highlighting covers the typed line exactly."""
from vlib import core

PID = "C19"
ENTRIES = {"c19": ("Hl.Entry", "entry_c19"), "c19spec": ("Hl.Entry", "entry_c19spec")}
TRUSTED = []
ASSUMPTIONS = []


def run(ctx):
    return {"evaluations": 0, "distinct_nontrivial": 0, "rule": "", "samples": [], "distribution": {},
            "model_mismatches": [], "spec_violations": []}
