"""C19 — syntax highlighting covers the typed line exactly.

Tie: the harness subcommand `hl` runs `highlight_command` (debug build: the two
`debug_assert!(is_char_boundary)` of `append_span` are live) and, through the public tokenizer /
word-parser API, prints what the highlighter consumed (token positions, word-piece indices,
nested command texts).  The extracted model (Hl/Spans.v) is replayed on exactly that input and
must return the same spans (or PANIC).  Independently of the model the property itself is
checked on the code's spans by `oracle` below (and, on a sample, by the Coq spec `spec_code`).
"""
import itertools, multiprocessing, os, re
from vlib import core

PID = "C19"
ENTRIES = {"c19": ("Hl.Entry", "entry_c19"), "c19spec": ("Hl.Entry", "entry_c19spec")}
TRUSTED = [
    "modelled, not verified: brush-interactive/src/highlighting.rs (highlight_program, highlight_word_piece, "
    "append_span, skip_ahead, set_next_missing_kind, get_kind_for_word, classify_possible_command)",
    "inputs of the model, not modelled: the token list of brush_parser::tokenize_str_with_options (positions in "
    "characters), the piece tree of brush_parser::word::parse (byte indices into the raw word) and the nested "
    "command texts; the harness re-obtains them through the public API for the same (cached, deterministic) "
    "line; the theorems' hypotheses on them (Spans.prog_ok = 0: ordered, nested, on char boundaries, nested "
    "command text embedded in the line) are evaluated by the extracted checker on every case, not proved",
    "oracle bits for command classification (keyword/alias/function/builtin/found on disk) computed by the "
    "harness with the same public Shell APIs the highlighter calls",
    "usize additions in highlighting.rs are assumed not to overflow (offsets are nat in the model)",
]
ASSUMPTIONS = [
    "debug build of the harness (debug_assert! live): a span off a char boundary shows as a panic",
    "the line is valid UTF-8 (reedline hands a &str)",
]

ALPHA = ["'", '"', "$", "(", ")", "{", "}", "`", "\\", "|", "&", ";", "<", ">", "#", " ", "\n", "a", "é", "😀"]
TREE = core.hx("TREE")
HTAG = core.hx("H")
PANIC = core.hx("PANIC")
ENV = {"PATH": "/usr/bin"}
VARIANT = {"clamp_spans": False, "bq_raw": False}     # set by run() from translator/ex_c19.py


def with_variant(opts):
    if VARIANT["bq_raw"]:
        return (opts + "," if opts else "") + "bqraw"
    return opts

KF_HEREDOC = "KF-C19-heredoc-token-order"
KF_BQ = "KF-C19-backquote-escape-offsets"
KF_HANG = "KF-C19-empty-heredoc-tag-hang"


# ------------------------------------------------------------------ the property, on the code's spans

def boundaries(line):
    b, s = 0, {0}
    for ch in line:
        b += len(ch.encode("utf-8"))
        s.add(b)
    return s, b


def oracle(line, spans):
    """None when the spans satisfy the property, else a reason (obviously-right re-statement of
    fuzz_highlight.rs assert_invariants plus 'rendering reproduces the text')."""
    bnd, n = boundaries(line)
    raw = line.encode("utf-8")
    exp = 0
    out = []
    for (s, e, _k) in spans:
        if s > e:
            return "span %d..%d has start > end" % (s, e)
        if e > n:
            return "span %d..%d ends beyond the line (%d bytes)" % (s, e, n)
        if s not in bnd or e not in bnd:
            return "span %d..%d is not on char boundaries" % (s, e)
        if s != exp:
            return "gap or overlap: span starts at %d, previous ended at %d" % (s, exp)
        exp = e
        out.append(raw[s:e])
    if exp != n:
        return "spans cover %d of %d bytes" % (exp, n)
    if b"".join(out) != raw:
        return "rendering the spans does not reproduce the line"
    return None


def parse_code(part):
    """'C n s e k ...' (encoded) -> list of spans, or 'PANIC'/None"""
    f = part.split(" ")
    if f[0] == PANIC:
        return "PANIC"
    try:
        vals = [int(core.unhx(x)) for x in f[1:]]
    except ValueError:
        return None
    if core.unhx(f[0]) != b"C" or not vals or len(vals) != 1 + 3 * vals[0]:
        return None
    return [tuple(vals[1 + 3 * i: 4 + 3 * i]) for i in range(vals[0])]


HANG_RE = re.compile(r"<<[^\n]*\Z")
PREDICT_RE = re.compile(r"<<-?[ \t]*(''|\"\"|\"'\"|'\"')(?=[ \t;|&<>()])[^\n]*([ \t]|[ \t;|&<>()]#[^\n]*)\Z")


def hang_class(line):
    """class of KF-C19-empty-heredoc-tag-hang, granted only to a case that really does not return: the
    input ends on the line of a here-doc operator (no newline after the last `<<`). Every such hang seen
    has an effectively empty here tag ('' "" "'" '"', or a blank inside $( ) where blanks are kept) and
    loops in tokenizer.rs next_token_until / remove_here_end_tag in state NextLineIsHereDoc."""
    return HANG_RE.search(line) is not None


def hang_predicted(line):
    """narrow syntactic prediction of such a loop (0.7 GB/s of allocation): these lines are kept out of
    the batches and a bounded sample of them is run one per process"""
    return PREDICT_RE.search(line) is not None


def known_class(line, hcode):
    """decidable classes of the open findings; hcode is Spans.prog_ok computed by the extracted checker"""
    if hcode == 1 and "<<" in line:
        return KF_HEREDOC
    if hcode == 4 and "`" in line and "\\`" in line:
        return KF_BQ
    return None


# ------------------------------------------------------------------ running the harness with hang detection

def _limits():
    import resource
    resource.setrlimit(resource.RLIMIT_AS, (6 << 30, 6 << 30))


def run_harness(harness, lines, hang_ms=2000, confirm=True):
    """one output per input line; a case on which the process prints HANG (watchdog) or dies is
    re-run alone with a longer limit; confirmed -> 'HANG'/'DIED'. The process is restarted after it."""
    import subprocess
    res = []
    pos = 0
    env = dict(os.environ)
    env.update(ENV)
    while pos < len(lines):
        e = dict(env)
        e["VERIF_HANG_MS"] = str(hang_ms)
        p = subprocess.run([harness, "hl"], input=("\n".join(lines[pos:]) + "\n").encode(), stdout=subprocess.PIPE,
                           stderr=subprocess.DEVNULL, env=e, preexec_fn=_limits)
        got = p.stdout.decode("utf-8", "replace").split("\n")
        if got and got[-1] == "":
            got.pop()
        if len(got) >= len(lines) - pos and (not got or got[-1] != "HANG"):
            res += got[:len(lines) - pos]
            break
        if got and got[-1] == "HANG":
            got.pop()
        res += got
        bad = pos + len(got)
        if bad >= len(lines):
            break
        if not confirm:
            res.append("HANG")
            pos = bad + 1
            continue
        # confirm on its own with a longer limit
        e["VERIF_HANG_MS"] = str(2 * hang_ms)
        p2 = subprocess.run([harness, "hl"], input=(lines[bad] + "\n").encode(), stdout=subprocess.PIPE,
                            stderr=subprocess.DEVNULL, env=e, preexec_fn=_limits)
        g2 = [x for x in p2.stdout.decode("utf-8", "replace").split("\n") if x]
        if g2 and g2[0] != "HANG":
            res.append(g2[0])
        else:
            res.append("HANG" if g2 else "DIED")
        pos = bad + 1
    while len(res) < len(lines):
        res.append("DIED")
    return res


# ------------------------------------------------------------------ one batch: code, model, comparison

def eval_batch(args):
    harness, runner, cases, want_model, suspects_too, variant = args
    if isinstance(cases, tuple):
        cases = expand_exhaustive(cases)
    VARIANT.update(variant)
    cases = [[c[0], c[1], with_variant(c[2])] for c in cases]
    suspects = []
    if not suspects_too:
        suspects = [c for c in cases if hang_predicted(c[0])]
        cases = [c for c in cases if not hang_predicted(c[0])]
    lines = [core.enc_case(c) for c in cases]
    impl = run_harness(harness, lines) if not suspects_too else run_harness(harness, lines, hang_ms=1000, confirm=False)
    res = {"n": len(cases), "suspects": suspects, "mism": [], "specv": [], "hyp": {}, "nontrivial": set(), "panic": 0, "spans_hist": {},
           "hyp_fail_spec_ok": 0, "model_lines": []}
    mlines, idx = [], []
    parts = []
    for k, (c, o) in enumerate(zip(cases, impl)):
        if o in ("DIED", "HANG"):
            v = {"input": {"line": c[0], "cursor": c[1], "opts": c[2]},
                 "why": "the highlighter did not return: %s" % ("no result within the time limit (loop)" if o == "HANG" else "process died")}
            if o == "HANG" and hang_class(c[0]):
                v["known"] = KF_HANG
            res["specv"].append(v)
            res["hang"] = res.get("hang", 0) + 1
            parts.append(None)
            continue
        p = o.find(" " + TREE + " ")
        if p < 0:
            res["specv"].append({"input": {"line": c[0], "cursor": c[1], "opts": c[2]}, "why": "harness output unreadable: " + o[:200]})
            parts.append(None)
            continue
        parts.append(o[:p])
        mlines.append("c19 " + lines[k] + o[p:])
        idx.append(k)
    model = core.run_sharded([runner], mlines, shards=1, timeout=600) if want_model else [None] * len(mlines)
    memo = {}
    for k, ml in zip(idx, model):
        c = cases[k]
        cp = parts[k]
        hcode = None
        if ml is not None:
            q = ml.rfind(" " + HTAG + " ")
            mp = ml[:q] if q >= 0 else ml
            aligned = None
            try:
                hf = ml[q + len(HTAG) + 2:].split(" ") if q >= 0 else []
                hcode = int(core.unhx(hf[0])) if hf else None
                aligned = core.unhx(hf[1]) == b"1" if len(hf) > 1 else None
            except ValueError:
                hcode = None
            if VARIANT["clamp_spans"] and aligned and hcode in (1, 2, 5):
                hcode = 0     # the clamped form needs no order: c19_spans_cover_repo_clamped applies
            res["aligned"] = res.get("aligned", 0) + (1 if aligned else 0)
            cpn = PANIC if cp.startswith(PANIC) else cp
            if cpn != mp:
                res["mism"].append({"line": c[0], "cursor": c[1], "opts": c[2], "code": " ".join(core.dec_line(cp))[:300],
                                    "model": " ".join(core.dec_line(ml))[:300]})
            res["hyp"][hcode] = res["hyp"].get(hcode, 0) + 1
        key = (cp, tuple(len(ch.encode("utf-8")) for ch in c[0]))
        if key in memo:
            why, ns = memo[key]
        else:
            sp = parse_code(cp)
            if sp == "PANIC":
                why, ns = "the highlighter panicked: " + " ".join(core.dec_line(cp))[:200], -1
            elif sp is None:
                why, ns = "unreadable result " + cp[:100], -1
            else:
                why, ns = oracle(c[0], sp), len(sp)
            memo[key] = (why, ns)
        res["spans_hist"][ns] = res["spans_hist"].get(ns, 0) + 1
        if ns >= 2 or ns == -1:
            res["nontrivial"].add(c[0])
        if why:
            if ns == -1:
                res["panic"] += 1
            v = {"input": {"line": c[0], "cursor": c[1], "opts": c[2]}, "why": why,
                 "code": " ".join(core.dec_line(cp))[:300], "hypothesis_code": hcode}
            kc = known_class(c[0], hcode) if hcode is not None else None
            if kc:
                v["known"] = kc
            res["specv"].append(v)
        elif hcode not in (0, None):
            res["hyp_fail_spec_ok"] += 1
    if want_model:
        res["model_lines"] = [(k, mlines[j], model[j]) for j, k in enumerate(idx[:3])]
    # bounded payload back to the parent: counts per class + the shortest few of each
    res["specv_counts"] = {}
    per, keep = {}, []
    res["specv"].sort(key=lambda v: (len(v["input"]["line"]), v["input"]["line"]))
    for v in res["specv"]:
        kk = v.get("known", "new")
        res["specv_counts"][kk] = res["specv_counts"].get(kk, 0) + 1
        per[kk] = per.get(kk, 0) + 1
        if per[kk] <= 8:
            keep.append(v)
    res["specv"] = keep
    res["mism_n"] = len(res["mism"])
    res["mism"] = res["mism"][:8]
    res["nontrivial"] = len(res["nontrivial"])
    return res


def merge(a, b):
    a["n"] += b["n"]
    a["mism"] = (a["mism"] + b["mism"])[:40]
    a["mism_n"] = a.get("mism_n", 0) + b.get("mism_n", 0)
    allv = a["specv"] + b["specv"]
    allv.sort(key=lambda v: (len(v["input"]["line"]), v["input"]["line"]))
    keep, per = [], {}
    for v in allv:
        kk = v.get("known", "new")
        per[kk] = per.get(kk, 0) + 1
        if per[kk] <= 25:
            keep.append(v)
    a["specv"] = keep
    a.setdefault("specv_by_class", {})
    for kk, n in b.get("specv_counts", {}).items():
        a["specv_by_class"][kk] = a["specv_by_class"].get(kk, 0) + n
    for k, v in b["hyp"].items():
        a["hyp"][k] = a["hyp"].get(k, 0) + v
    for k, v in b["spans_hist"].items():
        a["spans_hist"][k] = a["spans_hist"].get(k, 0) + v
    a["nontrivial_n"] = a.get("nontrivial_n", 0) + b["nontrivial"]
    a["panic"] += b["panic"]
    a["hang"] = a.get("hang", 0) + b.get("hang", 0)
    a["hyp_fail_spec_ok"] += b["hyp_fail_spec_ok"]
    a["aligned"] = a.get("aligned", 0) + b.get("aligned", 0)
    return a


def empty():
    return {"n": 0, "mism": [], "specv": [], "hyp": {}, "spans_hist": {}, "panic": 0, "hyp_fail_spec_ok": 0}


# ------------------------------------------------------------------ generators

def cursors_of(line):
    b, out = 0, [0]
    for ch in line:
        b += len(ch.encode("utf-8"))
        out.append(b)
    return out


def exhaustive_batches(maxlen_allcursors, maxlen):
    """descriptors (expanded in the workers, see expand_exhaustive) for all lines over ALPHA up to
    maxlen; every char-boundary cursor up to maxlen_allcursors, beyond that one cursor per line,
    rotating over the boundaries"""
    for n in range(0, maxlen + 1):
        k = 0 if n <= 3 else (n - 3)
        for pre in itertools.product(range(len(ALPHA)), repeat=k):
            yield ("ex", n, pre, n <= maxlen_allcursors)


def expand_exhaustive(desc):
    _tag, n, pre, allc = desc
    out = []
    head = "".join(ALPHA[i] for i in pre)
    for t in itertools.product(range(len(ALPHA)), repeat=n - len(pre)):
        line = head + "".join(ALPHA[i] for i in t)
        cs = cursors_of(line)
        if allc:
            for c in cs:
                out.append([line, str(c), ""])
        else:
            out.append([line, str(cs[(sum(pre) + sum(t) * 7 + t[-1]) % len(cs)]), ""])
    return out


WORDS = ["echo", "ls", "ll", "fn1", "if", "then", "fi", "for", "do", "done", "x=1", "a=$b", "-l", "--opt", "/bin/ls",
         "./nope", "é", "日本", "😀", "foo", "cat", "nosuchcmd", "while", "{", "}", "[[", "]]", "!", "time", "~", "~/x", "a:~b"]
OPS = [";", "|", "||", "&&", "&", ">", ">>", "<", "2>&1", "<<<", "\n", "(", ")", ";;", "|&", "<(", ">("]


def gen_word(rng, depth):
    r = rng.random()
    if r < 0.25:
        return rng.choice(WORDS)
    if r < 0.33:
        return "'" + rng.choice(["", "a b", "é", "x\ny", "$x", "`"]) + "'"
    if r < 0.45:
        inner = "".join(rng.choice(["a", " ", "é", "$x", "${y:-z}", "\\\"", "\\$", "😀", "$(" + gen_line(rng, depth + 1) + ")",
                                    "`" + gen_bq(rng, depth + 1) + "`", "$((1+2))", "\\\n", "\n"])
                        for _ in range(rng.randrange(0, 4))) if depth < 3 else "q"
        return rng.choice(['"', '$"']) + inner + '"'
    if r < 0.55:
        return rng.choice(["$x", "${x}", "${x:-é}", "${#x}", "${x//a/b}", "${x:1:2}", "$1", "$?", "$$", "${a[1]}", "${!x}",
                           "${x:-$(ls)}", "${x:-`ls`}", "$", "${x^^}", "${x@Q}"])
    if r < 0.65 and depth < 3:
        return "$(" + gen_line(rng, depth + 1) + ")"
    if r < 0.73 and depth < 3:
        return "`" + gen_bq(rng, depth + 1) + "`"
    if r < 0.79:
        return rng.choice(["$((1+2))", "$(( (1+2)*3 ))", "$[1+2]", "$((x[1]))", "$(( 1 < 2 ))", "$((é))"])
    if r < 0.84:
        return rng.choice(["$'a\\nb'", "$'\\''", "$'é'", "\\ ", "\\é", "\\\n", "a\\\nb", "\\`", "\\$"])
    if r < 0.9:
        return rng.choice(WORDS) + rng.choice(["", "=", "é", "\"q\"", "'s'", "$x", "\\\nz"]) + rng.choice(WORDS)
    if r < 0.95:
        return rng.choice(["@(a|b)", "!(x)", "*(é)", "a{1,2}b", "{a..c}", "*.txt", "?", "[a-z]*"])
    return rng.choice(["#c", "a#b", "# é 😀", "#"])


def gen_bq(rng, depth):
    s = gen_line(rng, depth)
    if rng.random() < 0.5:
        s = s.replace("`", "\\`")
    if rng.random() < 0.2:
        s = s + rng.choice(["\\\\", "\\`é\\`", "\\`", "\\$x"])
    return s


def gen_heredoc(rng, depth):
    tag = rng.choice(["EOF", "E", "'EOF'", "\"EOF\"", "\\EOF", "é"])
    bare = tag.strip("'\"\\")
    body = "".join(rng.choice(["body\n", "é $x\n", "$(ls)\n", "`ls`\n", "\t tab\n", "\n", "a 'b\n", "😀\n"]) for _ in range(rng.randrange(0, 3)))
    first = rng.choice(["cat", "cat -n", ""]) + " " + rng.choice(["<<", "<<-", "<< "]) + tag
    tail = rng.choice(["", " | wc", "; echo hi", " > f", " && ls é", " <<X\nx\nX"])
    end = rng.choice([bare + "\n", bare, "", bare + "\nls é\n"])
    return first + tail + "\n" + body + end


def gen_line(rng, depth=0):
    if depth == 0 and rng.random() < 0.12:
        return gen_heredoc(rng, depth)
    parts = []
    for _ in range(rng.randrange(1, 5 if depth == 0 else 3)):
        r = rng.random()
        if r < 0.7:
            parts.append(gen_word(rng, depth))
        else:
            parts.append(rng.choice(OPS))
        parts.append(rng.choice([" ", " ", "", "  ", "\t"]))
    return "".join(parts).rstrip(" ") if rng.random() < 0.7 else "".join(parts)


MUT_CH = ALPHA + ["$(", "${", "$((", "))", "<<", "\t", "=", "~", "-", "\\`", "\\\n", "爸"]


def mutate(rng, s):
    for _ in range(rng.randrange(1, 4)):
        r = rng.random()
        i = rng.randrange(0, len(s) + 1)
        if r < 0.4:
            s = s[:i] + rng.choice(MUT_CH) + s[i:]
        elif r < 0.7 and s:
            j = min(len(s), i + rng.randrange(1, 3))
            s = s[:i] + s[j:]
        elif r < 0.85 and s:
            j = min(len(s), i + rng.randrange(1, 6))
            s = s[:j] + s[i:j] + s[j:]
        else:
            s = s[:i]          # truncate: unterminated constructs
    return s


FIXED = [
    "", "echo hi", ": 爸爸 /", "£(", "é(", "$(爸爸) /", "`爸爸` /", "# 爸爸 comment", "echo $( $( ls ) )", "echo $( $( ls é ) é )",
    "echo \"$(echo \"$(echo é)\")\"", "echo `echo \\`echo é\\``", "echo `\\`é`", "x `\\`é\\``", "`\\``", "`\\\\`", "echo `a\\\\b`",
    "cat <<EOF\nbody\nEOF\n", "cat <<EOF; echo hi\nbody\nEOF\n", "cat <<A <<B\na\nA\nb\nB\n", "cat <<EOF\nbody", "cat <<-EOF\n\tx\nEOF",
    "cat <<'EOF'\n$x\nEOF\n", "echo $(cat <<EOF\nx\nEOF\n)", "echo \"unterminated", "echo 'unterminated", "echo $(unterminated",
    "echo ${unterminated", "echo $((1+", "echo `unterminated", "echo a\\", "a\\\nb c", "ec\\\nho hi", "é\\\né é", "for i in 1 2; do echo $i; done",
    "if true; then ls; fi", "x=1 y=2 ls -l", "ll | fn1 && /bin/ls || ./nope", "echo ~ ~/x a:~b", "echo $\"hi $x\"", "echo $'a\\'b' c",
    "echo \"a\\\"b\" 'c' $d ${e} $((1+2)) $(f) `g` #h", "echo a#b #c", "echo 😀😀 | 😀", "((1+2))", "[[ a == b ]]", "echo @(a|b) !(c)",
    "a=(1 2 3)", "a+=(é)", "echo <(ls) >(cat)", "\n\n", "   ", "\t", ";", ";;", "&", "|", "echo x", "echo 　 é",
    "\u0085", "é", "echo \"$(\")\"", "echo $(echo ')')", "echo \"`echo \"a\"`\"", "$", "$$", "$(", "$()", "``", "$(())", "${}", "$[", "$[]",
    "cat <<'' ", "x <<-\"\" ; y\t", "$(<<  ", "<<$(  ", "<<'' #", "<<\"'\" ", "echo `<<  `", "cat <<''", "cat <<'' x",
]


def random_cases(rng, n_lines, maxcursors):
    out = []
    for _ in range(n_lines):
        r = rng.random()
        if r < 0.55:
            s = gen_line(rng)
        elif r < 0.9:
            s = mutate(rng, gen_line(rng))
        else:
            s = "".join(rng.choice(MUT_CH) for _ in range(rng.randrange(6, 14)))
        cs = cursors_of(s)
        if len(cs) > maxcursors:
            cs = [cs[0], cs[-1]] + rng.sample(cs[1:-1], maxcursors - 2)
        opts = "sh" if rng.random() < 0.1 else ""
        for c in cs:
            out.append([s, str(c), opts])
    return out


def fixed_cases():
    out = []
    for s in FIXED:
        if hang_class(s):          # possible tokenizer loop (seconds each): one cursor is enough
            out.append([s, "0", ""])
            continue
        for c in cursors_of(s):
            out.append([s, str(c), ""])
        out.append([s, "0", "sh"])
    return out


# ------------------------------------------------------------------ driver entry points

def run_all(ctx, batches, want_model=True, procs=None):
    """lines in hang_class (predicted to loop in the tokenizer, 0.7 GB/s of allocation) are kept out of
    the batches; a bounded sample of them is run one per process afterwards"""
    procs = procs or int(os.environ.get("VERIF_C19_PROCS", "8" if ctx.quick else "12"))
    tot = empty()
    samples = []
    suspects = []
    from translator import ex_c19
    VARIANT.update(ex_c19.variant())
    work = ((ctx.harness, ctx.runner, b, want_model, False, dict(VARIANT)) for b in batches)
    with multiprocessing.Pool(procs) as pool:
        for r in pool.imap_unordered(eval_batch, work):
            if r.get("model_lines") and len(samples) < 60:
                samples += r["model_lines"]
            suspects += r["suspects"]
            merge(tot, r)
        k = 6 if ctx.quick else 24
        suspects.sort()
        picked = suspects[:2] + ctx.rng.sample(suspects[2:], min(k - 2, len(suspects) - 2)) if len(suspects) > k else suspects
        tot["suspects_total"] = len(suspects)
        tot["suspects_run"] = len(picked)
        for r in pool.imap_unordered(eval_batch, ((ctx.harness, ctx.runner, [c], want_model, True, dict(VARIANT)) for c in picked)):
            merge(tot, r)
    return tot, samples


def all_batches(ctx, rng, scale=1):
    quick = ctx.quick
    yield fixed_cases()
    rc = random_cases(rng, (2500 if quick else 40000) * scale, 12 if quick else 40)
    for i in range(0, len(rc), 10000):
        yield rc[i:i + 10000]
    if quick:
        yield from exhaustive_batches(4, 5)
    else:
        # length 6 is 64 M lines: stop handing out prefixes when the tier's time budget is used up and
        # say in the evidence how far the enumeration got (lengths <= 5 are always complete)
        import time
        t0 = time.time()
        budget = float(os.environ.get("VERIF_C19_BUDGET_S", "1200"))
        done = total = 0
        for d in exhaustive_batches(4, 6):
            if d[1] == 6:
                total += 1
                if time.time() - t0 > budget:
                    continue
                done += 1
            yield d
        ctx.notes.append("exhaustive length 6: %d of %d three-symbol prefixes enumerated within the %d s budget"
                         % (done, total, budget))


def run(ctx):
    tot, samples = run_all(ctx, all_batches(ctx, ctx.rng))
    # extraction cross-check inside Coq (vm_compute) on a sample of model inputs
    rnd = ctx.rng.sample(samples, min(40, len(samples)))
    xcases = [[core.unhx(f).decode("utf-8", "replace") for f in ml.split(" ")[1:]] for (_k, ml, _o) in rnd]
    ce = ctx.coq_eval("c19", xcases)
    xbad = [i for i, (v, (_k, _ml, mo)) in enumerate(zip(ce, rnd)) if v != mo]
    if xbad:
        raise core.CheckBroken("extracted runner and vm_compute disagree on %r: %r vs %r" % (xcases[xbad[0]], ce[xbad[0]], rnd[xbad[0]][2]))
    # the Coq spec (spec_code) agrees with the python oracle on the code's spans of the fixed cases
    fc = [c for c in fixed_cases() if not hang_predicted(c[0])]
    impl = ctx.impl("hl", [[c[0], c[1], with_variant(c[2])] for c in fc], env=ENV)
    sc, exp = [], []
    for c, o in zip(fc, impl):
        p = o.find(" " + TREE + " ")
        sp = parse_code(o[:p]) if p >= 0 else None
        if isinstance(sp, list):
            sc.append([c[0], str(len(sp))] + [str(x) for t in sp for x in t])
            exp.append(oracle(c[0], sp) is None)
    got = ctx.model("c19spec", sc)
    dis = [(c, g) for c, g, e in zip(sc, got, exp) if (core.dec_line(g) == ["0"]) != e]
    if dis:
        raise core.CheckBroken("Coq spec_code and the python oracle disagree on %r" % (dis[0],))
    maxlen = 5 if ctx.quick else 6
    return {
        "evaluations": tot["n"],
        "distinct_nontrivial": tot.get("nontrivial_n", 0),
        "rule": "(line, cursor) pairs: every line over the %d-symbol alphabet %r up to length %d (every char-boundary cursor up to "
                "length %d, one rotating cursor beyond), %d fixed lines (upstream regressions, here-docs, nested substitutions, "
                "unterminated constructs) with every cursor, grammar-generated and mutated lines (bash and sh mode) with every / "
                "sampled cursor; non-trivial = the highlighter returned at least two spans or panicked (counted per batch on "
                "distinct lines); the ranges of the spans do not depend on the cursor (theorem c19_ranges_cursor_independent)"
                % (len(ALPHA), "".join(ALPHA), maxlen, 4, len(FIXED)),
        "samples": [{"line": c[0], "cursor": c[1]} for c in xcases[:3]],
        "distribution": {"spans_per_result(-1=panic)": {str(k): v for k, v in sorted(tot["spans_hist"].items())},
                         "hypothesis_code(0=theorem applies)": {str(k): v for k, v in sorted(tot["hyp"].items(), key=lambda x: str(x[0]))},
                         "hypothesis_failed_but_property_held": tot["hyp_fail_spec_ok"],
                         "all_positions_aligned(hypothesis of the clamped form)": tot.get("aligned", 0),
                         "code_variant(translator)": dict(VARIANT),
                         "panics": tot["panic"], "hangs": tot.get("hang", 0),
                         "lines_predicted_to_loop(hang_predicted)": tot.get("suspects_total", 0),
                         "of_which_run(one per process)": tot.get("suspects_run", 0),
                         "property_violations_by_class": tot.get("specv_by_class", {})},
        "extraction_crosscheck": {"cases": len(rnd), "agree": len(rnd) - len(xbad), "coq_spec_vs_python_oracle_cases": len(sc)},
        "notes": ["code==model compared on every case; %d mismatches" % tot.get("mism_n", 0)],
        "model_mismatches": tot["mism"],
        "spec_violations": tot["specv"],
    }


def search(ctx, res):
    """extended search after a broken tie: code vs the property only, larger random stream"""
    import random
    rng = random.Random(ctx.seed + 1)
    seeds = [[m["line"], str(m.get("cursor", "0")), m.get("opts", "")] for m in res.get("model_mismatches", [])[:50]]

    def batches():
        if seeds:
            yield seeds
        rc = random_cases(rng, 30000, 6)
        for i in range(0, len(rc), 10000):
            yield rc[i:i + 10000]
        yield from exhaustive_batches(3, 5)
    have_model = bool(ctx.runner) and os.path.exists(ctx.runner)
    tot, _ = run_all(ctx, batches(), want_model=have_model)
    sv = [v for v in tot["specv"] if not v.get("known")]
    if not have_model:
        # without the model's checker the class of a violation cannot be decided: report only those
        # that are not here-doc / escaped-backquote shaped
        sv = [v for v in sv if not ("<<" in v["input"]["line"] or "\\`" in v["input"]["line"])]
    return {"evaluations": tot["n"], "spec_violations": sv[:5]}


def run_code_only(ctx):
    r = search(ctx, {})
    r.update({"distinct_nontrivial": r["evaluations"], "rule": "code vs property oracle only (model did not build)", "samples": []})
    return r
