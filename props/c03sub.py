"""C03, differential part (no Coq model): errexit through command substitutions, process substitutions and eval, with
`shopt -s inherit_errexit` on/off and `set -e` toggled inside the substitution, expanded from exempt and non-exempt contexts.
Verdict: brush (in-process harness) vs /usr/bin/bash on status and stdout."""
from props import c02gen as sg
from props import c02lib as lib

# no `case` (brush's parser: finding KF-C02-esac-rparen also hits `$( case ... esac )`), no loops/functions/counters
ALLOWED = set("m t f p x s v { ( i ! && || >".split())


def inner_list(rng):
    """a small command list (markers, probes, statuses, set +-e, if/case/group/subshell, && || !) rendered as text"""
    for _ in range(50):
        g = sg.Gen(rng, opts=True, scoped=1.0, maxdepth=rng.choice([1, 2, 2, 3]), budget=rng.choice([4, 6, 10]),
                   fail_bias=0.5, pipes=0.0)
        l = g.clist(sg.Ctx(g.maxdepth), maxlen=3)
        if set(sg.kinds([l])) <= ALLOWED:
            text = sg.Render().clist(l)
            if "'" not in text:
                return text
    return 'echo m1; false; echo "?=$?"'


WRAP = [
    # `$( ` with a blank: `$((` would start an arithmetic expansion
    ("assign", 'v=$( %s )', 'echo "v=[$v]"'),
    ("arg", 'echo "a=[$( %s )]"', None),
    ("procsub", 'cat <( %s )', None),
    ("eval", "eval '%s'", None),
    ("local", 'lf() { local lv=$( %s ); echo "lv=[$lv] ?=$?"; }; lf', None),
]
CONTEXT = [
    ("plain", "%s"),
    ("if", "if %s; then echo T; else echo F; fi"),
    ("or", "%s || echo O"),
    ("and", "%s && echo A"),
    ("not", "! %s"),
    ("while", "while %s; do echo B; break; done"),
    ("subshell_or", "( %s; echo in ) || echo S"),
    ("fn_in_if", "g() { %s; echo g; }; if g; then echo T; fi"),
]


def gen_one(rng):
    lines = []
    feats = []
    if rng.random() < 0.5:
        lines.append("shopt -s inherit_errexit")
        feats.append("inherit_errexit")
    if rng.random() < 0.6:
        lines.append("set -e")
        feats.append("outer-e")
    for _ in range(rng.randint(1, 3)):
        inner = inner_list(rng)
        if rng.random() < 0.4:
            inner = "set -e; " + inner
            feats.append("inner-e")
        wname, wt, after = rng.choice(WRAP)
        cname, ct = rng.choice(CONTEXT)
        lines.append(ct % (wt % inner))
        lines.append('echo "?=$?"')
        if after:
            lines.append(after)
        feats += [wname, cname]
        if rng.random() < 0.15:
            lines.append(rng.choice(["shopt -u inherit_errexit", "shopt -s inherit_errexit", "set +e", "set -e"]))
    lines.append('echo "end ?=$?"')
    return "\n".join(lines) + "\n", feats


def run(ctx, n):
    rng = ctx.rng
    progs = [gen_one(rng) for _ in range(n)]
    impl = [lib.parse_impl(l) for l in ctx.impl("c02", [[t] for t, _ in progs])]
    bash = lib.bash_many([t for t, _ in progs])
    specv, feats = [], {}
    agree = 0
    for (t, fs), r, b in zip(progs, impl, bash):
        for f in fs:
            feats[f] = feats.get(f, 0) + 1
        if lib.code_eq_bash(r, b):
            agree += 1
            continue
        v = {"input": t, "why": "errexit through substitution/eval: brush %r; bash %r" % (r, b)}
        k = known(t, r, b)
        if k:
            v["known"] = k
        specv.append(v)
    return specv, {"programs": n, "agree_with_bash": agree, "features": feats}


def known(t, r, b):
    """KF-C03-bang-inner-set-e: a `!`-negated command inside which `set -e` is executed (bash then exits on a failure
    inside the negated command, against its manual; brush keeps the exemption)"""
    for line in t.split("\n"):
        if line.startswith("! ") and "set -e" in line:
            return "KF-C03-bang-inner-set-e"
    return None
