"""C03, differential part (no Coq model): errexit through command substitutions, process substitutions and eval, with
`shopt -s inherit_errexit` on/off and `set -e` toggled inside the substitution, expanded from exempt and non-exempt contexts.
Verdict: brush (in-process harness) vs /usr/bin/bash on status and stdout."""
from props import c02gen as sg
from props import c02lib as lib

# no `case` (brush's parser: finding KF-C02-esac-rparen also hits `$( case ... esac )`), no loops/functions/counters
ALLOWED = set("m t f p x s v { ( i ! && || >".split())


def sublists(c):
    """the compound lists directly inside a command"""
    k = c[0]
    if k in ("{", "("):
        return [c[1]]
    if k == "i":
        return [c[1], c[2]] + [x for e in c[3] for x in e if x is not None]
    if k == "w":
        return [c[2], c[3]]
    if k == "o":
        return [c[3]]
    if k == "a":
        return [b for _, _, b in c[1] if b is not None]
    return []


def sete_under_bang(l, under=False):
    """structural class predicate of KF-C03-bang-inner-set-e: some `set -e` leaf lies inside the scope of a `!`-negated
    pipeline of the list, at any nesting depth (groups, subshells, if conditions and branches, redirected compounds)"""
    for first, rest in l:
        for bang, cmds in [first] + [p for _, p in rest]:
            u = under or bang
            for c in cmds:
                while c[0] == ">":
                    c = c[2]
                if c == ("s", "e", True) and u:
                    return True
                if c[0] == "d":
                    continue
                if any(sete_under_bang(sl, u) for sl in sublists(c)):
                    return True
    return False


def has_sete(l):
    return sete_under_bang(l, True)


def inner_list(rng):
    """a small command list (markers, probes, statuses, set +-e, if/group/subshell, && || !): (text, list)"""
    for _ in range(50):
        g = sg.Gen(rng, opts=True, scoped=1.0, maxdepth=rng.choice([1, 2, 2, 3]), budget=rng.choice([4, 6, 10]),
                   fail_bias=0.5, pipes=0.0)
        l = g.clist(sg.Ctx(g.maxdepth), maxlen=3)
        if set(sg.kinds([l])) <= ALLOWED:
            text = sg.Render().clist(l)
            if "'" not in text:
                return text, l
    return 'echo m1; false; echo "?=$?"', [sg.simple(("m", 1)), sg.simple(("f",)), sg.simple(("p",))]


WRAP = [
    # `$( ` with a blank: `$((` would start an arithmetic expansion
    ("assign", 'v=$( %s )', 'echo "v=[$v]"'),
    ("arg", 'echo "a=[$( %s )]"', None),
    ("procsub", 'cat <( %s )', None),
    ("eval", "eval '%s'", None),
    ("local", 'lf() { local lv=$( %s ); echo "lv=[$lv] ?=$?"; }; lf', None),
]
CONTEXT = [
    ("plain", "%s"),
    ("if", "if %s; then echo T; else echo F; fi"),
    ("or", "%s || echo O"),
    ("and", "%s && echo A"),
    ("not", "! %s"),
    ("while", "while %s; do echo B; break; done"),
    ("subshell_or", "( %s; echo in ) || echo S"),
    ("fn_in_if", "g() { %s; echo g; }; if g; then echo T; fi"),
]


def gen_one(rng):
    """-> (script, features, quirk) ; quirk = the program is in the class KF-C03-bang-inner-set-e"""
    lines = []
    feats = []
    quirk = False
    if rng.random() < 0.5:
        lines.append("shopt -s inherit_errexit")
        feats.append("inherit_errexit")
    if rng.random() < 0.6:
        lines.append("set -e")
        feats.append("outer-e")
    for _ in range(rng.randint(1, 3)):
        inner, ast = inner_list(rng)
        inner_e = rng.random() < 0.4
        if inner_e:
            inner = "set -e; " + inner
            feats.append("inner-e")
        wname, wt, after = rng.choice(WRAP)
        cname, ct = rng.choice(CONTEXT)
        # a `set -e` executed inside the scope of a `!`: within the nested list itself, or anywhere in the nested list when the
        # whole substitution/eval command is negated
        if sete_under_bang(ast) or (cname == "not" and (inner_e or has_sete(ast))):
            quirk = True
        lines.append(ct % (wt % inner))
        lines.append('echo "?=$?"')
        if after:
            lines.append(after)
        feats += [wname, cname]
        if rng.random() < 0.15:
            lines.append(rng.choice(["shopt -u inherit_errexit", "shopt -s inherit_errexit", "set +e", "set -e"]))
    lines.append('echo "end ?=$?"')
    return "\n".join(lines) + "\n", feats, quirk


def run(ctx, n):
    rng = ctx.rng
    progs = [gen_one(rng) for _ in range(n)]
    impl = [lib.parse_impl(l) for l in ctx.impl("c02", [[p[0]] for p in progs])]
    bash = lib.bash_many([p[0] for p in progs])
    specv, feats = [], {}
    agree = 0
    nquirk = 0
    for (t, fs, quirk), r, b in zip(progs, impl, bash):
        nquirk += quirk
        for f in fs:
            feats[f] = feats.get(f, 0) + 1
        if lib.code_eq_bash(r, b):
            agree += 1
            continue
        v = {"input": t, "why": "errexit through substitution/eval: brush %r; bash %r" % (r, b)}
        if quirk:
            v["known"] = "KF-C03-bang-inner-set-e"
        specv.append(v)
    return specv, {"programs": n, "agree_with_bash": agree, "in_class_bang_inner_set_e": nquirk, "features": feats}
