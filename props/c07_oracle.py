"""Spec oracle for C07: bash's arithmetic (expr.c) written as a plain tokenizer + recursive
descent parser (one function per precedence level, as in expr.c) + evaluator over Python integers
reduced modulo 2^64.  Independent of the Coq model (which follows rust-peg's precedence climbing
over a table).  Validated against /usr/bin/bash in the thorough tier.

Deliberate deviations from bash 5.2 (bash quirks, not part of the property; listed in notes/C07.md):
  * a negative exponent inside a skipped (short-circuited) branch is not an error here (bash raises
    it even there); * the recursion limit is a parameter (bash: 1024 levels incl. the outermost)."""

M64 = 1 << 64
M63 = 1 << 63
MAX_DEPTH = 1024


def wrap(v):
    return ((v + M63) % M64) - M63


class ArithError(Exception):
    def __init__(self, kind, msg=""):
        Exception.__init__(self, kind + ": " + msg)
        self.kind = kind


ASSIGN_OPS = ["*=", "/=", "%=", "+=", "-=", "<<=", ">>=", "&=", "^=", "|="]
WS = " \t\n"


def digit_value(c, base):
    if "0" <= c <= "9":
        return ord(c) - 48
    if "a" <= c <= "z":
        return ord(c) - 97 + 10
    if "A" <= c <= "Z":
        return ord(c) - 65 + (10 if base <= 36 else 36)
    if c == "@":
        return 62
    if c == "_":
        return 63
    return None


def out_of_brush_range(num):
    """the class of KF-C07-literal-range: 0x without digits; hex/octal literals >= 2^63; decimal
    literals >= 2^64 (the base#digits form wraps in brush as in bash and is not in the class)"""
    import re
    if re.fullmatch(r"0[xX]", num):
        return True
    m = re.fullmatch(r"0[xX]([0-9a-fA-F]+)", num)
    if m:
        return int(m.group(1), 16) >= M63
    if re.fullmatch(r"0[0-7]+", num):
        return int(num, 8) >= M63
    if re.fullmatch(r"[1-9][0-9]*", num):
        return int(num) >= M64
    return False


def strlong(num, flags=frozenset()):
    """bash's strlong(): value of a numeric token (wrapping), or ArithError('number')"""
    if "lit_range" in flags and out_of_brush_range(num):
        raise ArithError("number", "literal outside brush's range")
    base = 10
    i = 0
    if num[0] == "0":
        i = 1
        if len(num) == 1:
            return 0
        if num[1] in "xX":
            base = 16
            i = 2
        else:
            base = 8
    val = 0
    foundbase = False
    while i < len(num):
        c = num[i]
        if c == "#":
            if foundbase:
                raise ArithError("number", "invalid number")
            if base != 10 or val < 2 or val > 64:
                raise ArithError("number", "invalid arithmetic base")
            base = val
            val = 0
            foundbase = True
            if i + 1 >= len(num):
                raise ArithError("number", "invalid integer constant")
        else:
            d = digit_value(c, base)
            if d is None or d >= base:
                raise ArithError("number", "value too great for base")
            val = wrap(val * base + d)
        i += 1
    return val


def tokenize(s, flags=frozenset()):
    """-> list of (kind, text); kinds: num, id, op, end.  `++`/`--` follow expr.c readtok: a
    post-operator after an identifier, a pre-operator if an identifier follows, else two signs."""
    toks = []
    i = 0
    n = len(s)
    ws = WS + "\r" if "cr_ws" in flags else WS
    while True:
        while i < n and s[i] in ws:
            i += 1
        if i >= n:
            toks.append(("end", ""))
            return toks
        c = s[i]
        if c.isascii() and (c.isalpha() or c == "_"):
            j = i
            while j < n and s[j].isascii() and (s[j].isalnum() or s[j] == "_"):
                j += 1
            if j < n and s[j] == "[":
                raise ArithError("unsupported", "array subscript")
            toks.append(("id", s[i:j]))
            i = j
        elif c.isascii() and c.isdigit():
            j = i
            while j < n and s[j].isascii() and (s[j].isalnum() or s[j] in "#@_"):
                j += 1
            toks.append(("num", s[i:j]))
            i = j
        else:
            c1 = s[i + 1] if i + 1 < n else ""
            c2 = s[i + 2] if i + 2 < n else ""
            if c + c1 in ("<<", ">>") and c2 == "=":
                toks.append(("op", c + c1 + "="))
                i += 3
            elif c + c1 in ("==", "!=", ">=", "<=", "<<", ">>", "&&", "||", "**"):
                toks.append(("op", c + c1))
                i += 2
            elif c in "+-" and c1 == c:
                j = i + 2
                while j < n and s[j] in ws:
                    j += 1
                before_id = j < n and s[j].isascii() and (s[j].isalpha() or s[j] == "_")
                after_operand = bool(toks) and (toks[-1][0] == "num" or toks[-1] in (("op", ")"), ("op", "post++"), ("op", "post--")))
                after_pre_atom = len(toks) >= 2 and toks[-1][0] == "id" and toks[-2][0] == "op" and toks[-2][1].startswith("pre")
                if "loose_incr" in flags and after_pre_atom:
                    toks.append(("op", c))          # defect emulation: `++z++9` is read as (++z) + (+9)
                    i += 1
                elif toks and toks[-1][0] == "id":
                    toks.append(("op", "post" + c + c))
                    i += 2
                elif before_id and "loose_incr" in flags and after_operand:
                    toks.append(("op", c))          # defect emulation: binary sign, then unary sign
                    i += 1
                elif before_id:
                    toks.append(("op", "pre" + c + c))
                    i += 2
                elif "no_sign_split" in flags:
                    raise ArithError("syntax", "doubled sign before a non-variable")
                else:
                    toks.append(("op", c))
                    i += 1
            elif c1 == "=" and c in "*/%+-&^|":
                toks.append(("op", c + "="))
                i += 2
            else:
                toks.append(("op", c))
                i += 1


class Parser:
    """expr.c, one method per level; builds a tree.  `bare` = the operand just parsed is a lone
    variable token (bash: lasttok == STR), the only thing an assignment operator may follow."""

    def __init__(self, s, flags=frozenset()):
        self.flags = flags
        if "blank_err" in flags and s != "" and s.strip(WS) == "":
            raise ArithError("syntax", "blank expression")
        self.toks = tokenize(s, flags)
        self.p = 0

    def cur(self):
        return self.toks[self.p]

    def is_op(self, *ops):
        k, t = self.toks[self.p]
        return k == "op" and t in ops

    def adv(self):
        self.p += 1

    def parse(self):
        if self.cur()[0] == "end":
            return ("lit", 0)
        e, _ = self.comma()
        if self.cur()[0] != "end":
            raise ArithError("syntax", "syntax error in expression")
        return e

    def comma(self):
        e, bare = self.assign()
        while self.is_op(","):
            self.adv()
            r, _ = self.assign()
            e, bare = ("bin", ",", e, r), False
        return e, bare

    def assign(self):
        e, bare = self.cond()
        if self.is_op("=", *ASSIGN_OPS):
            op = self.cur()[1]
            if not bare:
                raise ArithError("assign-nonvar", "attempted assignment to non-variable")
            self.adv()
            if self.cur()[0] == "end":
                raise ArithError("syntax", "operand expected")
            r, _ = self.assign()
            if op == "=":
                return ("assign", e[1], r), False
            return ("opassign", op[:-1], e[1], r), False
        return e, bare

    def cond(self):
        c, bare = self.binary(0)
        if self.is_op("?"):
            self.adv()
            if self.cur()[0] == "end" or self.is_op(":"):
                raise ArithError("syntax", "expression expected")
            t, _ = self.comma()
            if not self.is_op(":"):
                raise ArithError("syntax", "`:' expected for conditional expression")
            self.adv()
            if self.cur()[0] == "end":
                raise ArithError("syntax", "expression expected")
            f, _ = self.cond()
            return ("cond", c, t, f), False
        return c, bare

    LEVELS = [["||"], ["&&"], ["|"], ["^"], ["&"], ["==", "!="], ["<=", ">=", "<", ">"], ["<<", ">>"],
              ["+", "-"], ["*", "/", "%"]]

    def binary(self, lvl):
        if lvl == len(self.LEVELS):
            return self.power()
        e, bare = self.binary(lvl + 1)
        while self.is_op(*self.LEVELS[lvl]):
            op = self.cur()[1]
            self.adv()
            r, _ = self.binary(lvl + 1)
            e, bare = ("bin", op, e, r), False
        return e, bare

    def power(self):
        e, bare = self.unary()
        if self.is_op("**"):
            self.adv()
            r, _ = self.power()
            return ("bin", "**", e, r), False
        return e, bare

    def unary(self):
        if "loose_assign" in self.flags and self.cur()[0] == "id" and self.toks[self.p + 1][0] == "op" \
                and self.toks[self.p + 1][1] in ["="] + ASSIGN_OPS:
            # defect emulation: an assignment is accepted wherever an operand may start
            name, op = self.cur()[1], self.toks[self.p + 1][1]
            self.p += 2
            if self.cur()[0] == "end":
                raise ArithError("syntax", "operand expected")
            r, _ = self.assign()
            return (("assign", name, r) if op == "=" else ("opassign", op[:-1], name, r)), False
        if self.is_op("!", "~", "-", "+"):
            op = self.cur()[1]
            self.adv()
            e, _ = self.unary()
            return ("un", op, e), False
        return self.primary()

    def primary(self):
        k, t = self.cur()
        if k == "op" and t in ("pre++", "pre--"):
            self.adv()
            k2, t2 = self.cur()
            if k2 != "id":
                raise ArithError("syntax", "identifier expected after pre-increment or pre-decrement")
            self.adv()
            return ("incr", t, t2), False
        if k == "op" and t == "(":
            self.adv()
            e, _ = self.comma()
            if not self.is_op(")"):
                raise ArithError("syntax", "missing `)'")
            self.adv()
            return e, False
        if k == "num":
            self.adv()
            return ("lit", strlong(t, self.flags)), False
        if k == "id":
            self.adv()
            if self.is_op("post++", "post--"):
                op = self.cur()[1]
                self.adv()
                return ("incr", op, t), False
            return ("ref", t), True
        raise ArithError("syntax", "operand expected")


def parse(s, flags=frozenset()):
    return Parser(s, flags).parse()


def c_div(a, b):
    q = abs(a) // abs(b)
    return q if (a < 0) == (b < 0) else -q


class Evaluator:
    def __init__(self, env, nounset=False, max_depth=MAX_DEPTH, flags=frozenset()):
        self.env = env            # dict name -> string
        self.nounset = nounset
        self.max_depth = max_depth
        self.flags = flags

    def var(self, name, depth):
        """the value string of a variable is itself an expression, one level deeper (expr.c
        pushexp: every level counts, the outermost expression is level 1)"""
        if name not in self.env:
            if self.nounset:
                raise ArithError("unset", name)
            return 0
        if depth + 1 > self.max_depth:
            raise ArithError("reclimit", "expression recursion level exceeded")
        e = parse_value(self.env[name], self.flags)
        return self.ev(e, depth + 1)

    def store(self, name, v):
        self.env[name] = str(v)
        return v

    def ev(self, e, depth):
        k = e[0]
        if k == "lit":
            return e[1]
        if k == "ref":
            return self.var(e[1], depth)
        if k == "un":
            v = self.ev(e[2], depth)
            return {"!": lambda: int(v == 0), "~": lambda: wrap(~v), "-": lambda: wrap(-v), "+": lambda: v}[e[1]]()
        if k == "bin":
            op = e[1]
            if op == "&&":
                return int(self.ev(e[2], depth) != 0 and self.ev(e[3], depth) != 0)
            if op == "||":
                return int(self.ev(e[2], depth) != 0 or self.ev(e[3], depth) != 0)
            a = self.ev(e[2], depth)
            b = self.ev(e[3], depth)
            return binop(op, a, b)
        if k == "cond":
            return self.ev(e[2], depth) if self.ev(e[1], depth) != 0 else self.ev(e[3], depth)
        if k == "assign":
            return self.store(e[1], self.ev(e[2], depth))
        if k == "opassign":
            a = self.var(e[2], depth)
            b = self.ev(e[3], depth)
            return self.store(e[2], binop(e[1], a, b))
        if k == "incr":
            v = self.var(e[2], depth)
            nv = wrap(v + 1) if "++" in e[1] else wrap(v - 1)
            self.store(e[2], nv)
            return nv if e[1].startswith("pre") else v
        raise AssertionError(e)


def binop(op, a, b):
    if op == ",":
        return b
    if op == "+":
        return wrap(a + b)
    if op == "-":
        return wrap(a - b)
    if op == "*":
        return wrap(a * b)
    if op in ("/", "%"):
        if b == 0:
            raise ArithError("div0", "division by 0")
        q = c_div(a, b)
        return wrap(q) if op == "/" else a - q * b
    if op == "**":
        if b < 0:
            raise ArithError("negexp", "exponent less than 0")
        return wrap(pow(a, b, M64))
    if op == "<<":
        return wrap(a << (b % 64))
    if op == ">>":
        return a >> (b % 64)
    if op == "<":
        return int(a < b)
    if op == ">":
        return int(a > b)
    if op == "<=":
        return int(a <= b)
    if op == ">=":
        return int(a >= b)
    if op == "==":
        return int(a == b)
    if op == "!=":
        return int(a != b)
    if op == "&":
        return a & b
    if op == "|":
        return a | b
    if op == "^":
        return a ^ b
    raise AssertionError(op)


_pcache = {}


def parse_value(s, flags=frozenset()):
    key = (s, flags)
    r = _pcache.get(key)
    if r is None:
        try:
            r = Parser(s, flags).parse()
        except ArithError as e:
            r = e
        if len(_pcache) > 50000:
            _pcache.clear()
        _pcache[key] = r
    if isinstance(r, ArithError):
        raise ArithError(r.kind, str(r))
    return r


def evaluate(s, env, nounset=False, max_depth=MAX_DEPTH, flags=frozenset()):
    """-> ('ok', value) | ('err', kind); env (dict) is updated in place.
    kinds: syntax, assign-nonvar, number, div0, negexp, reclimit, unset, unsupported"""
    import sys
    if sys.getrecursionlimit() < 200000:
        sys.setrecursionlimit(200000)
    try:
        e = parse_value(s, flags)
        return ("ok", Evaluator(env, nounset, max_depth, flags).ev(e, 1))
    except ArithError as ex:
        return ("err", ex.kind)
