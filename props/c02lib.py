"""Shared driver code of C02 and C03: run generated programs through the extracted model+spec
(entry `cf`), the real interpreter (harness `c02`) and, as second opinion, /usr/bin/bash."""
import subprocess
from concurrent.futures import ThreadPoolExecutor
from vlib import core
from props import c02gen as sg

FUEL = 60
# scope reasons / ghost marks -> finding id (first match wins)
CLASS_OF = [("scope", "Z", "KF-C02-zero-count"), ("scope", "W", "KF-C02-continue-in-condition"),
            ("scope", "S", "KF-C02-stray-break"), ("ghost", "C", "KF-C02-condition-status")]
# KF-C02-pipeline-stage-flow, KF-C02-bang-return-exit and KF-C03-compound are repaired in the code and the model follows
# the repaired code: they are no classes any more. Their witnesses stay in `witnesses()` as regression programs - if one
# of the defects comes back, brush differs from model, spec and bash on them and the check reports a VIOLATION.


def parse_impl(line):
    if line.startswith(("PANIC", "DIED", "TIMEOUT")) or not line:
        return None
    f = line.split(" ")
    if len(f) < 4:
        return None
    return {"status": f[0], "flow": f[1], "last": f[2], "out": core.unhx(f[3]).decode("utf-8", "replace")}


def parse_cf(line):
    """-> (model, spec, scope)"""
    f = core.dec_line(line)
    if "|" not in f:
        raise core.CheckBroken("model runner returned %r" % line[:200])
    i = f.index("|")
    m, rest = f[:i], f[i + 1:]
    j = rest.index("|")
    s, scope = rest[:j], rest[j + 1] if len(rest) > j + 1 else ""
    extra = rest[j + 2] if len(rest) > j + 2 else ""
    hazard = "K" in extra
    md = {"kind": m[0]} if m[0] != "ok" else {"kind": "ok", "status": m[1], "flow": m[2], "last": m[3], "out": m[4],
                                               "ghost": m[5] if len(m) > 5 else ""}
    md["hazard"] = hazard      # Scope.v parser_hazard: a `case` inside a ( ... ) subshell
    md["stage_call"] = "U" in extra    # Scope.v stage_call_hazard: function call in a stage of a multi-stage pipeline
    sd = {"kind": s[0]} if s[0] == "fuel" else {"kind": s[0], "last": s[1], "out": s[2]}
    return md, sd, scope


def bash_run(script, timeout=5):
    """one oracle run in its own session/process group; the whole group is killed on timeout and after completion,
    so that nothing (e.g. a spinning `while continue`, a stray pipeline stage) survives the case"""
    import os, signal
    p = subprocess.Popen(["/usr/bin/bash", "-c", script], stdin=subprocess.DEVNULL, stdout=subprocess.PIPE,
                         stderr=subprocess.DEVNULL, start_new_session=True)
    try:
        out, _ = p.communicate(timeout=timeout)
        res = {"status": str(p.returncode), "out": out.decode("utf-8", "replace")}
    except subprocess.TimeoutExpired:
        res = {"status": "timeout", "out": ""}
    finally:
        try:
            os.killpg(p.pid, signal.SIGKILL)
        except (ProcessLookupError, PermissionError):
            pass
        try:
            p.communicate(timeout=5)
        except Exception:
            pass
    return res


def bash_many(scripts):
    with ThreadPoolExecutor(8) as ex:
        return list(ex.map(bash_run, scripts))


def syntax_error_like(r):
    """what the harness reports when brush rejects the whole script: nothing ran, fatal error, status 2"""
    return r is not None and r["status"] == "2" and r["flow"] == "X" and r["last"] == "2" and r["out"] == ""


def known_class(m, scope, ignore=(), r=None):
    """class of a program (decided by the Coq predicates through entry `cf`), given brush's result `r` for the
    parser class: KF-C02-esac-rparen = Scope.v parser_hazard (a `case` inside a subshell) AND brush rejected the script"""
    if "KF-C02-esac-rparen" not in ignore and m.get("hazard") and syntax_error_like(r):
        return "KF-C02-esac-rparen"
    for where, letter, fid in CLASS_OF:
        if fid not in ignore and letter in (scope if where == "scope" else m.get("ghost", "")):
            return fid
    return None


def fixed_ids():
    """findings whose repair has been merged (status "fixed: <commit>" in known_findings.json): inside such a
    class the model still describes the unrepaired code, so there the code is compared with the spec only"""
    import json, os
    try:
        fs = json.load(open(os.path.join(core.ROOT, "known_findings.json")))["findings"]
    except (OSError, ValueError, KeyError):
        return set()
    return {f["id"] for f in fs if str(f.get("status", "")).startswith("fixed")}


def in_fixed_class(m, fixed):
    g = m.get("ghost", "")
    ids = {fid for where, letter, fid in CLASS_OF if where == "ghost" and letter in g}
    return bool(ids) and ids <= fixed


def code_eq_model(r, m):
    return r is not None and all(r[k] == m[k] for k in ("status", "flow", "last", "out"))


def code_eq_spec(r, s):
    """the observation of C02: how the program ended, final status / $?, stdout"""
    if r is None or s["kind"] == "fuel":
        return False
    fl = {"norm": "N", "exit": "X", "ret": "R"}[s["kind"]]
    return r["flow"] == fl and r["status"] == s["last"] and r["last"] == s["last"] and r["out"] == s["out"]


def code_eq_bash(r, b):
    return r is not None and r["flow"] in ("N", "X") and r["status"] == b["status"] and r["out"] == b["out"]


def nontrivial(prog, m):
    ks = sg.kinds(prog)
    return m["kind"] == "ok" and m["out"].count("\n") >= 2 and any(k in ks for k in ("w", "o", "i", "a", "d", "(", "&&", "||", "!"))


def evaluate(ctx, progs, bash_sample=0, tolerate=None):
    """returns dict with model_mismatches, spec_violations, statistics"""
    cf = [parse_cf(l) for l in ctx.model("cf", [[str(FUEL)] + sg.encode(p) for p in progs])]
    keep = [i for i, (m, s, sc) in enumerate(cf) if m["kind"] == "ok"]
    scripts = {i: sg.render(progs[i]) for i in keep}
    impl = dict(zip(keep, [parse_impl(l) for l in ctx.impl("c02", [[scripts[i]] for i in keep])]))
    mism, specv, stats = [], [], {"fuel_out": len(progs) - len(keep), "in_theorem": 0, "known_class": {}, "repaired_upstream": 0,
                                  "outside_theorem_pipes_only": 0}
    cand = []
    fixed = fixed_ids()
    stats["model_obsolete_in_fixed_class"] = 0
    for i in keep:
        m, s, scope = cf[i]
        r = impl[i]
        if in_fixed_class(m, fixed):
            # the run passed a divergence point that has been repaired in the code: spec is the reference
            stats["model_obsolete_in_fixed_class"] += 1
            if not code_eq_spec(r, s) and known_class(m, scope, ignore=fixed, r=r) is None:
                cand.append(i)
            continue
        kc = known_class(m, scope, r=r)
        in_thm = scope == "" and m["ghost"] == ""
        if in_thm:
            stats["in_theorem"] += 1
        elif kc is None:
            stats["outside_theorem_pipes_only"] += 1
        eq_spec = code_eq_spec(r, s)
        if kc == "KF-C02-esac-rparen":
            pass            # brush's parser rejected the script: nothing ran, the interpreter model does not apply
        elif "S" in scope and m.get("stage_call") and not code_eq_model(r, m):
            # known class stray-break + a function called from a pipeline stage: brush's "not yet implemented" error
            # leaves Pipeline::execute as an Err, which the model has no outcome for (Scope.v stage_call_hazard)
            stats["model_not_applicable_stage_call"] = stats.get("model_not_applicable_stage_call", 0) + 1
        elif not code_eq_model(r, m):
            if kc and eq_spec:
                stats["repaired_upstream"] += 1
            else:
                mism.append({"script": scripts[i], "code": r, "model": m, "spec": s, "scope": scope})
        if not eq_spec:
            cand.append(i)
    bres = dict(zip(cand, bash_many([scripts[i] for i in cand])))
    spec_bash_dis = []
    for i in cand:
        m, s, scope = cf[i]
        r, b = impl[i], bres[i]
        if code_eq_bash(r, b):
            # code = bash != spec: the spec is wrong here, never a violation
            spec_bash_dis.append({"script": scripts[i], "spec": s, "bash": b})
            continue
        kc = known_class(m, scope, ignore=fixed, r=r)
        v = {"input": scripts[i], "why": "brush: %r; specification (bash semantics): %r; bash: %r" % (r, s, b),
             "class": {"scope": scope, "ghost": m["ghost"]}}
        if kc:
            v["known"] = kc
            stats["known_class"][kc] = stats["known_class"].get(kc, 0) + 1
        specv.append(v)
    # minimise the first unclassified violations (delta debugging on the program tree)
    fresh = [k for k, i in enumerate([j for j in cand if not code_eq_bash(impl[j], bres[j])]) if not specv[k].get("known")][:2]
    order = [j for j in cand if not code_eq_bash(impl[j], bres[j])]
    for k in fresh:
        try:
            small = sg.shrink(progs[order[k]], lambda ps: new_violation(ctx, ps), max_steps=40)
            specv[k]["input_minimised"] = sg.render(small)
            specv[k]["input"], specv[k]["input_full"] = specv[k]["input_minimised"], specv[k]["input"]
        except Exception as e:          # minimisation is a convenience only
            specv[k]["minimise_error"] = repr(e)[:200]
    # second opinion for the specification itself
    sb = {"compared": 0, "agree": 0, "tolerated": 0, "disagree": []}
    if bash_sample:
        idx = [i for i, (m, s, sc) in enumerate(cf) if s["kind"] in ("norm", "exit")]
        idx = idx if bash_sample >= len(idx) else ctx.rng.sample(idx, bash_sample)
        bs = bash_many([sg.render(progs[i]) for i in idx])
        for i, b in zip(idx, bs):
            s = cf[i][1]
            sb["compared"] += 1
            if b["status"] == s["last"] and b["out"] == s["out"]:
                sb["agree"] += 1
            elif tolerate and tolerate(progs[i]):
                sb["tolerated"] += 1
            else:
                sb["disagree"].append({"script": sg.render(progs[i]), "spec": s, "bash": b})
    sb["code_eq_bash_ne_spec"] = spec_bash_dis[:5]
    sb["disagree"] = sb["disagree"][:5] + ([{"more": len(sb["disagree"]) - 5}] if len(sb["disagree"]) > 5 else [])
    distinct = {scripts[i] for i in keep if nontrivial(progs[i], cf[i][0])}
    dist = {}
    for i in keep:
        for k, n in sg.kinds(progs[i]).items():
            dist[k] = dist.get(k, 0) + n
    return {"cf": cf, "keep": keep, "impl": impl, "mism": mism, "specv": specv, "stats": stats, "spec_vs_bash": sb,
            "distinct": len(distinct), "constructs": dist, "evaluated": len(keep)}


def new_violation(ctx, ps):
    """per program: brush differs from the spec and from bash, and the program is in no known class"""
    cf = [parse_cf(l) for l in ctx.model("cf", [[str(FUEL)] + sg.encode(p) for p in ps])]
    keep = [i for i, (m, s, sc) in enumerate(cf) if m["kind"] == "ok" and known_class(m, sc) is None]
    impl = dict(zip(keep, [parse_impl(l) for l in ctx.impl("c02", [[sg.render(ps[i])] for i in keep])]))
    out = [False] * len(ps)
    for i in keep:
        if known_class(cf[i][0], cf[i][2], r=impl[i]) is not None:
            continue        # a reduction step must not wander into a known class (e.g. the parser finding)
        if not code_eq_spec(impl[i], cf[i][1]):
            out[i] = not code_eq_bash(impl[i], bash_run(sg.render(ps[i])))
    return out


def crosscheck(ctx, progs, n=36):
    pool = [i for i in range(len(progs)) if sg.size(progs[i]) <= 60] or list(range(min(5, len(progs))))
    small = ctx.rng.sample(pool, min(n, len(pool)))
    cases = [[str(FUEL)] + sg.encode(progs[i]) for i in small]
    a = ctx.model("cf", cases)
    b = ctx.coq_eval("cf", cases)
    bad = [cases[k] for k in range(len(cases)) if a[k] != b[k]]
    if bad:
        raise core.CheckBroken("extracted runner and vm_compute disagree on %r" % (bad[0],))
    return {"cases": len(cases), "agree": len(cases)}


# the witnesses of coq/theories/Shell/Witness.v, as programs
def witnesses():
    s, one = sg.seq, sg.simple
    return {
        "w_stray": [s(("b", 1), ("m", 1))],
        "w_overcount": [s(("o", False, 2, s(("o", False, 1, s(("m", 1), ("b", 5))), ("m", 2))), ("m", 3))],
        "w_zero": [s(("o", False, 2, s(("m", 1), ("b", 0), ("m", 2))))],
        "w_fn_break": [s(("d", 0, ("{", s(("b", 1)))), ("o", False, 2, s(("l", 0), ("p",))))],
        "w_stage_leak": [[sg.ao(sg.pl(("t",), ("x", 3))), one(("m", 1))]],
        "w_bang_exit": [s(("(", [one(("x", 3), bang=True)]), ("p",))],
        "w_cond_status": [s(("o", False, 1, s(("w", False, [one(("b", 1), bang=True)], s(("m", 1))), ("p",))))],
        "w_compound": [s(("s", "e", True), ("{", [sg.ao(sg.pl(("f",)), (True, sg.pl(("t",))))]), ("m", 1))],
        "w_cont_cond": [s(("w", False, s(("c", 1)), s(("t",))), ("m", 1))],
    }


TEXT_PROBES = [
    ("KF-C02-esac-rparen", "( case x in x) echo a ;; esac )\necho \"?=$?\"\n"),
    ("KF-C02-esac-rparen", "( case x in x) echo a ;; esac | cat )\necho \"?=$?\"\n"),
    ("KF-C02-esac-rparen", "( ! case x in (x) echo a ;; esac )\necho \"?=$?\"\n"),
    ("KF-C02-esac-rparen", "echo \"[$( case x in x) echo a ;; esac )]\"\necho \"?=$?\"\n"),
    ("KF-C02-return-negative-needs-dashes", "f() { return -2; }; f; echo \"?=$?\"\n"),
    ("KF-C02-nested-subshell", "( ( exit 3 ) )\necho \"?=$?\"\n"),
]


def text_probes(ctx):
    """findings that live in the parser and cannot be expressed as a program of the fragment"""
    out = []
    impl = [parse_impl(l) for l in ctx.impl("c02", [[t] for _, t in TEXT_PROBES])]
    for (fid, t), r in zip(TEXT_PROBES, impl):
        b = bash_run(t)
        if not code_eq_bash(r, b):
            out.append({"input": t, "why": "brush: %r; bash: %r" % (r, b), "known": fid})
    return out
