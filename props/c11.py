"""C11 — pipelines and command substitutions move all data, in order, without deadlock (partial).

Three correspondences on every run:
  sched   process level (`vbrush -c`): pipelines of 2-4 stages, every stage a (behaviour, form)
          pair; the Coq transition system (Conc/Sched.v, run under three deterministic schedulers)
          predicts hang / output / statuses; an independent python flow oracle and /usr/bin/bash
          say what the property demands.
  status  in-process: `$?` / PIPESTATUS / pipefail / `!` vs Conc/Status.v pipeline_status.
  strip   in-process: value of `$(...)` vs Conc/Status.v cmdsub_value.
"""
import hashlib, os, shutil, subprocess, itertools, time
from concurrent.futures import ThreadPoolExecutor
from vlib import core

PID = "C11"
ENTRIES = {"c11_sched": ("Conc.Entry", "entry_c11_sched"),
           "c11_known": ("Conc.Entry", "entry_c11_known"),
           "c11_status": ("Conc.Entry", "entry_c11_status"),
           "c11_strip": ("Conc.Entry", "entry_c11_strip")}
TRUSTED = [
    "modelled, not verified: brush-core/src/interp.rs spawn_pipeline_processes (pipes up front, simple commands "
    "spawned, compound/function stages awaited inside the loop), wait_for_pipeline_processes_and_update_status, "
    "`!`; commands.rs execute_via_builtin_in_owned_shell / execute_via_function / invoke_command_in_subshell_and_get_output; "
    "expansion.rs command-substitution NUL removal and trailing-newline trim",
    "partial by nature: the theorems are about the transition-system model of the algorithm (bounded FIFO with "
    "counted ends, stages as stream programs, every interleaving and every split of reads/writes); kernel pipe "
    "semantics, SIGPIPE delivery, tokio scheduling and the byte-wise `read` are explored by the process-level runs, not proved",
    "stage programs are abstracted to source / drop d / take t / forward-or-swallow over whole 64-byte lines "
    "(1 model unit = 1 line, capacity 1024 units = 64 KiB); `head` over-reading is not modelled",
    "the model follows the repaired algorithm (6cea0bb: every stage is started before any is awaited); the old inline "
    "algorithm survives only as the refutation example c11_inline_stage_deadlock_refuted and as a label on generated cases",
    "oracles: /usr/bin/bash 5.2.15 on the same script; a python flow function (composition of the stage functions)",
]
ASSUMPTIONS = ["Linux pipe capacity is 64 KiB (16 pages) and small writes coalesce; generated payloads stay >= 20% away from it",
               "a run that neither finishes within the time bound nor is in the known class is a hang (violation); "
               "bounds are generous (>= 60 s for payloads that bash moves in < 1 s)"]

LINE = 64
CAP = 65536 // LINE          # pipe capacity in model units (ASCII payload: 64-byte lines)
BASE = 1 << 24
INLINE_FORMS = ("func", "brace", "subsh", "loop")
KF_EPIPE_LOOP = "KF-C11-epipe-loop"
KF_READ_UTF8 = "KF-C11-read-non-ascii"
KF_PIPESTATUS_WHILE = "KF-C11-pipestatus-after-while"
# payload flavours: "ascii" = 64-byte lines of digits; "utf8" = 61-byte lines of 11 digits followed by 2-, 3- and
# 4-byte characters, so that 64 KiB read/write boundaries fall inside characters at ever-changing offsets
UTF8_TAIL = ("\u00e9" * 2 + "\u20ac" * 7 + "\U0001F600" * 6).encode("utf-8") + b"\n"
LINE_LEN = {"ascii": 64, "utf8": 11 + len(UTF8_TAIL)}
assert LINE_LEN["utf8"] == 61


def cap_of(flav):
    return 65536 // LINE_LEN[flav]


def wd():
    d = os.path.join(core.SCRATCH, "c11-%d" % os.getpid())
    os.makedirs(d, exist_ok=True)
    return d


def line(i, flav="ascii"):
    if flav == "utf8":
        return b"%011d" % i + UTF8_TAIL
    return b"%063d\n" % i


def tags(stages):
    return stages[0][3].split(",") if len(stages[0]) > 3 else []


def flavour(stages):
    return "utf8" if "utf8" in tags(stages) else "ascii"


_SRC_LOCK = __import__("threading").Lock()


def src_file(d, idx, count, flav="ascii"):
    """file of `count` lines of the ids idx*2^24 + j (created once, atomically: cases run in parallel)"""
    p = os.path.join(d, "src_%s_%d_%d" % (flav, idx, count))
    if d.startswith("$"):
        return p
    with _SRC_LOCK:
        if not os.path.exists(p):
            tmp = p + ".tmp"
            with open(tmp, "wb") as f:
                f.write(b"".join(line(idx * BASE + j, flav) for j in range(count)))
            os.rename(tmp, p)
    return p


# ------------------------------------------------------------------ stages
# stage = (beh, form, arg)   beh: src(count) cat head(k) drop(d) read1 sink
def model_fields(st, repaired=False):
    """today: compound/function stages are run inline by the spawn loop; repaired: every stage is spawned"""
    beh, form, arg = st[:3]
    k = "I" if (form in INLINE_FORMS and not repaired) else "S"
    if beh == "src":
        return [k, "0", "0", "1", str(arg)]
    if beh == "cat":
        return [k, "0", "n", "1", "0"]
    if beh == "head":
        return [k, "0", str(arg), "1", "0"]
    if beh == "drop":
        return [k, str(arg), "n", "1", "0"]
    if beh == "read1":
        return [k, "1", "0", "0", "0"]
    if beh == "sink":
        return [k, "0", "n", "0", "0"]
    raise ValueError(beh)


def render_stage(st, i, d, flav="ascii"):
    """-> (prelude, command text)"""
    beh, form, arg = st[:3]
    if beh == "src":
        f = src_file(d, i, arg, flav)
        core_cmd = "cat %s" % f
        if form == "builtin":
            return "D%d=$(<%s)\n" % (i, f), "printf '%%s\\n' \"$D%d\"" % i
        if form == "loop":
            return "", "while IFS= read -r l; do echo \"$l\"; done < %s" % f
    elif beh == "cat":
        core_cmd = "cat"
        if form == "loop":
            return "", "while IFS= read -r l; do echo \"$l\"; done"
    elif beh == "head":
        core_cmd = "head -n %d" % arg
        if form == "loop":
            return "", "for ((n=0;n<%d;n++)); do IFS= read -r l || break; echo \"$l\"; done" % arg
    elif beh == "drop":
        if form == "ext":
            return "", "tail -n +%d" % (arg + 1)
        core_cmd = " ".join(["read -r x;"] * arg) + " cat"
    elif beh == "read1":
        return "", "read -r x"
    elif beh == "sink":
        if form == "builtin":
            return "", "mapfile -t ARR"
        if form == "loop":
            return "", "while read -r l; do :; done"
        core_cmd = "cat >/dev/null"
    if form == "ext":
        return "", core_cmd
    if form == "brace":
        return "", "{ %s; }" % core_cmd
    if form == "subsh":
        return "", "( %s )" % core_cmd
    if form == "func":
        return "fn%d() { %s; }\n" % (i, core_cmd), "fn%d" % i
    raise ValueError((beh, form))


FORMS = {"src": ["ext", "builtin", "func", "brace", "subsh", "loop"],
         "cat": ["ext", "func", "brace", "subsh", "loop"],
         "head": ["ext", "func", "brace", "subsh", "loop"],
         "drop": ["ext", "func", "brace", "subsh"],
         "read1": ["builtin"],
         "sink": ["ext", "builtin", "brace", "loop"]}


def flow(stages):
    """python spec oracle: what each stage emits, as (src index, lo, hi) half-open id ranges."""
    cur = (0, 0, 0)
    outs = []
    for i, (beh, form, arg) in enumerate(x[:3] for x in stages):
        s, lo, hi = cur
        if beh == "src":
            cur = (i, 0, arg)
        elif beh == "cat":
            pass
        elif beh == "head":
            cur = (s, lo, min(hi, lo + arg))
        elif beh == "drop":
            cur = (s, min(hi, lo + arg), hi)
        elif beh in ("read1", "sink"):
            cur = (s, 0, 0)
        outs.append(cur)
    return outs


def flow_bytes(r, flav="ascii"):
    s, lo, hi = r
    return b"".join(line(s * BASE + j, flav) for j in range(lo, hi))


def expected_bytes(stages, data):
    """what the script prints: the pipeline's output, or for a wrapped pipeline its value as a substitution"""
    if wrapped(stages):
        while data.endswith(b"\n"):
            data = data[:-1]
    return data


def known_inline(stages):
    """decidable class of KF-C11-inline-stage: some non-final stage is a compound command or a function
    and emits more than the pipe capacity (mirrors Conc/SchedProofs.v known_class)."""
    outs = flow(stages)
    return any(st[1] in INLINE_FORMS and (outs[i][2] - outs[i][1]) > cap_of(flavour(stages))
               for i, st in enumerate(stages[:-1]))


def known_read_utf8(stages):
    """decidable class of KF-C11-read-non-ascii: non-ASCII payload lines are passed on through the `read` builtin
    (a while/for-read loop stage that forwards what it read) and at least one line reaches that stage"""
    if flavour(stages) != "utf8":
        return False
    outs = flow(stages)
    ins = [(0, 0, 0)] + outs[:-1]
    for i, st in enumerate(stages):
        if st[1] == "loop" and st[0] in ("src", "cat", "head"):
            n_in = st[2] if st[0] == "src" else ins[i][2] - ins[i][1]
            if n_in > 0 and outs[i][2] - outs[i][1] > 0:
                return True
    return False


def wrapped(stages):
    """the whole pipeline runs inside a command substitution whose value is printed afterwards"""
    return "cmdsub" in tags(stages)


def script_of(stages, d, statfile):
    pre, cmds = "", []
    for i, st in enumerate(stages):
        p, c = render_stage(st, i, d, flavour(stages))
        pre += p
        cmds.append(c)
    if wrapped(stages):
        return pre + "X=$( " + " | ".join(cmds) + " )\necho \"$?\" > %s\nprintf '%%s' \"$X\"\n" % statfile
    return pre + " | ".join(cmds) + "\necho \"$? ${PIPESTATUS[*]}\" > %s\n" % statfile


_SESSIONS = []


def kill_sessions(sids):
    """SIGKILL every process whose session id is in `sids` (children of a shell put themselves into process
    groups of their own, so killing the shell's group is not enough; they cannot leave its session)"""
    import signal
    sids = set(sids)
    if not sids:
        return
    for ent in os.listdir("/proc"):
        if not ent.isdigit():
            continue
        try:
            st = open("/proc/%s/stat" % ent).read()
            rest = st[st.rindex(")") + 2:].split()
            if int(rest[3]) in sids:
                os.kill(int(ent), signal.SIGKILL)
        except (OSError, ValueError, IndexError):
            pass


def run_shell(binary, args, script, d, tag, timeout, env=None):
    outp = os.path.join(d, tag + ".out")
    e = {"PATH": "/usr/bin:/bin", "HOME": d, "LC_ALL": "C"}
    if env:
        e.update(env)
    t0 = time.time()
    with open(outp, "wb") as fo:
        p = subprocess.Popen([binary] + args + ["-c", script], stdin=subprocess.DEVNULL, stdout=fo,
                             stderr=subprocess.DEVNULL, env=e, cwd=d, start_new_session=True)
        _SESSIONS.append(p.pid)
        try:
            rc = p.wait(timeout=timeout)
            hung = False
        except subprocess.TimeoutExpired:
            p.kill()
            p.wait()
            kill_sessions([p.pid])
            rc, hung = None, True
    data = open(outp, "rb").read()
    os.remove(outp)
    return {"hung": hung, "rc": rc, "len": len(data), "sha": hashlib.sha1(data).hexdigest(), "t": time.time() - t0}


SHORT_BOUND = 30    # seconds for pipelines of the once-deadlocking class (bash needs < 0.1 s for them)


def run_case(ctx, k, stages, d, short, env=None):
    st_b, st_h = os.path.join(d, "st_%d_b" % k), os.path.join(d, "st_%d_h" % k)
    for f in (st_b, st_h):
        if os.path.exists(f):
            os.remove(f)
    big = max([st[2] for st in stages if st[0] == "src"] + [0])
    to_ok = 90 + big // 200
    code = run_shell(ctx.vbrush, ["--norc", "--noprofile", "--no-config"], script_of(stages, d, st_b), d, "b%d" % k,
                     SHORT_BOUND if short else to_ok, env)
    bash = run_shell("/usr/bin/bash", ["--norc", "--noprofile"], script_of(stages, d, st_h), d, "h%d" % k, to_ok)
    for r, f in ((code, st_b), (bash, st_h)):
        try:
            r["stat"] = open(f).read().strip()
            os.remove(f)
        except OSError:
            r["stat"] = None
    return code, bash


# ------------------------------------------------------------------ generators
SIZES_Q = [1, 3, 40, 500, 800, 1400, 2000, 5000]
SIZES_T = SIZES_Q + [20000, 65536]


def gen_sched(ctx):
    rng = ctx.rng
    sizes = SIZES_Q if ctx.quick else SIZES_T
    cases = []
    # the grid of two-stage pipelines: every producer form x every consumer (behaviour, form), small and large
    for sf in FORMS["src"]:
        for beh in ("cat", "head", "drop", "sink", "read1"):
            for cf in FORMS[beh]:
                for n in ((40, 2000) if ctx.quick else (40, 800, 1400, 5000)):
                    if sf == "loop" and n > 2000:
                        continue
                    if ctx.quick and (len(cases) + (n > 40)) % 2:
                        cases.append(None)
                        continue
                    arg = {"cat": None, "head": 2, "drop": 2, "sink": None, "read1": None}[beh]
                    cases.append([("src", sf, n), (beh, cf, arg)])
    # random 3-4 stage pipelines
    cases = [c for c in cases if c is not None]
    target = len(cases) + (110 if ctx.quick else 700)
    while len(cases) < target:
        n = rng.choice([3, 3, 4])
        stages = [("src", rng.choice(FORMS["src"]), rng.choice(sizes))]
        for i in range(1, n):
            beh = rng.choice(["cat", "cat", "cat", "head", "drop", "sink", "src", "read1"])
            if beh == "sink" and i < n - 1 and rng.random() < 0.7:
                beh = "cat"
            form = rng.choice(FORMS[beh])
            arg = None
            if beh == "head":
                arg = rng.choice([1, 2, 10, 600, 1500])
            elif beh == "drop":
                arg = rng.choice([1, 2, 3])
            elif beh == "src":
                arg = rng.choice(sizes)
            stages.append((beh, form, arg))
        tg = []
        if rng.random() < 0.25:
            tg.append("cmdsub")
        if rng.random() < 0.4:
            tg.append("utf8")
        if tg:
            stages[0] = stages[0] + (",".join(tg),)
        cases.append(stages)
    # command substitutions and plain pipelines over multi-byte payloads on both sides of 64 KiB: characters of
    # 2, 3 and 4 bytes straddle every 64 KiB boundary of the 61-byte lines
    for n in ((800, 1400, 2000, 5000) if ctx.quick else (800, 1400, 2000, 5000, 20000, 65536)):
        for sf in ("ext", "builtin", "func", "subsh"):
            cases.append([("src", sf, n, "cmdsub,utf8")])
            cases.append([("src", sf, n, "cmdsub,utf8"), ("cat", rng.choice(FORMS["cat"][:4]), None)])
            cases.append([("src", sf, n, "utf8"), ("cat", rng.choice(FORMS["cat"][:4]), None)])
        cases.append([("src", "ext", n, "cmdsub")])
    # filter: sizes in the grey zone around the capacity; read1 needs a line to read; slow loops on huge inputs
    ok = []
    nhang = 0
    for st in cases:
        outs = flow(st)
        ins = [(0, 0, 0)] + outs[:-1]
        cp = cap_of(flavour(st))
        if any(cp * 0.8 < (o[2] - o[1]) < cp * 1.2 for o in outs):
            continue
        if any(s[0] == "read1" and ins[i][2] - ins[i][1] < 1 for i, s in enumerate(st)):
            continue
        if any(s[1] == "loop" and max(ins[i][2] - ins[i][1], outs[i][2] - outs[i][1]) > (5000 if ctx.quick else 20000)
               for i, s in enumerate(st)):
            continue
        if known_inline(st):     # the class that deadlocked before 6cea0bb: bounded only to bound a regression's cost
            nhang += 1
            if nhang > (40 if ctx.quick else 160):
                continue
        ok.append(st)
    return ok


def parse_model(line_):
    f = core.dec_line(line_)
    res = []
    for j in range(0, len(f) - 2, 3):
        res.append({"verdict": f[j], "ranges": f[j + 1], "st": f[j + 2]})
    return res


def ranges_to_flow(txt):
    """model output "a-b,c-d" (inclusive ids) -> list of (src, lo, hi)"""
    out = []
    for part in [p for p in txt.split(",") if p]:
        a, b = part.split("-")
        a, b = int(a), int(b)
        out.append((a // BASE, a % BASE, b % BASE + 1))
    return out


def may_sigpipe(stages):
    """Schedule-dependent outcomes the three deterministic schedulers of the model do not enumerate: a stage that
    still has lines to write when its reader has gone ends with 141 (SIGPIPE/EPIPE) in bash as in brush, and whether
    the reader is gone by then is a race (a slow `while read; echo` loop against `read -r x`). Stage i may end with 141
    when it emits something and its reader can leave before having taken everything: the reader does not read at all
    (src), wants fewer lines than are offered (head, read1), or may itself end with 141."""
    outs = flow(stages)
    n = len(stages)
    cap = [False] * n
    for i in range(n - 2, -1, -1):
        offered = outs[i][2] - outs[i][1]
        beh, _, arg = stages[i + 1][:3]
        early = beh == "src" or (beh == "head" and arg < offered) or (beh == "read1" and offered > 1)
        cap[i] = offered > 0 and (early or cap[i + 1])
    return cap


def status_ok(code_stat, model_runs, nst, only_last=False, stages=None):
    """code '$? s0 s1 ..' must be componentwise among the statuses the model reaches under its schedulers
    (plus 141 for a stage that may lose its reader, see may_sigpipe)"""
    if code_stat is None:
        return False
    parts = code_stat.split()
    if only_last:       # wrapped pipeline: only `$?` of the substitution is visible
        return len(parts) == 1 and parts[0] in {m["st"].split(",")[-1] for m in model_runs}
    if len(parts) != nst + 1:
        return False
    allowed = [set() for _ in range(nst)]
    for m in model_runs:
        ss = m["st"].split(",")
        if len(ss) != nst:
            return False
        for i, s in enumerate(ss):
            allowed[i].add(s)
    if stages is not None:
        for i, c in enumerate(may_sigpipe(stages)):
            if c:
                allowed[i].add("141")
    return all(parts[i + 1] in allowed[i] for i in range(nst)) and parts[0] == parts[-1]


def eval_sched(ctx, cases, env=None):
    """The model follows the repaired algorithm (6cea0bb): every stage Spawned. Any non-completion is a violation."""
    d = wd()
    use_model = ctx.runner is not None
    caps = [cap_of(flavour(st)) for st in cases]
    if use_model:
        model = ctx.model("c11_sched", [[str(cp)] + sum((model_fields(s, True) for s in st), []) for st, cp in zip(cases, caps)])
        dead = [st for st, m in zip(cases, model) if m in ("DIED", "TIMEOUT")]
        if dead:
            raise core.CheckBroken("the model runner died on %d cases, first %r" % (len(dead), dead[0]))
        mruns = [parse_model(m) for m in model]
        # python flow oracle / old class predicate vs Coq spec_out / Known.known_class (old algorithm's kinds)
        kn = ctx.model("c11_known", [[str(cp)] + sum((model_fields(s) for s in st), []) for st, cp in zip(cases, caps)])
        for st, kl in zip(cases, kn):
            kf = core.dec_line(kl)
            py_counts = ",".join(str(o[2] - o[1]) for o in flow(st))
            if len(kf) != 3 or (kf[0] == "1") != known_inline(st) or kf[1] != py_counts:
                raise core.CheckBroken("class predicate: Coq %r vs python (%r, %s) on %r" % (kf, known_inline(st), py_counts, st))
            last = flow(st)[-1]
            if [r for r in ranges_to_flow(kf[2])] != ([last] if last[2] > last[1] else []):
                raise core.CheckBroken("flow oracle: Coq spec_out %r vs python %r on %r" % (kf[2], last, st))
    else:
        model, mruns = [None] * len(cases), [None] * len(cases)
    short = [known_inline(st) for st in cases]
    results = [None] * len(cases)
    with ThreadPoolExecutor(max_workers=8) as ex:
        futs = [(k, ex.submit(run_case, ctx, k, cases[k], d, short[k], env)) for k in range(len(cases))]
        for k, f in futs:
            results[k] = f.result()
    # false-alarm discipline: a deadlock of this design is reproducible, a stall of a shared, loaded machine is not.
    # A run that did not finish is repeated alone, twice, with the long bound; it counts only if it fails again.
    # (At most 6 such repetitions: after that the remaining non-completions are taken as they are.)
    transient, confirmed = 0, 0
    for k in range(len(cases)):
        if results[k][0]["hung"] and transient + confirmed < 6:
            again = [run_case(ctx, k, cases[k], d, False, env) for _ in range(2)]
            if all(not a[0]["hung"] for a in again):
                transient += 1
                results[k] = again[-1]
            else:
                confirmed += 1
    mism, specv = [], []
    dist = {"model": "repaired algorithm (all stages spawned)", "transient_stalls_not_reproduced": transient, "hang_observed": 0,
            "once_deadlocking_class": sum(short), "bytes_moved": 0, "by_form": {}, "by_beh": {}, "n_stages": {}, "flavour": {}}
    for k, (st, mr, (code, bash)) in enumerate(zip(cases, mruns, results)):
        for s in st:
            dist["by_form"][s[1]] = dist["by_form"].get(s[1], 0) + 1
            dist["by_beh"][s[0]] = dist["by_beh"].get(s[0], 0) + 1
        fl = flavour(st)
        dist["flavour"][fl] = dist["flavour"].get(fl, 0) + 1
        dist["n_stages"][len(st)] = dist["n_stages"].get(len(st), 0) + 1
        dist["inside_command_substitution"] = dist.get("inside_command_substitution", 0) + (1 if wrapped(st) else 0)
        info = {"stages": st, "script": script_of(st, "$D", "$ST"), "env": env or {},
                "payload": "src_<flavour>_<i>_<n>: n lines of ids i*2^24+j; ascii '%063d', utf8 '%011d' + e-acute x2 + euro x7 + U+1F600 x6"}
        verdicts = {x["verdict"] for x in mr} if use_model else set()
        if use_model and (not mr or verdicts != {"final"} or len({x["ranges"] for x in mr}) != 1):
            raise core.CheckBroken("model schedulers disagree, got stuck or ran out of fuel on %r: %r" % (st, mr))
        spec_data = expected_bytes(st, flow_bytes(flow(st)[-1], fl))
        wr = wrapped(st)
        spec_sha = hashlib.sha1(spec_data).hexdigest()
        if bash["hung"] or bash["sha"] != spec_sha or bash["len"] != len(spec_data):
            raise core.CheckBroken("python flow oracle and bash disagree on %r (bash %r)" % (st, bash))
        dist["bytes_moved"] += len(spec_data)
        # ---- code vs spec (byte-exact: length and checksum)
        if code["hung"]:
            dist["hang_observed"] += 1
            specv.append({"input": info, "why": "pipeline did not finish within the time bound (bash: %.2fs, output %d bytes)" % (bash["t"], bash["len"])})
        elif code["sha"] != spec_sha or code["len"] != len(spec_data):
            v = {"input": info, "why": "output differs: %d bytes sha1 %s, expected %d bytes sha1 %s" % (
                code["len"], code["sha"][:12], len(spec_data), spec_sha[:12])}
            if known_read_utf8(st):
                v["known"] = KF_READ_UTF8
                dist["read_non_ascii_mangled"] = dist.get("read_non_ascii_mangled", 0) + 1
                specv.append(v)
                continue        # the model carries line ids, not bytes: nothing to compare for this case
            specv.append(v)
        elif code["stat"] != bash["stat"] and not (use_model and status_ok(code["stat"], mr, len(st), wr, st)):
            specv.append({"input": info, "why": "statuses `$? PIPESTATUS` = %r, bash %r, model %r" % (
                code["stat"], bash["stat"], [x["st"] for x in mr])})
        # ---- code vs model
        if not use_model:
            continue
        mflow = ranges_to_flow(mr[0]["ranges"])
        mdata = expected_bytes(st, b"".join(flow_bytes(r, fl) for r in mflow))
        if code["hung"]:
            mism.append({"case": info, "model": "final", "code": "hang"})
        elif hashlib.sha1(mdata).hexdigest() != code["sha"]:
            mism.append({"case": info, "model": mr[0]["ranges"], "code": code})
        elif not status_ok(code["stat"], mr, len(st), wr, st):
            mism.append({"case": info, "model": [x["st"] for x in mr], "code": code["stat"]})
    return {"mism": mism, "specv": specv, "dist": dist, "mruns": mruns, "model_lines": model,
            "fields": lambda st: model_fields(st, True)}


# ------------------------------------------------------------------ status / strip (in-process)
CODES = [0, 0, 1, 2, 3, 7, 126, 127, 141, 255]


def stage_exit(rng, c):
    r = rng.random()
    if r < 0.5:
        return "(exit %d)" % c
    if r < 0.7:
        return "{ (exit %d); }" % c
    if r < 0.85:
        return "rc %d" % c
    return "sh -c 'exit %d'" % c


def gen_status(ctx):
    rng = ctx.rng
    cases = []
    for n in (1, 2, 3):
        for codes in itertools.product([0, 1, 3], repeat=n):
            for pf in (0, 1):
                for bang in (0, 1):
                    cases.append((pf, bang, list(codes)))
    for _ in range(900 if ctx.quick else 6000):
        cases.append((rng.randrange(2), rng.randrange(2), [rng.choice(CODES) for _ in range(rng.randrange(1, 6))]))
    scripts = []
    for pf, bang, codes in cases:
        s = "rc() { return $1; }\n"
        if pf:
            s += "set -o pipefail\n"
        s += ("! " if bang else "") + " | ".join(stage_exit(rng, c) for c in codes) + "\n"
        s += 'echo "$? ${PIPESTATUS[*]}"\n'
        scripts.append(s)
    return cases, scripts


def py_status(pf, bang, codes):
    r = codes[-1]
    if pf:
        nz = [c for c in codes if c != 0]
        r = nz[-1] if nz else 0
    if bang:
        r = 1 if r == 0 else 0
    return "%d %s" % (r, " ".join(map(str, codes)))


def octal(bs):
    return "".join("\\%03o" % b for b in bs)


def gen_strip(ctx):
    rng = ctx.rng
    raws = []
    for n in range(0, 5):
        for t in itertools.product(b"a\n\x00", repeat=n):
            raws.append(bytes(t))
    items = [b"a", b"b", b" ", b"\n", b"\n", b"\x00", b"\t", "\u00e9".encode(), "\u20ac".encode(), "\U0001F600".encode()]
    for _ in range(400 if ctx.quick else 4000):
        body = b"".join(rng.choice(items) for _ in range(rng.randrange(0, 12)))
        raws.append(body + b"\n" * rng.randrange(0, 6))
    raws = list(dict.fromkeys(raws))
    scripts = ["x=$(printf '%s'; exit 5); echo \"$?\"; printf '%%s' \"$x\"\n" % octal(r) for r in raws]
    return raws, scripts


def py_strip(raw):
    s = raw.replace(b"\x00", b"")
    while s.endswith(b"\n"):
        s = s[:-1]
    return s


def sh_out(line_):
    """result line of the `sh` harness subcommand -> (status, stdout bytes) or None"""
    parts = line_.split(" ")
    if len(parts) != 3 or parts[0] in ("PANIC", "DIED", "TIMEOUT"):
        return None
    return int(parts[0]), core.unhx(parts[1])


def bash_batch(scripts):
    def one(s):
        p = subprocess.run(["/usr/bin/bash", "--norc", "--noprofile", "-c", s], stdin=subprocess.DEVNULL,
                           stdout=subprocess.PIPE, stderr=subprocess.DEVNULL, timeout=60,
                           env={"PATH": "/usr/bin:/bin", "LC_ALL": "C"})
        return p.stdout
    with ThreadPoolExecutor(max_workers=8) as ex:
        return list(ex.map(one, scripts))


def eval_status(ctx):
    cases, scripts = gen_status(ctx)
    impl = ctx.impl("sh", [["s", s] for s in scripts])
    model = ctx.model("c11_status", [[str(pf), str(bang)] + [str(c) for c in codes] for pf, bang, codes in cases])
    nb = 150 if ctx.quick else 1500
    bash = bash_batch(scripts[:nb])
    mism, specv, vs_bash = [], [], {"compared": 0, "spec_ne_bash": 0}
    for k, ((pf, bang, codes), s, il, ml) in enumerate(zip(cases, scripts, impl, model)):
        o = sh_out(il)
        got = o[1].decode("utf-8", "replace").strip() if o else il[:80]
        mf = core.dec_line(ml)
        mtxt = "%s %s" % (mf[0], mf[1].replace(",", " ")) if len(mf) == 2 else ml
        spec = py_status(pf, bang, codes)
        if k < nb:
            vs_bash["compared"] += 1
            if bash[k].decode().strip() != spec:
                vs_bash["spec_ne_bash"] += 1
                raise core.CheckBroken("status oracle and bash disagree on %r: %r vs %r" % (s, bash[k], spec))
        if got != mtxt:
            mism.append({"script": s, "code": got, "model": mtxt})
        if got != spec:
            specv.append({"input": {"script": s}, "why": "`$? PIPESTATUS` is %r, bash rule gives %r" % (got, spec)})
    return cases, model, mism, specv, vs_bash


def eval_strip(ctx):
    raws, scripts = gen_strip(ctx)
    impl = ctx.impl("sh", [["s", s] for s in scripts])
    model = ctx.model("c11_strip", [[enc_raw(r)] for r in raws])
    nb = 150 if ctx.quick else 1500
    bash = bash_batch(scripts[:nb])
    mism, specv = [], []
    for k, (raw, s, il, ml) in enumerate(zip(raws, scripts, impl, model)):
        o = sh_out(il)
        want = py_strip(raw)
        spec = b"5\n" + want
        mval = dec_raw(core.dec_line(ml)[0]) if ml.strip() else b""
        mtxt = b"5\n" + mval
        got = o[1] if o else il.encode()[:80]
        if k < nb and bash[k] != spec:
            raise core.CheckBroken("strip oracle and bash disagree on %r: %r vs %r" % (raw, bash[k], spec))
        if got != mtxt:
            mism.append({"raw": repr(raw), "code": repr(got), "model": repr(mtxt)})
        if got != spec:
            specv.append({"input": {"raw": repr(raw), "script": s}, "why": "$(..) gave %r, expected %r" % (got, spec)})
    return raws, model, mism, specv


def enc_raw(b):
    """ASCII bytes (NUL included) -> str field"""
    return b.decode("latin-1")


def dec_raw(s):
    return s.encode("latin-1", "replace")


# ------------------------------------------------------------------ status sequences in ONE shell (differential + oracle)
# `$(cmd)` returns cmd's output "together with its status": the status of an assignment-only command is that of its
# last substitution whatever `$?` was before. Several substitutions / pipelines run in one shell, statuses drawn from a
# small set so that the previous `$?` often EQUALS the next status (a change-detecting implementation then fails).
# `p` prints `$? PIPESTATUS` and RESTORES `$?`, so that the next command starts from the status of the previous one
SEQ_PRELUDE = ("p() { local r=$? ps=\"${PIPESTATUS[*]}\"; echo \"$r $ps\"; return $r; }\n" "fl() { local v=$(exit $1); }\nfl2() { local v; v=$(exit $1); }\nfe() { export EV=$(exit $1); }\n"
               "fr() { return $1; }\n")


def seq_stmt(rng):
    """-> (text, function from previous status to expected `$?`)"""
    a, b = rng.choice([0, 0, 1, 1, 3]), rng.choice([0, 1, 3])
    inv = lambda x: 1 if x == 0 else 0
    forms = [
        ("x=$(exit %d)" % a, lambda p: a),
        ("x=$(exit %d) y=$(exit %d)" % (a, b), lambda p: b),
        ("x=$( (exit %d) )" % a, lambda p: a),
        ("x=$(y=$(exit %d))" % a, lambda p: a),
        ("x=$( $(echo exit) %d )" % a, lambda p: a),
        ("x=$(echo $(exit %d))" % a, lambda p: 0),
        ("x=`exit %d`" % a, lambda p: a),
        ("x=$(fr %d)" % a, lambda p: a),
        ("x=$(printf 'q\\n\\n'; exit %d); echo \"[$x]\"" % a, lambda p: 0),
        ("echo \"$(exit %d)\" >/dev/null" % a, lambda p: 0),
        (": $(exit %d)" % a, lambda p: 0),
        ("fl %d" % a, lambda p: 0),
        ("fl2 %d" % a, lambda p: a),
        ("fe %d" % a, lambda p: 0),
        ("declare dv=$(exit %d)" % a, lambda p: 0),
        ("if x=$(exit %d); then echo T; else echo F; fi" % a, lambda p: 0),
        ("x=$(exit %d) || echo O" % a, lambda p: a if a == 0 else 0),
        ("x=$(exit %d) && echo A" % a, lambda p: a),
        ("! x=$(exit %d)" % a, lambda p: inv(a)),
        ("until x=$(exit %d); do echo L; break; done" % a, lambda p: 0),
        ("while x=$(exit %d); do echo W; break; done" % a, lambda p: 0),
        ("(exit %d) | (exit %d)" % (a, b), lambda p: b),
        ("x=$( (exit %d) | (exit %d) )" % (a, b), lambda p: b),
        ("x=$(set -o pipefail; (exit %d) | (exit %d))" % (a, b), lambda p: b if b else a),
        ("(exit %d)" % a, lambda p: a),
        ("fr %d" % a, lambda p: a),
        ("x=plain", lambda p: 0),
        ("x=$(true)$(exit %d)" % a, lambda p: a),
        ("arr=($(exit %d))" % a, lambda p: a),
        ("x=${y:-$(exit %d)}" % a, lambda p: a),
        ("x=$(exit %d) true" % a, lambda p: 0),
    ]
    t, f = rng.choice(forms)
    return (t, f)


def while_failed(text):
    """class of KF-C11-pipestatus-after-while: a `while` loop whose condition (an assignment-only substitution) failed"""
    import re
    mm = re.match(r"while x=\$\(exit (\d+)\);", text)
    return bool(mm) and mm.group(1) != "0"


def gen_statseq(ctx):
    rng = ctx.rng
    cases = []
    for _ in range(500 if ctx.quick else 4000):
        stmts = [seq_stmt(rng) for _ in range(rng.randrange(3, 9))]
        cases.append(stmts)
    # the directed ones: same status before and after, for every form
    for a in (0, 1, 3):
        for txt in ("x=$(exit %d)", "x=$(y=$(exit %d))", "fl2 %d", "x=`exit %d`", "arr=($(exit %d))"):
            cases.append([("(exit %d)" % a, lambda p, a=a: a), (txt % a, lambda p, a=a: a), (txt % a, lambda p, a=a: a)])
    cases.append([("tries=0", lambda p: 0),
                  ("until out=$(echo probing; exit 1); do tries=$((tries+1)); if [ $tries -ge 3 ]; then break; fi; false; done; echo \"tries=$tries\"", lambda p: 0)])
    return cases


def statseq_script(stmts):
    return SEQ_PRELUDE + "".join(t + "\np\n" for t, _ in stmts)


def eval_statseq(ctx):
    """verdict: code vs bash on the whole transcript (differential); the python status rule is checked against bash too"""
    cases = gen_statseq(ctx)
    scripts = [statseq_script(c) for c in cases]
    impl = ctx.impl("sh", [["s", s] for s in scripts])
    bash = bash_batch(scripts)
    specv = []
    for stmts, s, il, bo in zip(cases, scripts, impl, bash):
        o = sh_out(il)
        got = o[1] if o else il.encode()[:200]
        # python rule for `$?` vs bash (keeps the oracle honest)
        blines = [l for l in bo.decode("utf-8", "replace").split("\n")]
        st_lines = [l for l in blines if l and l.split()[0].isdigit() and all(x.isdigit() for x in l.split())]
        prev, want = 0, []
        for _, f in stmts:
            prev = f(prev)
            want.append(str(prev))
        if [l.split()[0] for l in st_lines][:len(want)] != want and len(st_lines) == len(want):
            raise core.CheckBroken("status rule and bash disagree on %r: bash %r, rule %r" % (s, st_lines, want))
        if got != bo:
            v = {"input": {"script": s}, "why": "transcript of `$? PIPESTATUS` after each command differs from bash: %r vs %r" % (
                got.decode("utf-8", "replace")[-300:], bo.decode("utf-8", "replace")[-300:])}
            # known: only PIPESTATUS (not `$?`) differs, and only right after a `while` whose condition failed
            gl, bl = got.decode("utf-8", "replace").split("\n"), bo.decode("utf-8", "replace").split("\n")
            if len(gl) == len(bl):
                ok, k = True, 0
                for x, y in zip(gl, bl):
                    is_st = bool(y) and all(w.isdigit() for w in y.split())
                    if x != y and not (is_st and k < len(stmts) and while_failed(stmts[k][0]) and x.split()[:1] == y.split()[:1]):
                        ok = False
                    if is_st:
                        k += 1
                if ok:
                    v["known"] = KF_PIPESTATUS_WHILE
            specv.append(v)
    return cases, specv


# ------------------------------------------------------------------ `read` on a SHARED descriptor (differential)
# "`read` consumes exactly one line from a shared descriptor": one to three `read` variants, then another consumer of
# the same descriptor (cat, another read, an external `head -n 1`, a while-read loop); the descriptor is a file, a pipe,
# a here-document, a here-string or fd 3. Whatever a read fetched beyond what it consumes would be missing further on.
RD_DATA = ["ab\ncdef\nghij\nklmno pq\n", "one two  three\nx:y:z\n\nlast", "a\\tb\\\nc d\nefg\n", "12345\n67890\nabc\n",
           "  lead trail  \nq;r;s\nzz\n", "x\n" * 40, "ab\n" + "0123456789" * 30 + "\nend\n"]
RD_READS = ["read a", "read -r a", "read -n 5 a", "read -n 1 a", "read -n 3 -r a", "read -N 4 a", "read -N 7 a", "read -d ';' a",
            "read -d : a", "read -r -a arr; a=\"${arr[*]}|${#arr[@]}\"", "read a b", "IFS=: read a b", "read -n 12 a",
            "IFS= read -r a", "read -r -n 2 a", "read -d '' a", "read -u 0 a", "read -rn 4 a b", "read -r -n 16 a", "read -rN 2 a"]
RD_CONS = ["cat", "read b; echo \"b=[$b]\"", "head -n 1", "IFS= read -r -n 3 b; echo \"b=[$b]\"; cat",
           "while read -r l; do echo \"l=[$l]\"; done", "read -N 3 b; echo \"b=[$b]\"; cat", "read -r b; read -r c; echo \"b=[$b] c=[$c]\""]
KF_READ_CONT = "KF-C11-read-continuation"


def rd_script(rng, path):
    d = rng.choice(RD_DATA)
    reads = [rng.choice(RD_READS) for _ in range(rng.randrange(1, 4))]
    body = "".join("%s; echo \"s=$? a=[$a] b=[$b]\"; " % r for r in reads) + rng.choice(RD_CONS)
    src = rng.choice(["file", "pipe", "heredoc", "herestring", "fd3"])
    e = octal(d.encode())
    # class of KF-C11-read-continuation: backslash-newline in the data met by a read without -r that uses -N or -d
    cont = "\\\n" in d and any(("-N" in r or "-d" in r) and " -r" not in r and "-rN" not in r
                               for r in body.split("; ") if "read" in r)
    if src == "file":
        return "printf '%s' > %s; { %s; } < %s; rm -f %s" % (e, path, body, path, path), src, cont
    if src == "pipe":
        return "printf '%s' | { %s; }" % (e, body), src, cont
    if src == "heredoc":
        dd = d if d.endswith("\n") else d + "\n"
        return "{ %s; } <<'EOT'\n%sEOT" % (body, dd), src, cont
    if src == "herestring":
        return "D=$(printf '%s'); { %s; } <<< \"$D\"" % (e, body), src, cont
    b3 = body.replace("read ", "read -u 3 ").replace("read -u 3 -u 0", "read -u 3").replace("cat", "cat <&3").replace("head -n 1", "head -n 1 <&3")
    return "printf '%s' > %s; exec 3< %s; %s; exec 3<&-; rm -f %s" % (e, path, path, b3, path), src, cont


def eval_readseq(ctx):
    import random
    d = wd()
    n = 600 if ctx.quick else 5000
    seeds = [ctx.rng.randrange(1 << 30) for _ in range(n)]
    cs = [rd_script(random.Random(sd), os.path.join(d, "rd_%d_c" % k)) for k, sd in enumerate(seeds)]
    bs = [rd_script(random.Random(sd), os.path.join(d, "rd_%d_b" % k)) for k, sd in enumerate(seeds)]
    # the directed ones of the statement: a capped read whose line is shorter than the cap, then line readers
    for k, (data, body) in enumerate([
            ("ab\ncdef\nghij\n", "read -n 5 first; read second; read third; echo \"first=$first second=$second third=$third\""),
            ("id\nline one\nline two\n", "read -r -n 16 hdr; n=0; while read -r l; do n=$((n+1)); echo \"$n:$l\"; done; echo \"hdr=$hdr lines=$n\""),
            ("ab\ncd\n", "read -n 9 a; cat"), ("ab\ncd\n", "read -n 9 a; head -n 1"), ("a;b;c\nd\n", "read -d ';' -n 9 a; echo \"[$a]\"; cat")]):
        for src in ("pipe", "file"):
            for tag, lst in (("c", cs), ("b", bs)):
                pth = os.path.join(d, "rdd_%d_%s" % (k, tag))
                e = octal(data.encode())
                sc = "printf '%s' | { %s; }" % (e, body) if src == "pipe" else "printf '%s' > %s; { %s; } < %s; rm -f %s" % (e, pth, body, pth, pth)
                lst.append((sc, src, False))
    impl = ctx.impl("sh", [["s", c[0]] for c in cs])
    bash = bash_batch([b[0] for b in bs])
    specv, by_src = [], {}
    for (sc, src, cont), il, bo in zip(cs, impl, bash):
        by_src[src] = by_src.get(src, 0) + 1
        o = sh_out(il)
        got = o[1] if o else il.encode()[:200]
        if got != bo:
            v = {"input": {"script": sc}, "why": "after `read` the shared descriptor / the variables differ from bash: %r vs %r" % (got[-200:], bo[-200:])}
            if cont:
                v["known"] = KF_READ_CONT
            specv.append(v)
    return len(cs), by_src, specv


# ------------------------------------------------------------------ fixed scenarios (bash parity only)
SCENARIOS = [
    ("own-example", "seq 100000 | while read l; do echo $l; done | wc -l", False),
    ("inline-first-big", "{ seq 100000; } | wc -l", False),
    ("loop-producer-head", "while :; do echo y; done | head -1", KF_EPIPE_LOOP),
    ("func-loop-producer-head", "f() { while true; do printf 'y\\n'; done; }; f | head -n 2", KF_EPIPE_LOOP),
    ("read-non-ascii", "printf 'a\\303\\251\\342\\202\\254\\n' | { read -r x; printf '%s\\n' \"$x\"; }", KF_READ_UTF8),
    ("finite-loop-producer-head", "for i in {1..20000}; do echo $i; done | head -n 1; echo ${PIPESTATUS[*]}", False),
    ("cmdsub-3byte-120000", "x=$(printf '\\342\\202\\254%.0s' {1..40000}); printf '%s' \"$x\" | cksum", False),
    ("cmdsub-2byte-odd-offset", "x=$(printf 'a'; printf '\\303\\251%.0s' {1..50000}); printf '%s' \"$x\" | cksum", False),
    ("cmdsub-4byte-odd-offset", "x=$(printf 'ab'; printf '\\360\\237\\230\\200%.0s' {1..30000}); printf '%s' \"$x\" | cksum", False),
    ("cmdsub-mixed-width", "x=$(for i in {1..3000}; do printf '%d\\303\\251\\342\\202\\254\\360\\237\\230\\200\\n' $i; done); printf '%s' \"$x\" | cksum", False),
    ("yes-head", "yes | head -1; echo ${PIPESTATUS[*]}", False),
    ("seq-head", "seq 100000 | head -1; echo ${PIPESTATUS[*]}", False),
    ("read-shared-fd", "seq 10 | { read a; read b; echo \"$a,$b\"; cat; }", False),
    ("read-shared-fd-loop", "seq 5 | { read a; while read x; do echo \"<$x>\"; done; echo \"a=$a\"; }", False),
    ("cmdsub-big", "x=$(seq 100000); echo ${#x} $?", False),
    ("cmdsub-status", "x=$(seq 30000; exit 9); echo ${#x} $?", False),
    ("cmdsub-nested-pipe", "x=$(seq 50000 | cat | tail -n 1); echo \"[$x]\"", False),
    ("cmdsub-in-stage", "seq 3 | while read l; do echo \"$(echo $l; echo; echo)x\"; done", False),
    ("builtin-epipe", "D=$(seq 100000); echo \"$D\" | head -n 1; echo ${PIPESTATUS[*]}", False),
    ("last-loop-big", "seq 30000 | while read l; do :; done; echo $?", False),
    ("pipefail-epipe", "set -o pipefail; seq 100000 | head -n 1 >/dev/null; echo $?", False),
    ("lastpipe", "shopt -s lastpipe; seq 4 | while read l; do n=$l; done; echo \"n=$n\"", False),
    ("brace-small-mid", "seq 100 | { cat; } | wc -l", False),
    ("func-big-last", "f() { wc -l; }; seq 100000 | cat | f", False),
]


# class of KF-C11-epipe-loop: a compound-command or function stage that writes with builtins in an unbounded loop
# (`while :`, `while true`) upstream of a consumer that exits early: the failing writes do not end the stage.
# Only the two fixed scenarios above are in it; generated pipelines contain no unbounded loops.


def eval_scenarios(ctx):
    specv, res = [], []
    d = wd()
    for name, script, known in SCENARIOS:
        b = run_shell("/usr/bin/bash", ["--norc", "--noprofile"], script, d, "sb", 60)
        c = run_shell(ctx.vbrush, ["--norc", "--noprofile", "--no-config"], script, d, "sc", 15 if known == KF_EPIPE_LOOP else 90)
        if c["hung"] and not known:     # see eval_sched: only a reproducible non-completion counts
            again = [run_shell(ctx.vbrush, ["--norc", "--noprofile", "--no-config"], script, d, "sc", 120) for _ in range(2)]
            if all(not a["hung"] for a in again):
                c = again[-1]
                ctx.notes.append("scenario %s stalled once and completed in two repetitions" % name)
        same = (not c["hung"]) and c["sha"] == b["sha"] and c["len"] == b["len"]
        res.append({"name": name, "same_as_bash": same, "hung": c["hung"]})
        if not same:
            v = {"input": {"script": script}, "why": ("did not finish" if c["hung"] else "output differs from bash") +
                 " (%s)" % name}
            if known and (c["hung"] or known == KF_READ_UTF8):
                v["known"] = known
            specv.append(v)
    return res, specv


# ------------------------------------------------------------------ driver entry points
def crosscheck(ctx, entry, cases, lines):
    idx = ctx.rng.sample(range(len(cases)), min(16, len(cases)))
    ce = ctx.coq_eval(entry, [cases[i] for i in idx])
    bad = [i for i, v in zip(idx, ce) if v != lines[i]]
    if bad:
        raise core.CheckBroken("extracted runner and vm_compute disagree on %s %r" % (entry, cases[bad[0]]))
    return len(idx)


def raise_stack():
    """the extracted runner recurses as deep as the payload is long (non-tail-recursive list functions)"""
    import resource
    soft, hard = resource.getrlimit(resource.RLIMIT_STACK)
    want = 1 << 30
    if soft != resource.RLIM_INFINITY and soft < want:
        new = want if hard == resource.RLIM_INFINITY or hard >= want else hard
        try:
            resource.setrlimit(resource.RLIMIT_STACK, (new, hard))
        except (ValueError, OSError):
            pass


def run(ctx):
    raise_stack()
    try:
        return run_(ctx)
    finally:
        kill_sessions(_SESSIONS)
        del _SESSIONS[:]
        shutil.rmtree(wd(), ignore_errors=True)


PAUSES = ["spawn0=60", "spawn1=60,spawn2=30", "wait=80,spawn0=20", "cmdsub=60,spawn0=30,spawn1=30,spawn2=30"]


def run_(ctx):
    t0 = time.time()
    sched_cases = gen_sched(ctx)
    ev = eval_sched(ctx, sched_cases)
    t1 = time.time()
    # the same pipelines with the spawn loop / waiter / substitution reader delayed at the hook points
    # (no effect unless /repo carries the verif-hooks pause points): stage-start orders are forced
    pv_mism, pv_specv, pv_n = [], [], 0
    live = [c for c, r in zip(sched_cases, ev["mruns"]) if r and r[0]["verdict"] == "final" and
            max([s[2] or 0 for s in c if s[0] == "src"] + [0]) <= 2000]
    for pause in PAUSES:
        sub = ctx.rng.sample(live, min(len(live), 14 if ctx.quick else 120))
        evp = eval_sched(ctx, sub, env={"BRUSH_VERIF_PAUSE": pause})
        pv_mism += evp["mism"]
        pv_specv += evp["specv"]
        pv_n += len(sub)
    t2 = time.time()
    st_cases, st_model, st_mism, st_specv, vs_bash = eval_status(ctx)
    sq_cases, sq_specv = eval_statseq(ctx)
    rd_n, rd_src, rd_specv = eval_readseq(ctx)
    t3 = time.time()
    raws, sp_model, sp_mism, sp_specv = eval_strip(ctx)
    t4 = time.time()
    scen, scen_specv = eval_scenarios(ctx)
    t5 = time.time()
    # extraction cross-check on small cases of every entry
    small = [k for k, st in enumerate(sched_cases) if sum(s[2] or 0 for s in st if s[0] == "src") <= 60]
    xs = 0
    if small:
        pick = ctx.rng.sample(small, min(12, len(small)))
        mc = [[str(cap_of(flavour(sched_cases[k])))] + sum((ev["fields"](s) for s in sched_cases[k]), []) for k in pick]
        ce = ctx.coq_eval("c11_sched", mc)
        if [ev["model_lines"][k] for k in pick] != ce:
            raise core.CheckBroken("extracted runner and vm_compute disagree on c11_sched")
        xs += len(pick)
    xs += crosscheck(ctx, "c11_status", [[str(pf), str(bg)] + [str(c) for c in cs] for pf, bg, cs in st_cases], st_model)
    xs += crosscheck(ctx, "c11_strip", [[enc_raw(r)] for r in raws], sp_model)
    mism = ev["mism"] + pv_mism + st_mism + sp_mism
    specv = ev["specv"] + pv_specv + st_specv + sq_specv + rd_specv + sp_specv + scen_specv
    ctx.notes.append("wall: sched %.0fs, pause variants %.0fs, status %.0fs, strip %.0fs, scenarios %.0fs, vm_compute cross-check %.0fs" % (
        t1 - t0, t2 - t1, t3 - t2, t4 - t3, t5 - t4, time.time() - t5))
    nontriv = {repr(c) for c in sched_cases if flow(c)[0][2] > 0} | \
              {repr(c) for c in st_cases if len(c[2]) > 1} | {r for r in raws if r.endswith(b"\n")}
    ev["dist"].update({"status_sequences_in_one_shell": len(sq_cases), "read_on_shared_descriptor": rd_n,
                       "read_descriptor_kinds": rd_src,
                       "proof_backed": "sched (model+theorems+correspondence), status vectors, substitution strip",
                       "differential_only": "status sequences in one shell (code vs bash, python rule for `$?`), `read` variants on a shared descriptor (code vs bash), fixed scenarios",
                       "status_cases": len(st_cases), "strip_cases": len(raws), "scenarios": scen,
                       "pause_variant_runs": pv_n, "pause_configs": PAUSES})
    return {
        "evaluations": len(sched_cases) + pv_n + len(st_cases) + len(sq_cases) + rd_n + len(raws) + len(SCENARIOS),
        "distinct_nontrivial": len(nontriv),
        "rule": "sched: pipelines of 2-4 stages at process level, each stage (behaviour, form) with behaviour in {source n, cat, head k, "
                "drop d, read-one-line, sink} and form in {external, builtin, function, brace group, subshell, while/for-read loop}; "
                "payloads of 64-byte ASCII lines (capacity 1024 lines) or 61-byte lines carrying 2-, 3- and 4-byte UTF-8 characters "
                "(capacity 1074 lines; characters straddle every 64 KiB boundary), sizes %r lines, compared byte-exact (length + sha1); "
                "the full producer-form x consumer grid, a grid of command substitutions / pipelines over the multi-byte payload on both "
                "sides of 64 KiB, plus random 3-4 stage pipelines (25%% inside $(...), 40%% multi-byte); non-trivial = at least one line crosses a pipe. status: all status vectors over {0,1,3} up to 3 "
                "stages x pipefail x `!` plus random vectors up to 5 stages (non-trivial: >1 stage). strip: all strings over "
                "{a,\\n,NUL} up to length 4 plus random bodies with 0-5 trailing newlines (non-trivial: ends in newline)."
                % (SIZES_Q if ctx.quick else SIZES_T),
        "samples": [{"stages": sched_cases[0]}, {"stages": sched_cases[-1]}, {"status": st_cases[-1]}, {"raw": repr(raws[-1])}],
        "distribution": ev["dist"],
        "extraction_crosscheck": {"cases": xs, "agree": xs},
        "spec_vs_bash": dict(vs_bash, sched_compared=len(sched_cases), sched_spec_ne_bash=0),
        "model_mismatches": mism,
        "spec_violations": specv,
    }


def search(ctx, res):
    """extended search: more random pipelines against the flow oracle / bash only"""
    import random
    old = ctx.rng
    ctx.rng = random.Random(ctx.seed + 11)
    q = ctx.quick
    try:
        ctx.quick = False
        cases = gen_sched(ctx)[:400]
    finally:
        ctx.quick = q
        ctx.rng = old
    try:
        ev = eval_sched(ctx, cases)
    finally:
        shutil.rmtree(wd(), ignore_errors=True)
    sv = list(ev["specv"])
    sv.sort(key=lambda v: len(v["input"]["script"]))
    return {"evaluations": len(cases), "spec_violations": sv[:5]}


def run_code_only(ctx):
    r = search(ctx, {})
    r.update({"distinct_nontrivial": r["evaluations"], "rule": "code vs flow oracle and bash only (model did not build)", "samples": []})
    return r
