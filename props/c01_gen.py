"""Generators for C01: boundary sweeps for the modelled cores and grammar-directed scripts + mutants."""
import re

I64MAX = 2 ** 63 - 1
I64MIN = -2 ** 63
U64MAX = 2 ** 64 - 1
U32 = 2 ** 32

BOUND = sorted({0, 1, 2, 3, 7, 10, 100, 255, 256, 65535, 65536, U32 - 1, U32, U32 + 1, 2 ** 33, 2 ** 62,
                I64MAX - 1, I64MAX, 2 ** 63, 2 ** 63 + 1, U64MAX - 1, U64MAX, U64MAX + 1, 10 ** 25})
SBOUND = sorted(set(BOUND) | {-b for b in BOUND})
I64B = [b for b in SBOUND if I64MIN <= b <= I64MAX]


def pick(rng, xs):
    return xs[rng.randrange(len(xs))]


def number_tokens(rng, n):
    out = []
    for b in BOUND:
        for sg in ("", "+", "-"):
            out.append(sg + str(b))
    out += ["00", "-0", "+0", "007", "-007", "0000000000000000000009", "9" * 19, "9" * 20, "9" * 40, "-" + "9" * 19]
    while len(out) < n:
        k = rng.choice([1, 2, 5, 18, 19, 19, 19, 20, 25])
        d = "".join(rng.choice("0123456789") for _ in range(k))
        if rng.random() < 0.4:
            d = str(I64MAX + rng.randrange(-3, 4))
        out.append(rng.choice(["", "+", "-"]) + d)
    seen, res = set(), []
    for t in out:
        if t not in seen:
            seen.add(t)
            res.append(t)
    return res[:n]


def _count(s, e, i):
    k = abs(i) or 1
    return abs(e - s) // k + 1


def numseq_cases(rng, n):
    out = []
    edges = [I64MIN, I64MIN + 1, I64MIN + 2, I64MIN + 5, -5, -1, 0, 1, 5, I64MAX - 5, I64MAX - 2, I64MAX - 1, I64MAX]
    incs = [None, 0, 1, -1, 2, -2, 3, 7, 1000, I64MAX, -I64MAX, I64MAX - 1, I64MIN, 2 ** 62, 2 ** 32, 2 ** 63 - 3]
    for s in edges:
        for e in edges:
            for i in incs:
                ii = 1 if i is None else i
                if _count(s, e, ii) <= 40:
                    out.append((s, e, i))
    # the literal witnesses
    out.append((0, -I64MAX, I64MAX))
    out.append((-I64MAX, I64MIN, 2))
    out.append((I64MAX, -I64MAX, I64MAX))
    rng.shuffle(out)
    out = out[: n * 2 // 3]
    while len(out) < n:
        s = rng.choice(edges + [rng.randrange(-50, 50)])
        d = rng.randrange(0, 60)
        i = rng.choice([None, 1, 2, 3, -3, 5, 0, rng.randrange(1, 20), I64MAX, 2 ** 62])
        e = s + rng.choice([-1, 1]) * d
        if I64MIN <= e <= I64MAX:
            out.append((s, e, i))
    res = []
    for (s, e, i) in out:
        fmt = lambda v: ("+" if (v >= 0 and rng.random() < 0.1) else "") + str(v)
        res.append((fmt(s), fmt(e), None if i is None else fmt(i)))
    return res


LETTERS = "abcdefghijklmnopqrstuvwxyzABCDEFGHIJKLMNOPQRSTUVWXYZ"


def charseq_cases(rng, n):
    out = []
    incs = [None, 0, 1, -1, 2, 3, 25, 26, 57, 64, 65, 66, 90, 91, 96, 97, 98, 121, 122, 123, 200, 65535, U32 - 1, U32, U32 + 1,
            U32 + 2, U32 * 2, U32 * 3 + 1, 2 ** 62, I64MAX, -I64MAX, I64MIN, -200, -U32]
    pairs = [("a", "z"), ("z", "a"), ("b", "a"), ("a", "a"), ("A", "Z"), ("Z", "A"), ("B", "A"), ("m", "c"), ("c", "m"),
             ("Z", "C"), ("z", "b"), ("y", "b")]
    for (s, e) in pairs:
        for i in incs:
            out.append((s, e, None if i is None else str(i)))
    rng.shuffle(out)
    while len(out) < n:
        up = rng.random() < 0.4
        al = LETTERS[26:] if up else LETTERS[:26]
        s, e = rng.choice(al), rng.choice(al)
        i = rng.choice(incs + [rng.randrange(1, 130)])
        out.append((s, e, None if i is None else str(i)))
    return out[:n]


ALPHA = ["a", "b", "c", "d", "é", "€", "😀", "z", "0", " "]


def _val(rng, maxlen=8):
    return "".join(rng.choice(ALPHA) for _ in range(rng.randrange(0, maxlen)))


def substr_cases(rng, n):
    out = []
    offs = [0, 1, 2, 3, 4, 5, 9, -1, -2, -3, -4, -5, -9, I64MAX, I64MIN, I64MIN + 1, I64MAX - 1, 2 ** 32, -2 ** 32]
    lens = [None, 0, 1, 2, 3, 4, 5, 9, -1, -2, -3, -4, -5, -6, -9, I64MAX, I64MIN, I64MIN + 1, 2 ** 32]
    # systematic on a short ascii and a multi-byte value
    for v in ("abcd", "aé€d", ""):
        for o in offs:
            for l in lens:
                out.append(("scalar", [v], o, l))
    for vals in (["p", "q", "r"], []):
        for o in offs[:13]:
            for l in lens[:15]:
                out.append(("array", vals, o, l))
                if vals:
                    out.append(("positional", vals, o, l))
    rng.shuffle(out)
    out = out[: n * 3 // 4]
    while len(out) < n:
        kind = rng.choice(["scalar", "scalar", "array", "positional"])
        if kind == "scalar":
            vals = [_val(rng, 10)]
            ln = len(vals[0])
        else:
            vals = [_val(rng, 4) for _ in range(rng.randrange(0 if kind == "array" else 1, 6))]
            ln = len(vals)
        o = rng.choice([rng.randrange(-ln - 3, ln + 4), rng.choice(offs)])
        l = rng.choice([None, rng.randrange(-ln - 4, ln + 4), rng.choice(lens[1:])])
        out.append((kind, vals, o, l))
    return out[:n]


def intappend_cases(rng, n):
    vals = ["0", "1", "-1", "+1", "", "abc", " 1", "1 ", "--1", "0x10", "007", "-0", str(I64MAX), str(I64MAX - 1), str(I64MIN),
            str(I64MIN + 1), str(2 ** 63), str(-2 ** 63 - 1), str(2 ** 62), str(-2 ** 62), "9" * 30, "+" + str(I64MAX), "１２"]
    out = []
    for site in (0, 1, 2):
        for b in vals:
            for s in vals:
                out.append((site, b, s))
    rng.shuffle(out)
    out = out[: n * 4 // 5]
    while len(out) < n:
        a = rng.choice([I64MAX, I64MIN, 2 ** 62, -2 ** 62, 0]) + rng.randrange(-3, 4)
        b = rng.choice([I64MAX, I64MIN, 2 ** 62, -2 ** 62, 0, 1, -1]) + rng.randrange(-3, 4)
        out.append((rng.randrange(3), str(a), str(b)))
    return out[:n]


def arraykeys_cases(rng, n):
    keys = ["0", "1", "5", "+5", "-1", "abc", "", "007", str(U64MAX), str(U64MAX - 1), str(U64MAX + 1), str(I64MAX),
            str(2 ** 63), "1+1", " 3"]
    keys = [k for k in keys if " " not in k]
    out = []
    for k in keys:
        out.append((None, [k]))
        out.append((None, [k, None]))
        out.append((None, [None, k, None, None]))
        out.append((k if k.isdigit() else "4", [None]))
        out.append((k if k.isdigit() else "4", [None, k, None]))
    while len(out) < n:
        last = rng.choice([None, None, str(rng.randrange(0, 9)), str(U64MAX), str(U64MAX - 1), str(U64MAX - 2)])
        lits = [rng.choice([None, None, rng.choice(keys), str(rng.randrange(0, 12)), str(U64MAX - rng.randrange(0, 3))])
                for _ in range(rng.randrange(0, 5))]
        out.append((last, lits))
    return out[:n]


def indexedkey_cases(rng, n):
    out = []
    for count in (0, 1, 3):
        for idx in (0, 1, 2, 3, 5, -1, -2, -3, -4, -5, I64MAX, I64MAX - 1, I64MIN, I64MIN + 1, I64MIN + 3, 2 ** 32):
            out.append((count, idx))
    while len(out) < n:
        c = rng.randrange(0, 6)
        out.append((c, rng.randrange(-c - 3, c + 4)))
    return out[:n]


FIRSTS = ["a", "Z", "é", "É", "ß", "ǆ", "ǅ", "ı", "İ", "ﬁ", "σ", "Σ", "ς", "ŉ", "€", "😀", "𐐨", "1", "-", "ᾳ", "ԥ", "ⓐ"]


def capitalize_cases(rng, n):
    out = ["", "a", "abc", "ABC", "éa", "Éa", "ßa", "ǆa", "İx", "Σ", "AΣ", "aΣ", "ΑΣ"]
    for f in FIRSTS:
        out.append(f)
        out.append(f + "bC")
    while len(out) < n:
        out.append(rng.choice(FIRSTS) + "".join(rng.choice(FIRSTS + list("abXY ")) for _ in range(rng.randrange(0, 5))))
    return [s for s in dict.fromkeys(out) if "'" not in s][:n]


def tilde_cases(rng, n):
    out = []
    for b in BOUND:
        for p in ("", "+", "-"):
            out.append((p, str(b)))
    out += [("", "007"), ("+", "0"), ("-", "0"), ("", "9" * 30), ("-", "9" * 30), ("+", "9" * 30)]
    while len(out) < n:
        d = str(U64MAX + rng.randrange(-3, 4)) if rng.random() < 0.5 else "".join(rng.choice("0123456789") for _ in range(rng.choice([1, 3, 19, 20, 21])))
        out.append((rng.choice(["", "+", "-"]), d))
    return list(dict.fromkeys(out))[:n]


def dirstack_cases(rng, n):
    out = []
    for count in range(0, 5):
        for k in (0, 1, 2, 3, 4, 5, 6, 99, U32, I64MAX, U64MAX):
            for plus in (False, True):
                out.append((count, k, plus))
    rng.shuffle(out)
    return out[:n]


def history_cases(rng, n):
    out = []
    for count in (0, 1, 3, 6):
        for mx in [None, "0", "1", "2", "3", "5", "6", "7", "99999", str(U64MAX), str(U64MAX + 1), str(I64MAX), "+2", "abc", "-1", "007"]:
            out.append((count, mx))
    while len(out) < n:
        c = rng.randrange(0, 9)
        out.append((c, str(rng.randrange(0, c + 4))))
    return out[:n]


def pow_cases(rng, n):
    out = []
    bases = [0, 1, -1, 2, -2, 3, 10, -10, I64MAX, I64MIN, I64MIN + 1, 2 ** 32, 2 ** 31, 2 ** 62, 3037000500]
    exps = [0, 1, 2, 3, 31, 32, 62, 63, 64, 65, 127, 2 ** 31, 2 ** 32, 2 ** 62, I64MAX]
    for b in bases:
        for e in exps:
            out.append((b, e))
    rng.shuffle(out)
    while len(out) < n:
        out.append((rng.randrange(-20, 20), rng.randrange(0, 70)))
    return out[:n]


def deref_cases(rng, n):
    out = []
    for ln in (0, 1, 2, 5, 100, 1022, 1023, 1024, 1025, 1026, 1030):
        out.append([("r", k + 1) for k in range(ln)] + [("l", 7)])
    out.append([("r", 0)])                       # self reference
    out.append([("r", 1), ("r", 0)])             # 2-cycle
    out.append([("r", 1), ("r", 2), ("r", 1)])
    out.append([("r", 5)])                       # dangling: unset variable
    while len(out) < n:
        k = rng.randrange(1, 8)
        cells = []
        for j in range(k):
            cells.append(("r", rng.randrange(0, k + 1)) if rng.random() < 0.6 else ("l", rng.randrange(-9, 99)))
        out.append(cells)
    return out[:n]


# dereference expressions: ("l", int) | ("v", i) | ("e", a, ix)
def aexp_src(e):
    if e[0] == "l":
        return str(e[1])
    if e[0] == "v":
        return "s%d" % e[1]
    return "a%d[%s]" % (e[1], aexp_src(e[2]))


def aexp_wire(e):
    if e[0] == "l":
        return "l%d" % e[1]
    if e[0] == "v":
        return "v%d" % e[1]
    return "e%d,%s" % (e[1], aexp_wire(e[2]))


def aderef_script(expr, scalars, arrays, use):
    """assignments of the (possibly cyclic) environment followed by `use % expression`"""
    s = "".join("s%d='%s'; " % (i, aexp_src(x)) for i, x in enumerate(scalars))
    s += "".join("a%d=(%s); " % (j, " ".join("'%s'" % aexp_src(x) for x in arr)) for j, arr in enumerate(arrays))
    return s + (use % aexp_src(expr))


def _rand_aexp(rng, ns, na, d=0):
    k = rng.randrange(10)
    if k < 3 or (d >= 2 and k < 6) or d >= 3:      # at most 4 nested subscripts (more is KF-C01-arith-subscript-backtracking)
        return ("l", rng.randrange(0, 4))
    if k < 6 or na == 0:
        return ("v", rng.randrange(0, ns + 1))
    return ("e", rng.randrange(0, na), _rand_aexp(rng, ns, na, d + 1))


def aderef_cases(rng, n):
    out = []
    # the cycle through a subscript (seeded change C01/2), and its relatives
    out.append((("e", 0, ("v", 0)), [("e", 0, ("v", 0))], [[("l", 1), ("l", 2), ("l", 0)]]))
    out.append((("v", 0), [("e", 0, ("v", 0))], [[("l", 1), ("l", 2), ("l", 0)]]))
    out.append((("e", 0, ("l", 0)), [], [[("e", 0, ("l", 0))]]))                       # a0[0] = 'a0[0]'
    out.append((("e", 0, ("l", 0)), [], [[("e", 0, ("l", 1)), ("e", 0, ("l", 0))]]))   # two elements pointing at each other
    out.append((("v", 0), [("e", 0, ("v", 1)), ("l", 0)], [[("v", 0)]]))               # cycle through the element VALUE
    out.append((("e", 0, ("e", 0, ("v", 0))), [("e", 0, ("e", 0, ("v", 0)))], [[("l", 0)]]))   # subscript of a subscript
    out.append((("v", 0), [("e", 0, ("v", 1)), ("l", 2)], [[("l", 7), ("l", 8), ("v", 1)]]))   # finite chain -> 2
    out.append((("e", 1, ("e", 0, ("l", 1))), [], [[("l", 0), ("l", 2)], [("l", 5), ("l", 6), ("l", 9)]]))
    # long finite chains through subscripts (depth close to the limit must still evaluate)
    for ln in (10, 300, 500):
        sc = [("e", 0, ("v", k + 1)) for k in range(ln)] + [("l", 0)]
        out.append((("v", 0), sc, [[("l", 3)]]))
    while len(out) < n:
        ns, na = rng.randrange(1, 4), rng.randrange(0, 3)
        scalars = [_rand_aexp(rng, ns, na) for _ in range(ns)]
        arrays = [[_rand_aexp(rng, ns, na, 1) for _ in range(rng.randrange(1, 4))] for _ in range(na)]
        out.append((_rand_aexp(rng, ns, na), scalars, arrays))
    return out[:n]


# every arithmetic context fed with (cyclic) dereference environments
ARITH_CONTEXTS = ["echo $(( %s ))", "(( %s )); echo $?", "let '%s'; echo $?", "[[ %s -eq 0 ]]; echo $?", "[[ 0 -lt %s ]]; echo $?",
                  "s=abcdef; echo ${s:%s}", "s=abcdef; echo ${s:0:%s}", "s=abcdef; echo ${s:%s:1}", "z=(p q r); echo ${z[%s]}",
                  "z=(); z[%s]=1; echo ${#z[@]}", "for ((k=%s; k<1; k++)); do :; done; echo $?", "echo $[ %s ]",
                  "declare -i q; q='%s'; echo $q", "z=(p q r); echo ${z[@]:%s:1}", "echo $(( %s ? 1 : 2 ))", "echo $(( x = %s ))",
                  "z=(1 2); (( z[%s]++ )); echo $?", "echo $(( 1 + -%s ))"]


def cycle_scripts(rng, n):
    out = []
    envs = aderef_cases(rng, 40)
    cyc = envs[:6]
    for (expr, scalars, arrays) in cyc:
        for use in ARITH_CONTEXTS:
            out.append(aderef_script(expr, scalars, arrays, use))
    out += ["x=x; echo $((x))", "a=b; b=a; echo $((a))", "x='x+1'; echo $((x))", "x='y[x]'; y=(0); echo $((x))",
            "next=(1 2 0); i='next[i]'; echo $(( next[i] ))", "i='next[i]'; next=(1 2 0); s=abc; echo ${s:next[i]}",
            "declare -A m; m[k]='m[k]'; echo $(( m[k] ))", "i='j[i]'; echo $(( i ))"]
    while len(out) < n:
        (expr, scalars, arrays) = pick(rng, envs)
        out.append(aderef_script(expr, scalars, arrays, pick(rng, ARITH_CONTEXTS)))
    return out[:max(n, len(cyc) * len(ARITH_CONTEXTS) + 8)]


# ------------------------------------------------------------------ grammar-directed scripts

NUMS = ["0", "1", "-1", "2", "7", "255", str(U32 - 1), str(U32), str(U32 + 1), str(I64MAX), str(I64MAX - 1), str(I64MIN + 1), str(I64MIN),
        str(2 ** 63), str(U64MAX), str(U64MAX + 1), "9" * 25, "-" + "9" * 25, "", "08", "0x7fffffffffffffff", "0xffffffffffffffff",
        "64#zz", "65#1", "1#0", "2#" + "1" * 64, "-0", "+5", "1e3", "1.5"]
WORDS = ["a", "b", "foo", "x y", "", "é", "€uro", "😀", "*", "?", "[a-z]", "~", "~+", "~-", "$x", "${y}", "a\\ b", "-n", "--", "=", "%s", "\\", "$"]
VARS = ["x", "y", "z", "arr", "map", "n", "IFS", "_v1"]


class Gen:
    def __init__(self, rng, safe):
        self.rng = rng
        self.safe = safe          # in-process: no exec/kill/ulimit/exit-sensitive commands

    def num(self):
        r = self.rng
        return pick(r, NUMS) if r.random() < 0.6 else str(r.randrange(-20, 200))

    def word(self, d=0):
        r = self.rng
        k = r.randrange(14)
        if k == 0:
            return "'" + pick(r, WORDS).replace("'", "") + "'"
        if k == 1:
            return '"' + self.dq(d) + '"'
        if k == 2:
            return self.param(d)
        if k == 3:
            return "$((" + self.arith(d) + "))"
        if k == 4 and d < 3:
            return "$(" + self.simple(d + 1) + ")"
        if k == 5:
            return self.brace(d)
        if k == 6:
            return pick(r, ["~", "~+", "~-", "~root", "~nosuchuser"]) + pick(r, ["", "/x", self.num()])
        if k == 7:
            return "$'" + pick(r, ["\\n", "\\x41", "\\u00e9", "\\U0001F600", "\\101", "\\cA", "\\e", "\\xZZ", "\\u", "\\777", "a\\", "\\x"]) + "'"
        if k == 8 and d < 3:
            return "`" + self.simple(d + 2).replace("`", "") + "`"
        if k == 9:
            return pick(r, ["*", "?", "[!a]*", "@(a|b)", "!(x)", "+(a)", "*(b|c)", "[[:alpha:]]", "[z-a]", "[", "[]", "[!]", "**/x", "/*/../*"])
        if k == 10:
            return pick(r, WORDS).replace(" ", "\\ ") or "''"
        if k == 11:
            return "$" + pick(r, ["?", "#", "$", "!", "@", "*", "-", "0", "1", "9", "_", "10", "{10}", "{#}", "{#x}", "{!x}", "{!arr[@]}", "{#arr[@]}"])
        return pick(r, ["a", "b", "foo", "bar", "x", "1"]) + (self.word(d + 1) if d < 2 and r.random() < 0.3 else "")

    def dq(self, d):
        r = self.rng
        parts = []
        for _ in range(r.randrange(1, 4)):
            k = r.randrange(6)
            if k == 0:
                parts.append(self.param(d))
            elif k == 1:
                parts.append("$((" + self.arith(d) + "))")
            elif k == 2 and d < 3:
                parts.append("$(" + self.simple(d + 1).replace('"', "") + ")")
            elif k == 3:
                parts.append(pick(r, ["\\\"", "\\$", "\\\\", "\\a", "é", "'", " ", "*"]))
            else:
                parts.append(pick(r, ["a", "b c", "x", ""]))
        return "".join(parts)

    def param(self, d):
        r = self.rng
        v = pick(r, VARS + ["arr[@]", "arr[*]", "arr[1]", "map[k]", "@", "*", "1", "arr[" + self.num() + "]", "arr[-1]", "arr[-99]"])
        k = r.randrange(22)
        n1, n2 = self.num(), self.num()
        w = pick(r, ["a", "*", "?", "b*", "[a-c]", "", "é", "/", "#", "%"]) if d > 1 or r.random() < 0.7 else self.word(d + 1)
        forms = [
            "${%s}" % v, "${#%s}" % v, "${%s:-%s}" % (v, w), "${%s:=%s}" % (v, w), "${%s:+%s}" % (v, w), "${%s:?%s}" % (v, w),
            "${%s:%s}" % (v, n1), "${%s:%s:%s}" % (v, n1, n2), "${%s: %s: %s}" % (v, n1, n2), "${%s#%s}" % (v, w), "${%s##%s}" % (v, w),
            "${%s%%%s}" % (v, w), "${%s%%%%%s}" % (v, w), "${%s/%s/%s}" % (v, w, w), "${%s//%s/%s}" % (v, w, w), "${%s/#%s/%s}" % (v, w, w),
            "${%s/%%%s/%s}" % (v, w, w), "${%s^}" % v, "${%s^^}" % v, "${%s,}" % v, "${%s,,}" % v,
            "${%s@%s}" % (v, pick(r, list("QEPAaKkUuL"))), "${!%s}" % v, "${!%s*}" % pick(r, ["x", "a", "", "B"]), "${!%s@}" % pick(r, ["x", "a"]),
        ]
        return pick(r, forms)

    def arith(self, d):
        r = self.rng
        if d > 3 or r.random() < 0.3:
            return pick(r, [self.num() or "0", pick(r, VARS), "arr[%s]" % (self.num() or "0"), "x++", "--y", "x+=1"])
        op = pick(r, ["+", "-", "*", "/", "%", "**", "<<", ">>", "&", "|", "^", "&&", "||", "<", ">", "<=", ">=", "==", "!=", ",", "=", "+=",
                      "-=", "*=", "/=", "%=", "<<=", ">>=", "&=", "^=", "|="])
        a, b = self.arith(d + 1), self.arith(d + 1)
        k = r.randrange(8)
        if op.endswith("=") and op not in ("<=", ">=", "==", "!="):
            a = pick(r, VARS + ["arr[1]", "arr[%s]" % (self.num() or "0")])
        if k == 0:
            return "(%s)" % a
        if k == 1:
            return "%s ? %s : %s" % (a, b, self.arith(d + 1))
        if k == 2:
            return pick(r, ["-", "+", "!", "~"]) + "(" + a + ")"
        return "%s %s %s" % (a, op, b)

    def brace(self, d):
        r = self.rng
        k = r.randrange(6)
        small = lambda: str(r.randrange(-12, 12))
        if k == 0:
            return "{%s..%s}" % (small(), small())
        if k == 1:
            s = pick(r, [str(I64MAX - 3), str(I64MIN + 4), small(), "0"])
            e = str(int(s) + r.randrange(-5, 6)) if abs(int(s)) < I64MAX - 10 else pick(r, [str(I64MAX), str(I64MIN + 1), str(I64MIN), s])
            return "{%s..%s..%s}" % (s, e, pick(r, NUMS[:14] + ["3"]) or "1")
        if k == 2:
            return "{%s..%s..%s}" % (pick(r, LETTERS), pick(r, LETTERS), pick(r, ["1", "2", "-1", "0", "200", "99", str(U32), str(U32 + 1), str(I64MAX), "7"]))
        if k == 3:
            return "{%s..%s}" % (pick(r, LETTERS), pick(r, LETTERS))
        if k == 4 and d < 3:
            return "{%s,%s%s}" % (self.word(d + 1), self.word(d + 1), pick(r, ["", ",", ",{a,b}"]))
        return pick(r, ["{a,b}", "{,}", "{a}", "{}", "{1..}", "{..2}", "{1..2..}", "{a..1}", "{1..a}", "x{1,2}y{3,4}", "{{a,b},c}", "{a,b", "a,b}", "{é..z}", "{1..3}{a..c}"])

    def assign(self, d):
        r = self.rng
        v = pick(r, VARS)
        k = r.randrange(10)
        if k == 0:
            return "%s=(%s)" % (v, " ".join(self.word(d + 1) for _ in range(r.randrange(0, 4))))
        if k == 1:
            return "%s=([%s]=%s %s)" % (v, self.num() or "0", self.word(d + 1), self.word(d + 1))
        if k == 2:
            return "%s[%s]=%s" % (v, pick(r, [self.num() or "0", self.arith(3)]), self.word(d + 1))
        if k == 3:
            return "%s+=%s" % (v, pick(r, [self.num(), self.word(d + 1), "(" + self.word(d + 1) + ")"]))
        if k == 4:
            return "declare -%s %s=%s" % (pick(r, ["i", "a", "A", "l", "u", "c", "r", "x", "n", "ia", "iA", "il", "cu"]), pick(r, ["x", "y", "q", "arr", "map"]), pick(r, [self.num(), self.word(d + 1)]))
        if k == 5:
            return "%s[%s]+=%s" % (pick(r, ["arr", "map"]), self.num() or "0", self.num())
        return "%s=%s" % (v, self.word(d + 1))

    def redirect(self):
        r = self.rng
        return pick(r, [">/dev/null", "2>/dev/null", "2>&1", "</dev/null", ">>/dev/null", "&>/dev/null", "<<<word", "<<< \"$x\"", ">&2", "3>&1", "3>&-",
                        "<&-", "%s>/dev/null" % pick(r, NUMS[:12]) , ">&%s" % pick(r, NUMS[:12]), "{fd}>/dev/null", "<(echo a)", ">|/dev/null", "<>/dev/null"])

    def simple(self, d=0):
        r = self.rng
        k = r.randrange(30)
        w = lambda: self.word(d + 1)
        if k < 6:
            s = pick(r, ["echo", "printf '%s\\n'", "printf", ":", "true", "false", "test", "[", "echo -e", "echo -n", "type", "command -v", "builtin echo"])
            s += " " + " ".join(w() for _ in range(r.randrange(0, 4)))
            if s.startswith("["):
                s += " ]"
        elif k < 9:
            s = self.assign(d)
        elif k == 9:
            s = self.assign(d) + " " + self.simple(d + 1) if d < 3 else self.assign(d)
        elif k == 10:
            s = "printf %s %s" % (pick(r, ["'%d'", "'%5s'", "'%-*s'", "'%.*f'", "'%x'", "'%c'", "'%b'", "'%q'", "'%(%Y)T'", "'%999d'", "'%*d'", "'%.999s'", "'%n'", "'%'", "'%5$s'", "-v x '%s'", "'%u'", "'%e'"]), " ".join(pick(r, [str(r.randrange(-9, 40)), w()]) for _ in range(r.randrange(0, 3))))
        elif k == 11:
            s = "%s %s" % (pick(r, ["shift", "return", "break", "continue", "let", "getopts ab: o", "local x", "unset", "unset -v", "unset -f", "readonly", "export",
                                    "set --", "set -o", "set +o", "shopt -s", "shopt -u", "alias", "unalias", "hash", "pushd", "popd", "dirs", "cd", "eval", "source", ".",
                                    "read -r x <<<", "mapfile -t arr <<<", "declare -p", "declare -f", "typeset -i", "test", "times", "umask -p", "history", "fc -l",
                                    "help", "compgen -W 'a b' --", "complete -p", "compopt", "bind -l", "jobs", "wait", "disown", "caller", "enable -n", "printf -v arr[%s] x" % (self.num() or 0),
                                    "echo ${FUNCNAME[%s]}" % (self.num() or 0), "trap", "trap 'echo t' EXIT", "trap - %s" % (self.num() or 0), "kill -l", "exit"] if True else []),
                           pick(r, [self.num(), w(), ""]))
            if self.safe and re.match(r"(exit|source|\.|cd|pushd|popd|trap|eval|kill|wait|umask|read|mapfile|fc|bind|jobs|disown|enable)\b", s):
                s = "echo " + s
        elif k == 12:
            s = "[[ %s %s %s ]]" % (w(), pick(r, ["==", "!=", "=~", "<", ">", "-eq", "-ne", "-lt", "-gt", "-le", "-ge", "-ef", "-nt", "-ot", "="]), pick(r, [w(), self.num() or "0"]))
        elif k == 13:
            s = "[[ %s %s ]]" % (pick(r, ["-z", "-n", "-e", "-f", "-d", "-v", "-R", "!", "-o", "-t", "-x"]), w())
        elif k == 14:
            s = "(( %s ))" % self.arith(d)
        elif k == 15:
            s = "let \"%s\"" % self.arith(d).replace('"', "")
        elif k == 16:
            s = "test %s %s %s" % (self.num() or "0", pick(r, ["-eq", "-lt", "-gt", "=", "!=", "-a", "-o"]), self.num() or "0")
        elif k == 17:
            s = "echo ${arr[@]:%s:%s} ${x:%s} ${@:%s:%s}" % (self.num() or "0", self.num() or "0", self.num() or "0", self.num() or "0", self.num() or "0")
        elif k == 18:
            s = "printf '%%s\\n' %s" % self.brace(d)
        elif k == 19:
            s = "set -- %s; shift %s; echo $# ${%s}" % (" ".join(w() for _ in range(r.randrange(0, 4))), self.num(), pick(r, ["1", "10", "99", "#", "@:2"]))
        elif k == 20:
            s = "x=%s; echo ${x:%s:%s} ${#x} ${x^} ${x@Q}" % (w(), self.num() or "0", self.num() or "0")
        elif k == 21:
            s = "declare -%s v; v=%s; v+=%s; echo $v" % (pick(r, ["i", "c", "l", "u", "ia", "iA", "ai"]), pick(r, [w(), self.num()]), pick(r, [w(), self.num()]))
        elif k == 22:
            s = "arr=(%s); arr+=(%s); unset 'arr[%s]'; echo ${arr[%s]} ${!arr[@]} ${#arr[@]}" % (w(), w(), self.num() or "0", self.num() or "0")
        elif k == 23:
            s = "echo %s" % pick(r, ["~%s" % self.num(), "~+%s" % self.num(), "~-%s" % self.num(), "a:~%s" % self.num(), "x=~:~+%s" % self.num()])
        elif k == 24:
            s = "history %s" % pick(r, [self.num(), "-d " + self.num(), "-c", "-s a b", "-w /dev/null", "-a /dev/null", "-p x"])
        elif k == 25:
            s = "%s %s" % (pick(r, ["ulimit -n", "getopts", "printf '%d'", "shift", "return", "break", "continue", "umask", "fc -l", "dirs", "popd", "pushd", "wait", "kill -l", "exit", "suspend -f", "bg", "fg", "disown", "times", "logout"]) , self.num())
            if self.safe:
                s = "echo " + s
        else:
            s = "echo " + " ".join(w() for _ in range(r.randrange(1, 4)))
        if r.random() < 0.25:
            s += " " + self.redirect()
        return s

    def cmd(self, d=0):
        r = self.rng
        if d >= 4:
            return self.simple(d)
        k = r.randrange(26)
        c = lambda: self.cmd(d + 1)
        if k < 9:
            return self.simple(d)
        if k == 9:
            return "if %s; then %s; %sfi" % (c(), c(), pick(r, ["", "else %s; " % c(), "elif %s; then %s; " % (c(), c())]))
        if k == 10:
            return "for v in %s; do %s; done" % (" ".join(self.word(d + 1) for _ in range(r.randrange(0, 4))), c())
        if k == 11:
            return "for ((i%d=%s; i%d<%s; i%d++)); do %s; done" % (d, pick(r, ["0", "1", "-1"]), d, pick(r, ["0", "2", "3"]), d, c())
        if k == 12:
            return "n%d=0; while [ $n%d -lt %d ]; do n%d=$((n%d+1)); %s; done" % (d, d, r.randrange(0, 3), d, d, c())
        if k == 13:
            return "n%d=0; until [ $n%d -ge %d ]; do n%d=$((n%d+1)); %s; done" % (d, d, r.randrange(0, 3), d, d, c())
        if k == 14:
            return "case %s in %s) %s;; %s) %s%s *) %s;; esac" % (self.word(d + 1), pick(r, ["a", "*", "?", "[a-z]*", "a|b", "@(a|b)", "''", "é"]), c(),
                                                                 pick(r, ["b", "x*", "\"$x\"", "+([0-9])"]), c(), pick(r, [";;", ";&", ";;&"]), c())
        if k == 15:
            return "{ %s; %s; }" % (c(), c())
        if k == 16:
            return "( %s )" % c()
        if k == 17:
            return "%s | %s" % (c(), pick(r, ["cat", "wc -c", "head -1", "{ read a; echo $a; }", "tr a b", "true"]))
        if k == 18:
            return "%s %s %s" % (c(), pick(r, ["&&", "||", ";", "&&", "||"]), c())
        if k == 19:
            f = pick(r, ["f", "g", "h1", "é"])
            return "%s() { %s; }; %s %s" % (f, c(), f, self.word(d + 1))
        if k == 20:
            return "! %s" % c()
        if k == 21:
            return "select v in a b; do %s; break; done </dev/null" % c()
        if k == 22:
            return "cat <<EOF\n%s %s\nEOF" % (self.param(d), "$((" + self.arith(d) + "))")
        if k == 23:
            return "cat <<-'E'\n\t%s\nE" % pick(r, WORDS)
        if k == 24:
            return "time %s" % c() if not self.safe else c()
        return "%s &\nwait" % self.simple(d) if not self.safe else self.simple(d)

    def script(self):
        r = self.rng
        pre = pick(r, ["", "", "x=abc; y=; arr=(p q r); declare -A map=([k]=v); ", "set -u; ", "shopt -s extglob; ", "set -e; ", "x=é€; arr=(); ",
                       "shopt -s nullglob globstar; ", "set -o posix; ", "IFS=:; x=a:b; ", "set -x; "])
        return pre + "\n".join(self.cmd(0) for _ in range(r.randrange(1, 4)))


def nest(rng, depth):
    """deep nesting (<= 64) of one construct"""
    k = rng.randrange(12)
    d = depth
    if k == 0:
        return "echo " + "$(" * d + "echo x" + ")" * d
    if k == 1:
        return "(" * d + "echo x" + ")" * d if d % 2 == 1 else " ( " * d + "echo x" + " ) " * d
    if k == 2:
        return "{ " * d + "echo x; " + "} ; " * d
    if k == 3:
        return "echo $((" + "(" * d + "1" + "+1)" * d + "))"
    if k == 4:
        return "echo " + "${x:-" * d + "v" + "}" * d
    if k == 5:
        return "if true; then " * d + "echo x; " + "fi; " * d
    if k == 6:
        return "echo " + "{a," * d + "b" + "}" * d
    if k == 7:
        return "echo " + "\"$(echo " * d + "x" + ")\"" * d
    if k == 8:
        return "case x in x) " * d + "echo x " + ";; esac " * d
    if k == 9:
        return "for a in 1; do " * d + "echo x; " + "done; " * d
    if k == 10:
        return "[[ " + "( " * d + "a == a" + " )" * d + " ]]"
    return "echo " + "$((" * min(d, 30) + "1" + "))" * min(d, 30)


META = list("'\"`$(){}[]<>|&;\\#!*?~=:%+-/@^, \n\t") + ["$(", "${", "$((", "))", "<<", ">>", "&&", "||", ";;", "..", "é", " ", "​", "😀", "\x01", "\x7f", "\r"]


def mutate(rng, s):
    """token- and byte-level mutation (only deletes/duplicates/swaps what is there or inserts metacharacters/boundary numbers)"""
    for _ in range(rng.randrange(1, 4)):
        k = rng.randrange(8)
        if not s:
            s = pick(rng, META)
            continue
        i = rng.randrange(len(s))
        if k == 0:
            s = s[:i] + s[i + 1:]
        elif k == 1:
            s = s[:i] + pick(rng, META) + s[i:]
        elif k == 2:
            j = min(len(s), i + rng.randrange(1, 6))
            s = s[:i] + s[i:j] * 2 + s[j:]
        elif k == 3:
            s = s[:i]
        elif k == 4:
            toks = s.split(" ")
            if len(toks) > 1:
                a, b = rng.randrange(len(toks)), rng.randrange(len(toks))
                toks[a], toks[b] = toks[b], toks[a]
                s = " ".join(toks)
        elif k == 5:
            # replace a number by a boundary value
            ms = list(re.finditer(r"-?\d+", s))
            if ms:
                m = pick(rng, ms)
                s = s[:m.start()] + (pick(rng, NUMS) or "0") + s[m.end():]
        elif k == 6:
            toks = s.split(" ")
            del toks[rng.randrange(len(toks))]
            s = " ".join(toks)
        else:
            s = s[:i] + pick(rng, META) + s[i + 1:]
    return s


_SEQ = re.compile(r"\{([+-]?\d+)\.\.([+-]?\d+)(?:\.\.([+-]?\d+))?\}")
_LOOPS = re.compile(r"\b(while|until|for \(\(|select)\b")
_DANGER = re.compile(r"\b(exec|kill|suspend|ulimit|logout|rm|reboot|shutdown|mkfs|dd|chmod|chown|mv|sleep|yes|read|cat\s*$|trap|coproc)\b")


def too_big(s):
    """a brace range with more than 1e5 elements (resource exhaustion, not a crash), or a mutant with loops"""
    total = 1
    for m in _SEQ.finditer(s):
        a, b = int(m.group(1)), int(m.group(2))
        k = abs(int(m.group(3))) if m.group(3) else 1
        k = k or 1
        if max(abs(a), abs(b)) > 2 ** 64:
            continue
        total *= abs(b - a) // k + 1
        if total > 100000:
            return True
    return False


# here-documents, including the empty quoted tag on which the tokenizer loops (reported by the C19 builder)
HEREDOCS = ["cat <<'' ", "<<'' ", 'cat <<"" ;x\t', "cat <<''\n\n", "cat <<-'' ", "cat <<''", "cat << '' \nx\n\n", 'cat <<""\nabc\n\n',
            "cat <<E\nx", "cat <<'E'", "cat <<-\tE\n\tx\n\tE", "cat <<E <<F\na\nE\nb\nF", "cat <<\\E\n$x\nE", "cat <<E;echo y\nx\nE"]


# ------------------------------------------------------------------ round g: Unicode boundary alphabet, here-documents
# in every syntactic position, numeric-argument sweeps of the builtins

# characters whose case mapping changes the UTF-8 length or expands to several characters, combining marks, 4-byte characters
UNI = ["\u0131", "\u017f", "\u212a", "\u00df", "\u0149", "\u01f0", "\u0390", "\ufb01", "\u0130", "\u01c6", "\u01c5", "\u03a3", "\u03c2",
       "\u00e9", "e\u0301", "\u0301", "\U0001f600", "\U00010428", "\U00010400", "\u1e9e", "\u212b", "\u2126", "\u1fb3", "\u2c65", "\u023a",
       "\u0250", "\u2c6f", "\ua7b1", "\u0287", "a", "Z", "1", "\u200d", "\U0001f1e9\U0001f1ea", "\u00b5", "\u1e9b", "\u0345"]
UNI_KEY = ["\u0131", "\u017f", "\u212a", "\u00df", "\u0149", "\u01f0", "\u0390", "\ufb01", "\u0130", "\u2c65", "\u023a", "\U00010428",
           "e\u0301", "\u0301", "\U0001f600", "a"]

# every expansion/builtin that transforms or slices text
UNI_CTX = ['echo "${x^}"', 'echo "${x^^}"', 'echo "${x,}"', 'echo "${x,,}"', 'echo "${x^?}"', 'echo "${x,?}"', 'echo "${x^^?}"', 'echo "${x,,[!a]}"',
           'echo "${x^[[:alpha:]]}"', 'echo "${x@U}"', 'echo "${x@L}"', 'echo "${x@u}"', 'echo "${x@Q}"', 'echo "${x@E}${x@P}${x@A}${x@K}${x@a}"',
           'echo "${#x}"', 'echo "${x:1}"', 'echo "${x:1:1}"', 'echo "${x: -1}"', 'echo "${x:0:-1}"', 'echo "${x:2:9}"', 'echo "${x:${#x}}"',
           'echo "${x#?}"', 'echo "${x##*?}"', 'echo "${x%?}"', 'echo "${x%%?*}"', 'echo "${x#*[!a]}"', 'echo "${x/?/X}"', 'echo "${x//?/X}"',
           'echo "${x/#?/X}"', 'echo "${x/%?/X}"', 'echo "${x//[![:alpha:]]/_}"', 'echo "${x/?}"', 'echo "${x~}${x~~}"',
           'declare -c v; v=$x; echo "$v"', 'declare -l v; v=$x; echo "$v"', 'declare -u v; v=$x; echo "$v"', 'declare -c v=$x; v+=$x; echo "$v"',
           'declare -u v; v[0]=$x; echo "${v[0]}"', 'read -n 1 r <<<"$x"; echo "$r"', 'read -N 2 r <<<"$x"; echo "$r"', 'read -r -n 3 r <<<"$x"; echo "$r"',
           'read -d "${x:0:1}" r <<<"ab${x}cd"; echo "$r"', "printf '%.1s|%.2s|%3s|%-3s|%.0s|\\n' \"$x\" \"$x\" \"$x\" \"$x\" \"$x\"", 'printf "%q\\n" "$x"',
           'printf "%d\\n" "\'$x"', 'printf "%c|%5c|\\n" "$x" "$x"', 'printf "%b\\n" "$x"', 'printf -v y "%.1s" "$x"; echo "${#y}"',
           'a=($x "$x$x"); echo "${a[@]^}" "${a[@],,}" "${a[@]:1}" "${#a[1]}" "${a[@]#?}" "${a[@]/?/X}"', 'case $x in ?) echo one;; ??) echo two;; *) echo more;; esac',
           '[[ $x == ?* ]]; echo $?', '[[ $x =~ ^.(.*)$ ]]; echo "${BASH_REMATCH[1]}"', 'IFS=${x:0:1}; y="a${x}b"; echo $y', 'y=${x^}; echo "${#y}" "${y:1}"',
           'y=${x,,}; echo "${#y}" "${y: -1}"', 'echo "${x:1:1}${x:0:1}"', 'set -- "$x"; echo "${1^}" "${@^^}" "${*:1:1}" "${#1}"', 'echo ${x^} ${x,}',
           'shopt -s nocasematch; [[ $x == "${x^^}" ]]; echo $?; case $x in "${x,,}") echo m;; esac', 'compgen -W "$x ${x^}" -- "${x:0:1}"',
           'declare -A m; m[$x]=1; echo "${!m[@]}" "${m[$x]}"', 'echo "${x^^}" | { read -n 2 r; echo "$r"; }', 'f() { local -u u=$1; local -l l=$1; echo "$u$l"; }; f "$x"',
           'printf "%s\\n" "${x:1}" "${x%?}" | while read -r l; do echo "${#l}"; done', 'echo "${x@u}" "${x@L}" "${x@U}"; echo "${x^^}${x,,}"']


def unicode_scripts(rng, quick):
    out = []
    vals = []
    for u in (UNI_KEY if quick else UNI):
        vals += [u, u + "bc", "A" + u, u + u]
    for v in vals:
        if quick and len(vals) > 40:
            ctxs = rng.sample(UNI_CTX, 22)
        else:
            ctxs = UNI_CTX
        for c in ctxs:
            out.append("x='%s'; %s" % (v, c))
    for _ in range(150 if quick else 900):
        v = "".join(pick(rng, UNI) for _ in range(rng.randrange(1, 5)))
        out.append("x='%s'; %s; %s" % (v, pick(rng, UNI_CTX), pick(rng, UNI_CTX)))
    # the demo of seeded change C01g/2
    out.append("d='\u0131ss\u0131z'; echo \"${d^}\"; e='\u017ftra\u00dfe'; echo \"${e^}\"; f='\u212a2'; echo \"${f,}\"")
    return out


def firstchar_cases(rng, n):
    """(value, op, pattern) for the modelled core pattern_to_first_char"""
    out = []
    for u in UNI:
        for suffix in ("", "bc", "\u0131", u):
            for op in ("^", ","):
                out.append((u + suffix, op, None))
    for u in UNI_KEY:
        out.append((u + "x", "^", "?"))
        out.append((u + "x", ",", "?"))
        out.append((u + "x", "^", "#"))      # a pattern that does not match the first character
    out.append(("", "^", None))
    rng.shuffle(out)
    return out[:n]


HD_OPS = ["<<EOF", "<<-EOF", "<<'EOF'", '<<"EOF"', "<<\\EOF", "<< EOF", "<<EOF "]
HD_BODIES = ["hello", "", "$x ${y:-d} $(echo z) `echo w` $((1+1))", "a\\\nb", "EOF x", " EOF", "\thello", "line1\nline2", "'quoted' \"dq\" \\$x", "é😀"]
# the here-document operator in every syntactic position, with tokens after it on the same line
HD_POS = ['cat {H}', 'cat {H} | tr a-z A-Z', '( cat {H} )', '( (cat {H} | tr a-z A-Z); echo "inner=$?" )', '( ( cat {H} ) )', '((cat {H}) )',
          '( (cat {H}) ); echo after', 'echo $( (cat {H}) )', 'echo $(cat {H})', 'echo $( ( cat {H} | wc -l ); echo x )', 'x=$(cat {H}); echo "$x"',
          'echo `cat {H}`', '{ cat {H}; }', '{ cat {H}; } | wc -l', 'if cat {H}; then echo y; fi', 'while read l; do echo "$l"; done {H}',
          'for i in 1 2; do cat {H}; done', 'case x in x) cat {H};; esac', 'f() { cat {H}; }; f; f', 'cat {H} && echo ok', 'cat {H} || echo no', '! cat {H}',
          'cat {H} > /dev/null 2>&1', 'cat {H} {H2}', 'cat {H}; cat {H2}', '[[ $(cat {H}) =~ h(.*) ]]; echo "${BASH_REMATCH[1]}"',
          '[[ -n $(cat {H}) ]] && echo y', '[[ x =~ x ]] && cat {H}', '(( $(wc -l {H}) > 0 )); echo $?', 'echo $(( $(wc -c {H}) + 1 ))', '(( 1 )) && cat {H}',
          '((1)); cat {H}', '( (echo a); cat {H} )', '((echo a); cat {H})', '( ( (cat {H}) ) ; echo z)', '( ( (cat {H} | ( (tr a-z A-Z) ) ) ) )',
          'arr=( $(cat {H}) ); echo ${#arr[@]}', 'cat {H} | ( (tr a-z A-Z) )', 'eval "$(cat {H})"', 'cat {H} ; echo after # comment', 'echo "$(cat {H})" tail',
          'echo ${x:-$(cat {H})}', 'cat <( cat {H} )', 'until cat {H}; do break; done', '{ ( (cat {H}) ); }', 'cat {H} 2>&1 1>/dev/null | cat', 'cat 3{H} <&3',
          'exec 4{H}\ncat <&4', '$( (echo cat) ) {H}', 'echo $( ( (cat {H}) ) )', 'x=( (a) ); cat {H}', '( (cat {H}); (cat {H2}) )', 'a=1 b=2 cat {H} | (cat)',
          'cat {H} |& cat', 'if ( (cat {H}) ); then :; fi', 'while ( (false) ); do :; done; cat {H}', 'select v in a; do break; done {H}', 'cat {H} & wait',
          'coproc cat {H}; wait', 'time cat {H}', '((x=1)); ( (cat {H}) ) | cat', 'function g { cat {H}; } ; g']


def heredoc_scripts(rng, quick):
    out = []

    def render(pos, op, body, body2="second"):
        first = pos.replace("{H2}", op.replace("EOF", "FOE")).replace("{H}", op)
        head, nl, rest = first.partition("\n")
        tab = "\t" if op.startswith("<<-") else ""
        s_ = head + "\n" + body + "\n" + tab + "EOF\n"
        if "{H2}" in pos:
            s_ += body2 + "\n" + tab + "FOE\n"
        if nl:
            s_ += rest + "\n"
        return s_ + 'echo "status=$?"'
    for pos in HD_POS:
        out.append(render(pos, "<<EOF", "hello"))
        out.append(render(pos, pick(rng, HD_OPS), pick(rng, HD_BODIES)))
    for _ in range(80 if quick else 600):
        out.append(render(pick(rng, HD_POS), pick(rng, HD_OPS), pick(rng, HD_BODIES), pick(rng, HD_BODIES)))
    # unterminated / odd endings
    for pos in rng.sample(HD_POS, 12):
        out.append(pos.replace("{H2}", "<<F").replace("{H}", "<<EOF") + "\nhello")
        out.append(pos.replace("{H2}", "<<F").replace("{H}", "<<EOF"))
    return out


NUMB = ["0", "1", "-1", "2", "-2", "255", "256", "65536", "2147483647", "2147483648", "4294967295", "4294967296", "9223372036854775807", "9223372036854775808",
        "-9223372036854775808", "-9223372036854775809", "18446744073709551615", "18446744073709551616", "99999999999999999999999", "", "abc", "1x", "+5",
        "0x10", "1.5", "-0", "010", "''"]
NUMB_QUICK = ["0", "-1", "2", "256", "2147483648", "4294967296", "9223372036854775807", "9223372036854775808", "-9223372036854775808",
              "18446744073709551615", "18446744073709551616", "99999999999999999999999", "abc", "+5", ""]
# every builtin that parses a number (N = the number); run in-process
NUM_TEMPLATES = ["f(){ caller N; }; f", "caller N", "g(){ f(){ caller N; }; f; }; g", "mapfile -O N arr <<< $'a\\nb\\nc'; echo ${#arr[@]} ${!arr[@]}",
                 "mapfile -n N arr <<< $'a\\nb'; echo ${#arr[@]}", "mapfile -s N arr <<< $'a\\nb'; echo ${#arr[@]}", "mapfile -c N -C : arr <<< a",
                 "mapfile -u N arr; echo $?", "mapfile -t -O N -n N -s N arr <<< $'a\\nb\\nc'", "arr=(x y); mapfile -O N arr <<< $'a\\nb'; echo ${!arr[@]}",
                 "readarray -O N -t arr <<< $'a\\nb'", "set -- a b c; shift N; echo $#", "set -- a b c; shift N N", "history N", "history -d N", "history -d N-N",
                 "fc -l N", "fc -l N N", "fc -ln -N", "read -n N r <<< abcdef; echo \"$r\"", "read -{BIGN} N r <<< abcdef; echo \"$r\"", "read -t N r <<< a; echo $?",
                 "read -u N r; echo $?", "read -d '' -n N r <<< a", "read -a arr -n N <<< 'a b'", "kill -l N", "kill -s N 2147483646", "kill -n N 2147483646",
                 "kill -N 2147483646", "wait N; echo $?", "wait %N; echo $?", "wait -n N; echo $?", "wait -p v N", "jobs %N", "fg %N", "bg %N", "disown %N",
                 "printf '%.Ns|\\n' abcdef", "printf '%.*s|\\n' N abcdef", "printf '%d %u %x %o %i\\n' N N N N N", "printf '%c|%5.Nd|\\n' N 1",
                 "printf '%(%Y)T\\n' N", "printf '%N$s\\n' a", "trap 'echo t' N; trap -p N; trap - N", "trap - N", "trap -l N", "trap '' N N",
                 "dirs +N", "dirs -N", "dirs -l +N", "for i in 1 2; do break N; done; echo $?", "for i in 1 2; do for j in 1 2; do continue N; done; done; echo $?",
                 "f(){ return N; }; f; echo $?", "(exit N); echo $?", "f(){ return N N; }; f", "let N; echo $?", "let 'x=N'; echo $x", "echo $((N))", "echo $((N+1))",
                 "echo $(( 1 << N )) $(( 1 >> N )) $(( 2 ** N ))", "echo $(( N / -1 )) $(( N % -1 ))", "test N -eq N; echo $?", "[ N -lt 1 ]; echo $?",
                 "[[ N -eq 1 ]]; echo $?", "[ -t N ]; echo $?", "declare -i v=N; echo $v", "a=(p q); a[N]=1; echo ${!a[@]}", "a=(p q); echo \"${a[N]}\"",
                 "a=(p q); unset 'a[N]'; echo ${#a[@]}", "set -- a b; echo \"${@:N:N}\" \"${*:N}\"", "set -- a b; echo \"${N}\"", "x=abc; echo \"${x:N}\" \"${x:N:N}\" \"${x:0:N}\"",
                 "echo hi N>&1", "echo hi >&N", "echo hi N>/dev/null", "exec N>&-", "echo hi N<&-", "read -r r N<&0", "getopts a o -N; echo $OPTIND", "OPTIND=N; getopts a o -a; echo $?",
                 "umask -S; echo N > /dev/null", "ulimit -c N; ulimit -c", "shopt -s N", "set -o N", "enable -n N", "hash -d N", "type N", "help N >/dev/null",
                 "printf -v 'a[N]' x; echo ${!a[@]}", "echo ${FUNCNAME[N]} ${BASH_LINENO[N]} ${BASH_SOURCE[N]}", "compgen -W 'a b' -- N", "complete -o N c",
                 "declare -a z; z+=([N]=1 2); echo ${!z[@]}", "local N", "echo ~N ~+N ~-N", "echo {1..3..N} {a..c..N}", "sleep 0; times N", "bind -l N",
                 "exit N", "logout N", "return N", "break N", "continue N", "eval 'shift N'", "source /dev/null N", "alias N=N; unalias N",
                 "HISTSIZE=N; history 1", "LINENO=N; echo $LINENO", "RANDOM=N; echo $RANDOM >/dev/null", "SECONDS=N; echo $SECONDS >/dev/null", "OPTIND=N; echo $OPTIND",
                 "COLUMNS=N; select v in a b; do break; done </dev/null", "BASH_ARGC=N; echo ok", "IFS=N; set -- aNb; echo $1", "TMOUT=N; read -t 0 r <<< a"]
# builtins that change the process (cwd, dir stack, umask, limits): through the CLI binary only
NUM_TEMPLATES_PROC = ["cd -N", "cd +N", "pushd +N", "pushd -N", "pushd /tmp >/dev/null; pushd /var >/dev/null; pushd +N; dirs", "pushd /tmp >/dev/null; popd +N; dirs",
                      "popd -N", "popd +N", "pushd -n +N", "umask N; umask", "umask -S N", "ulimit -c N", "ulimit -Sc N; ulimit -Hc N", "exit N", "trap 'exit N' EXIT",
                      "f(){ return N; }; f", "set -e; (exit N); echo no", "exec N<&0", "(exit N) & wait $!; echo $?", "wait -n N"]


def _subst(t, v):
    """N stands for the number unless it is part of an upper-case name; {BIGN} is a literal N"""
    return re.sub(r"(?<![A-Z_])N(?![A-Z_])", lambda m: v, t).replace("{BIGN}", "N")


def numeric_scripts(rng, quick):
    vals = NUMB_QUICK if quick else NUMB
    inproc, procs = [], []
    for t in NUM_TEMPLATES:
        for v in vals:
            s_ = _subst(t, v)
            if re.match(r"(exit|logout|return|break|continue)\b", t):
                s_ = "( " + s_ + " ); echo $?"
            inproc.append(s_)
    for t in NUM_TEMPLATES_PROC:
        for v in (vals if not quick else vals[::2] + ["18446744073709551615"]):
            procs.append(_subst(t, v))
    return inproc, procs


# witnesses of every recorded finding: always part of the exploration, so that a defect that comes back is seen
WITNESSES = [
    "echo {-9223372036854775807..-9223372036854775808..2}", "echo {1..99999999999999999999}",
    "echo {0..-9223372036854775807..9223372036854775807}", "echo {b..a..200}", "echo {b..a..4294967296}",
    "x=abcd; echo ${x:2:-5}", "declare -i x=9223372036854775807; x+=1; echo $x",
    "declare -ia a; a[0]=9223372036854775807; a[0]+=1", "declare -iA a; a[k]=9223372036854775807; a[k]+=1",
    "a=([18446744073709551615]=x y)", "declare -c x; x=éa; echo $x", "echo ~99999999999999999999999", "echo ~-99999999999999999999999",
    "HISTFILE=/dev/null; history -c; history -s a; history 99999", "echo 4294967296>/dev/null", "echo hi 99999999999>&2",
    "PS1='\\D{%Q}'; echo \"${PS1@P}\"", "HISTFILE=/dev/null; history -c; HISTTIMEFORMAT='%Q '; history -s a; history",
    "case x in x) " * 24 + "case x x) " + "echo x " + ";; esac " * 25,
    "echo " + "{a," * 30 + "b" + "}" * 12,
    "echo {1..9223372036854775807}; echo after",
    " ( " * 32,
    "echo $(( " + "a0[" * 7 + "3" + "]" * 7 + " ))",
]
WITNESSES_PROC = ["(( 08 )) &\nwait\nwait", "echo ${x:?} &\nwait\nwait; echo $?", "cat <<'' "]


def scripts(rng, scale):
    """-> (in-process [(script, opts)], process-level [script])"""
    inproc, procs = [], []
    g_safe, g_full = Gen(rng, True), Gen(rng, False)
    base = []
    for _ in range(700 * scale):
        base.append(g_safe.script())
    for d in (1, 2, 3, 8, 16, 32, 48, 63, 64):
        for _ in range(3):
            base.append(nest(rng, d))
    base += HEREDOCS
    for s in base:
        if not too_big(s):
            inproc.append((s, pick(rng, ["", "", "", "interactive", "posix", "sh"])))
    for s in WITNESSES:
        inproc.append((s, "interactive,noenv" if "history" in s else ""))
    quick = scale <= 2
    uni = unicode_scripts(rng, quick)
    hd = heredoc_scripts(rng, quick)
    num_in, num_proc = numeric_scripts(rng, quick)
    for s in uni + hd + num_in:
        inproc.append((s, "interactive,noenv" if re.match(r"(history|fc)\b", s) else ""))
    procs += num_proc + hd[::3] + uni[::9]
    cyc = cycle_scripts(rng, 150 * scale)
    for s in cyc:
        inproc.append((s, ""))
    procs += WITNESSES + WITNESSES_PROC + cyc[:60]
    muts = 0
    while muts < 900 * scale:
        s = mutate(rng, pick(rng, base))
        muts += 1
        if too_big(s) or _DANGER.search(s):
            continue
        if _LOOPS.search(s) and rng.random() < 0.7:
            continue
        inproc.append((s, pick(rng, ["", "", "interactive"])))
    for _ in range(160 * scale):
        s = g_full.script()
        if rng.random() < 0.5:
            s = mutate(rng, s)
        if too_big(s) or re.search(r"\b(rm|reboot|shutdown|mkfs|dd|chmod|chown|mv|sleep|yes)\b", s):
            continue
        procs.append(s)
    return inproc, procs


PROMPT_ESC = list("adDehHjlnrstT@AuvVwW!#$[]\\") + ["D{%Y-%m-%d}", "D{}", "D{%", "D{%Q}", "D{" + "%Y" * 50 + "}", "0", "033", "777", "8", "x", "é", "", "D", "[\\e[0m\\]", "D{%s}", "D{%-99999d}"]


def editor_lines(rng, scale):
    g = Gen(rng, True)
    lines = []
    for _ in range(220 * scale):
        s = g.cmd(1).replace("\n", " ; ") if rng.random() < 0.8 else g.script()
        if rng.random() < 0.5:
            s = mutate(rng, s)
        if len(s) <= 160:
            lines.append(s)
    lines += HEREDOCS[:6]
    lines += ["", " ", "é", "echo é", "echo 'é", "echo \"$(é", "$", "${", "$((", "a=(", "echo ~", "echo {1..", "<<", "cat <<E", "x=é€😀 echo", "ec\tho",
              "echo \\", "if", "for", "case x in", "f() {", "echo $'\\", "echo ${x:", "echo ${x/", "[[ a =~ ", "(( 1 +", "a | ", "a && ", "! ", "echo >", "echo >&", " ", "😀😀"]
    for d in (8, 32, 64):
        lines.append(nest(rng, d)[:400])
    prompts = []
    for e in PROMPT_ESC:
        prompts.append("\\" + e)
        prompts.append("x\\" + e + "y")
    prompts += ["\\", "a\\", "$(echo x)", "${x:1:-9}", "$((1/0))", "`", "\\D{", "\\[\\]", "\\w\\W\\$ ", "é\\u", "\\" + "\\".join(PROMPT_ESC[:20]), "$(", "${", "\\0", "\\08", "\\400", "\\1234"]
    for _ in range(40 * scale):
        prompts.append("".join(pick(rng, ["\\" + pick(rng, PROMPT_ESC), pick(rng, WORDS), g.param(2), " "]) for _ in range(rng.randrange(1, 5))))
    return lines, prompts
