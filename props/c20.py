"""C20 — history saved once, in order, reloads as saved."""
import itertools
from vlib import core

PID = "C20"
ENTRIES = {"c20": ("Hist.Entry", "entry_c20")}
TRUSTED = ["modelled, not verified: brush-core/src/history.rs (import/add/flush/remove_nth_item/clear), "
           "shell/history.rs (add_to_history trim, save_history flags), builtin `history -d/-c` index arithmetic; "
           "the clock is an input of the model (the stamp observed in the code is fed to the model)"]
ASSUMPTIONS = ["the history file is only written by brush sessions and an initial arbitrary text",
               "write(2)/O_APPEND semantics of the OS (a flush appends its lines atomically w.r.t. the ops explored)"]

CMDS = ["ls", "  echo a b  ", "x=1", "#hash", "\tcd / ", "   ", "", "é ü"]
INIT_LINES = ["old", "#1700000001", "#abc", "# 12 ", "", "#99999999999999", "#-5", "two words", "#+7"]
WS = set("\t\n\x0b\x0c\r \x85\xa0                　")


def trim(s):
    a, b = 0, len(s)
    while a < b and s[a] in WS:
        a += 1
    while b > a and s[b - 1] in WS:
        b -= 1
    return s[a:b]


def op_alphabet(nsess, cmds):
    ops = [("N",), ("T",)]
    for s in range(nsess):
        ops += [("S", s), ("C", s), ("X", s), ("W", s)]
        ops += [("D", s, o) for o in (1, 2, -1, 0, -7)]
        ops += [("A", s, c) for c in cmds]
    return ops


def gen_cases(ctx):
    rng = ctx.rng
    cases = []
    # exhaustive short sequences over a reduced alphabet (one or two sessions)
    small = [("N",), ("T",), ("S", 0), ("S", 1), ("X", 0), ("W", 0), ("D", 0, 1), ("D", 0, -1), ("C", 0),
             ("A", 0, "ls"), ("A", 0, "  echo a b  "), ("A", 1, "x=1"), ("A", 0, "#hash")]
    depth = 3 if ctx.quick else 5
    for d in range(1, depth + 1):
        for seq in itertools.product(small, repeat=d):
            cases.append(([], [("N",)] + list(seq)))
    exhaustive_n = len(cases)
    # random longer sequences with an initial file
    alpha = op_alphabet(3, CMDS)
    for _ in range(1500 if ctx.quick else 20000):
        init = [rng.choice(INIT_LINES) for _ in range(rng.randrange(0, 5))]
        n = rng.randrange(1, 14)
        seq = [("N",)]
        for _ in range(n):
            r = rng.random()
            if r < 0.45:
                seq.append(("A", rng.randrange(0, 3), rng.choice(CMDS)))
            elif r < 0.65:
                seq.append(("S", rng.randrange(0, 3)))
            elif r < 0.72:
                seq.append(("X", rng.randrange(0, 3)))
            elif r < 0.78:
                seq.append(("W", rng.randrange(0, 3)))
            else:
                seq.append(rng.choice(alpha))
        cases.append((init, seq))
    # directed family: save, then interleaved deletions of already-saved entries and new commands,
    # then save again and reload (bookkeeping that tracks "what is already saved" by position or id
    # goes wrong only after two or more deletions with additions in between)
    good = [c for c in CMDS if valid_cmd(c) and trim(c)]
    for _ in range(500 if ctx.quick else 4000):
        k = rng.randrange(2, 5)
        seq = [("N",)] + [("A", 0, rng.choice(good)) for _ in range(k)] + [("S", 0)]
        nd = 0
        for _ in range(rng.randrange(3, 8)):
            if rng.random() < 0.55:
                seq.append(("D", 0, rng.choice([1, 1, 2, 3, -1, -2])))
                nd += 1
            else:
                seq.append(("A", 0, rng.choice(good)))
        if rng.random() < 0.3:
            seq.append(("T",))
        seq += [("S", 0), ("N",)]
        if rng.random() < 0.3:
            seq += [("W", 1), ("N",)]
        cases.append(([], seq))
    return cases, exhaustive_n


def encode(init, seq, nows=None):
    f = [str(len(init))] + init
    k = 0
    for o in seq:
        if o[0] == "A":
            now = nows[k] if nows else 0
            k += 1
            f += ["A", str(o[1]), str(now), o[2]]
        elif o[0] in ("S", "C", "X", "W"):
            f += [o[0], str(o[1])]
        elif o[0] == "D":
            f += ["D", str(o[1]), str(o[2])]
        else:
            f += [o[0]]
    return f


def parse_states(fields):
    """-> list of (file_lines, sessions) ; sessions = list of list of (cmd, ts, dirty)"""
    st = []
    i = 0
    try:
        while i < len(fields):
            assert fields[i] == "F"
            n = int(fields[i + 1]); lines = fields[i + 2:i + 2 + n]; i += 2 + n
            assert fields[i] == "H"
            ns = int(fields[i + 1]); i += 2
            sess = []
            for _ in range(ns):
                k = int(fields[i]); i += 1
                items = []
                for _ in range(k):
                    items.append((fields[i], fields[i + 1], fields[i + 2])); i += 3
                sess.append(items)
            st.append((lines, sess))
    except (AssertionError, ValueError, IndexError):
        return None
    return st


def stamp_of(comment):
    """the stamp a '#<comment>' line denotes: an i64 in chrono's range, else none"""
    t = trim(comment)
    import re as _re
    if not _re.fullmatch(r"[+-]?[0-9]+", t):
        return "-"
    v = int(t)
    if not (-8334601228800 <= v <= 8210266876799):
        return "-"
    return str(v)


def valid_cmd(c):
    t = trim(c)
    return "\n" not in t and not t.startswith("#")


def spec_check(init, seq, states):
    """The property itself, checked on the code's observable behaviour (independent of the Coq model).
    Only meaningful when every recorded command is single-line and does not start with '#'."""
    if not all(valid_cmd(o[2]) for o in seq if o[0] == "A"):
        return None
    if any(not l.startswith("#") and l == "" for l in init):
        pass
    file_prev = list(init)
    sess = []          # per session: list of [cmd, unsaved?]
    tsflag = False
    for o, (lines, ss) in zip(seq, states):
        exp_new = []
        if o[0] == "N":
            sess.append([[l, False] for l in file_prev if not l.startswith("#")])
            got = [c for (c, _, _) in ss[-1]] if ss else None
            if got != [c for c, _ in sess[-1]]:
                return "reload: session commands %r differ from the file's command lines %r" % (got, [c for c, _ in sess[-1]])
            # timestamps stay attached: a reloaded command carries exactly the stamp of the
            # timestamp line written directly before it, and none otherwise
            exp_ts = []
            for j, l in enumerate(file_prev):
                if l.startswith("#"):
                    continue
                t = "-"
                if j > 0 and file_prev[j - 1].startswith("#"):
                    t = stamp_of(file_prev[j - 1][1:])
                exp_ts.append(t)
            got_ts = [t for (_, t, _) in ss[-1]]
            if got_ts != exp_ts:
                return "reload: timestamps %r are not the ones written directly before each command %r" % (got_ts, exp_ts)
        elif o[0] == "T":
            tsflag = not tsflag
        elif o[1] < len(sess):
            s = sess[o[1]]
            if o[0] == "A":
                t = trim(o[2])
                if t:
                    s.append([t, True])
            elif o[0] == "S":
                exp_new = [c for c, u in s if u]
                for e in s:
                    e[1] = False
            elif o[0] == "W":
                # `history -w`: the file is REPLACED by exactly the session's commands (old tail gone)
                got_cmds = [l for l in lines if not l.startswith("#")]
                if got_cmds != [c for c, u in s]:
                    return "after %r the file holds commands %r, expected exactly the session's %r" % (o, got_cmds, [c for c, u in s])
                file_prev = lines
                continue
            elif o[0] == "C":
                del s[:]
            elif o[0] == "D":
                off = o[2]
                if off > 0 and off - 1 < len(s):
                    del s[off - 1]
                elif off < 0 and len(s) + off >= 0:
                    del s[len(s) + off]
        if lines[:len(file_prev)] != file_prev:
            return "file is not append-only at op %r" % (o,)
        added = lines[len(file_prev):]
        added_cmds = [l for l in added if not l.startswith("#")]
        if added_cmds != exp_new:
            return "after %r the file gained commands %r, expected exactly the unsaved ones %r" % (o, added_cmds, exp_new)
        if o[0] == "S" and tsflag and o[1] < len(ss):
            # every saved command is directly preceded by its own timestamp line
            j = 0
            for c in exp_new:
                if j + 1 >= len(added) + 0 and not (j < len(added)):
                    return "timestamp lines missing"
                if not added[j].startswith("#") or added[j + 1] != c:
                    return "timestamp not attached to %r in %r" % (c, added)
                j += 2
        file_prev = lines
    return None


def nontrivial(seq):
    kinds = {o[0] for o in seq}
    return "A" in kinds and "S" in kinds


def run(ctx):
    cases, exhaustive_n = gen_cases(ctx)
    impl = ctx.impl("hist", [encode(i, s) for i, s in cases])
    model_cases = []
    impl_states = []
    for (init, seq), line in zip(cases, impl):
        fields = core.dec_line(line)
        st = parse_states(fields) if not line.startswith(("PANIC", "DIED", "TIMEOUT")) else None
        impl_states.append(st)
        nows = []
        if st and len(st) == len(seq):
            prev = [[]]
            prev_sess = []
            for o, (_, ss) in zip(seq, st):
                if o[0] == "A":
                    now = 0
                    if o[1] < len(ss) and o[1] < len(prev_sess) and len(ss[o[1]]) > len(prev_sess[o[1]]):
                        t = ss[o[1]][-1][1]
                        now = int(t) if t not in ("", "-") else 0
                    nows.append(now)
                prev_sess = ss
        else:
            nows = [0] * sum(1 for o in seq if o[0] == "A")
        model_cases.append(encode(init, seq, nows))
    model = ctx.model("c20", model_cases)
    mism, specv = [], []
    for k, ((init, seq), il, ml) in enumerate(zip(cases, impl, model)):
        if il != ml:
            mism.append({"init": init, "ops": seq, "code": core.dec_line(il)[:80] if not il.startswith("PANIC") else il,
                         "model": core.dec_line(ml)[:80]})
        st = impl_states[k]
        if st is None or len(st) != len(seq):
            specv.append({"input": {"init": init, "ops": seq}, "why": "the code did not complete the history: %s" % il[:200]})
            continue
        why = spec_check(init, seq, st)
        if why:
            specv.append({"input": {"init": init, "ops": seq}, "why": why, "code_states": st[-1]})
    # in-Coq cross-check of extraction on a sample
    sample_idx = ctx.rng.sample(range(len(cases)), min(48, len(cases)))
    ce = ctx.coq_eval("c20", [model_cases[i] for i in sample_idx])
    xbad = [i for i, v in zip(sample_idx, ce) if v != model[i]]
    if xbad:
        raise core.CheckBroken("extracted runner and vm_compute disagree on case %r" % (model_cases[xbad[0]],))
    distinct = {repr(c) for c in cases if nontrivial(c[1])}
    dist = {}
    for _, seq in cases:
        for o in seq:
            dist[o[0]] = dist.get(o[0], 0) + 1
    return {
        "evaluations": len(cases),
        "distinct_nontrivial": len(distinct),
        "rule": "op sequences over {Add(sid,cmd), Save(sid), SaveFail(sid: a save whose write fails, HISTFILE=/dev/full), Write(sid: `history -w`), NewSession, Delete(sid,off), Clear(sid), ToggleTs} on one shared HISTFILE: "
                "all sequences up to length %d over a 13-op alphabet (%d cases) plus random sequences of length<=14 over 3 sessions, "
                "8 commands (blank-padded, '#'-leading, empty, multi-byte, NBSP) and initial files with timestamp/comment/blank lines; "
                "non-trivial = contains at least one Add and one Save; distinct by the (init, ops) pair"
                % (3 if ctx.quick else 5, exhaustive_n),
        "samples": [{"init": c[0], "ops": c[1]} for c in (cases[exhaustive_n - 1], cases[-1], cases[-2])],
        "distribution": {"ops_by_kind": dist, "cases_with_initial_file": sum(1 for c in cases if c[0]),
                         "cases_spec_checked": sum(1 for c in cases if all(valid_cmd(o[2]) for o in c[1] if o[0] == "A"))},
        "extraction_crosscheck": {"cases": len(sample_idx), "agree": len(sample_idx) - len(xbad)},
        "model_mismatches": mism,
        "spec_violations": specv,
    }


def search(ctx, res):
    """extended search after a broken tie: more and longer random histories, spec oracle only"""
    import random
    rng = random.Random(ctx.seed + 1)
    alpha = op_alphabet(3, [c for c in CMDS if valid_cmd(c)])
    cases = []
    for mm in res.get("model_mismatches", [])[:50]:
        cases.append((mm["init"], [tuple(o) for o in mm["ops"]]))
    for _ in range(20000):
        init = [rng.choice(INIT_LINES) for _ in range(rng.randrange(0, 4))]
        seq = [("N",)] + [rng.choice(alpha) for _ in range(rng.randrange(1, 20))]
        cases.append((init, seq))
    impl = ctx.impl("hist", [encode(i, s) for i, s in cases])
    specv = []
    for (init, seq), il in zip(cases, impl):
        st = parse_states(core.dec_line(il)) if not il.startswith(("PANIC", "DIED", "TIMEOUT")) else None
        if st is None or len(st) != len(seq):
            specv.append({"input": {"init": init, "ops": seq}, "why": "the code did not complete: %s" % il[:200]})
            continue
        why = spec_check(init, seq, st)
        if why:
            specv.append({"input": {"init": init, "ops": seq}, "why": why})
    specv.sort(key=lambda v: len(v["input"]["ops"]))
    return {"evaluations": len(cases), "spec_violations": specv[:5]}


def run_code_only(ctx):
    r = search(ctx, {})
    r.update({"distinct_nontrivial": r["evaluations"], "rule": "code vs spec oracle only (model did not build)",
              "samples": []})
    return r


def replay(ctx, payload):
    init = payload["input"]["init"]
    seq = [tuple(o) for o in payload["input"]["ops"]]
    il = ctx.impl("hist", [encode(init, seq)])[0]
    st = parse_states(core.dec_line(il)) if not il.startswith(("PANIC", "DIED", "TIMEOUT")) else None
    if st is None or len(st) != len(seq):
        return "the code did not complete: %s" % il[:200]
    return spec_check(init, seq, st)
