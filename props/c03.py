"""C03 — errexit, nounset and pipefail stop the shell exactly where bash does."""
from vlib import core
from props import c02gen as sg
from props import c02lib as lib
from props import c02

PID = "C03"
ENTRIES = {"c03_nounset": ("Shell.C03Entry", "entry_c03_nounset")}
TRUSTED = c02.TRUSTED + [
    "errexit: the model threads the suppress_errexit boolean exactly as interp.rs does and applies it in Pipeline::execute; the "
    "specification is declarative (position stack, exempt positions: if/elif/while/until tests, non-final && || operands, ! pipelines); "
    "ERR traps, command substitution (inherit_errexit) and eval are outside the modelled fragment",
    "redirections on compound commands are modelled as always succeeding and transparent (only `< /dev/null`, `2>/dev/null`, `<<<x` are "
    "generated); assignment-only commands carry at most one command substitution of scripted status (`v=$(exit n)`), the change counter "
    "of set_last_exit_status is modelled as the number of calls made by the command's own expansion",
    "nounset: a finite decision table (27 forms incl. 8 arithmetic contexts x 14 parameter kinds incl. declared-but-unset names; 296 applicable cells) mirrored from expansion.rs by hand, tied to the code and to "
    "bash by running every cell each run; the abort itself (error propagation) is checked on probes only",
    "bash deviates from its own manual when `set -e` is switched on *inside* a `!` compound (it then exits); the specification follows the "
    "manual (and brush); such programs are counted under spec_vs_bash.tolerated",
]
ASSUMPTIONS = c02.ASSUMPTIONS

# order = all_forms / all_kinds of Shell/C03Nounset.v (the entry is index based)
FORMS = [("FPlain", "${%s}"), ("FDefault", "${%s-d}"), ("FDefaultColon", "${%s:-d}"), ("FAssign", "${%s=d}"), ("FAlt", "${%s+a}"),
         ("FAltColon", "${%s:+a}"), ("FLength", "${#%s}"), ("FRemSufS", "${%s%%p}"), ("FRemSufL", "${%s%%%%p}"), ("FRemPreS", "${%s#p}"),
         ("FRemPreL", "${%s##p}"), ("FSubstring", "${%s:1}"), ("FUpper1", "${%s^}"), ("FUpperAll", "${%s^^}"), ("FLower1", "${%s,}"),
         ("FLowerAll", "${%s,,}"), ("FReplace", "${%s/a/b}"), ("FTransformQ", "${%s@Q}"), ("FTransformU", "${%s@U}"),
         # arithmetic contexts: the %s is a variable *name* inside an expression
         ("FArithExp", 'echo "[$(( %s + 1 ))]" >/dev/null'), ("FArithCmd", "(( %s + 1 )); :"), ("FLet", 'let "%s + 1"; :'),
         ("FSubscript", 'echo "[${arr[%s]}]" >/dev/null'), ("FSubstrOff", 'echo "[${s:%s}]" >/dev/null'),
         ("FSubstrLen", 'echo "[${s:0:%s}]" >/dev/null'), ("FArithFor", "for (( i=%s; i<1; i++ )); do :; done"), ("FAssignSub", "arr[%s]=1")]
NPARAM_FORMS = 19
KINDS = [("KNamedUnset", ":", "nv"), ("KPositionalUnset", ":", "3"), ("KIndexUnsetVar", ":", "nv[0]"), ("KIndexUnsetElem", "arr=(a b)", "arr[5]"),
         ("KAllUnsetVar", ":", "nv[@]"), ("KAllEmptyArr", "arr=()", "arr[@]"), ("KSpecialAt", ":", "@"), ("KSpecialStar", ":", "*"),
         ("KDeclared", "declare dv", "dv"), ("KDeclaredInt", "declare -i di", "di"), ("KExported", "export ev", "ev"),
         ("KLocal", "local lv", "lv"), ("KUnsetAfterSet", "uv=1; unset uv", "uv"), ("KDeclaredArr", "declare -a da", "da")]


def nounset_script(fi, ki):
    pre, name = KINDS[ki][1], KINDS[ki][2]
    if fi < NPARAM_FORMS:
        body = 'echo "[%s]" >/dev/null' % (FORMS[fi][1] % name)
    else:
        body = FORMS[fi][1] % name
        pre = "arr=(a b c); s=abc; " + pre
    if KINDS[ki][0] == "KLocal":
        return "set -u; f() { %s; %s; echo ok; }; f" % (pre, body)
    return "set -u; %s; %s; echo ok" % (pre, body)


def nounset(ctx):
    cells = [(fi, ki) for fi in range(len(FORMS)) for ki in range(len(KINDS))]
    tab = [core.dec_line(l) for l in ctx.model("c03_nounset", [[str(fi), str(ki)] for fi, ki in cells])]
    ce = ctx.coq_eval("c03_nounset", [[str(fi), str(ki)] for fi, ki in cells[:40]])
    if [core.dec_line(l) for l in ce] != tab[:40]:
        raise core.CheckBroken("nounset table: extracted runner and vm_compute disagree")
    impl = ctx.impl("sh", [["c", nounset_script(fi, ki)] for fi, ki in cells])
    mism, specv, sb = [], [], {"compared": 0, "agree": 0, "disagree": []}
    for (fi, ki), t, il in zip(cells, tab, impl):
        if len(t) != 4 or t[3] != "1":
            continue
        f = il.split(" ")
        ok = len(f) >= 2 and core.unhx(f[1]) == b"ok\n"
        script = nounset_script(fi, ki)
        if (not ok) != (t[0] == "1"):
            mism.append({"cell": (FORMS[fi][0], KINDS[ki][0]), "script": script, "code_rejects": not ok, "model_rejects": t[0] == "1"})
        b = lib.bash_run(script)
        bash_rej = b["out"] != "ok\n"
        sb["compared"] += 1
        if bash_rej == (t[1] == "1"):
            sb["agree"] += 1
        else:
            sb["disagree"].append({"script": script, "bash_rejects": bash_rej, "spec_rejects": t[1] == "1"})
        if (not ok) != (t[1] == "1") and (not ok) != bash_rej:
            v = {"input": script, "why": "under set -u brush %s this expansion, bash %s it" % (
                "rejects" if not ok else "accepts", "rejects" if bash_rej else "accepts")}
            if t[2] == "1":
                v["known"] = "KF-C03-nounset-let" if FORMS[fi][0] == "FLet" else "KF-C03-nounset-length-array"
            specv.append(v)
    # exit status of the abort
    probe = "set -u; echo $nv; echo ok"
    il = ctx.impl("sh", [["c", probe]])[0].split(" ")
    b = lib.bash_run(probe)
    if il[0] != b["status"]:
        specv.append({"input": probe, "why": "fatal unbound variable: brush status %s, bash %s" % (il[0], b["status"]),
                      "known": "KF-C03-nounset-status"})
    return mism, specv, sb, len(cells)


def bash_quirk(prog):
    ks = sg.kinds(prog)
    return "s" in ks and "!" in ks


def gen_programs(ctx, n):
    progs = []
    for i in range(n):
        r = ctx.rng
        g = sg.Gen(r, opts=True, scoped=r.choice([1.0, 1.0, 1.0, 0.97, 0.9]), maxdepth=r.choice([2, 3, 4, 5]),
                   budget=r.choice([8, 15, 30, 45]), fail_bias=r.choice([0.3, 0.5]), pipes=r.choice([0.0, 0.05, 0.15]))
        p = g.program()
        pre = []
        if r.random() < 0.65:
            pre.append(sg.simple(("s", "e", True)))
        if r.random() < 0.3:
            pre.append(sg.simple(("s", "p", True)))
        if pre:
            p = [pre] + p
        progs.append(p)
    return progs


def run(ctx):
    wit = lib.witnesses()
    progs = [wit["w_compound"]] + gen_programs(ctx, 4000 if ctx.quick else 40000)
    ev = lib.evaluate(ctx, progs, bash_sample=400 if ctx.quick else 40000, tolerate=bash_quirk)
    res = c02.result(ctx, ev, progs, extra_rule="C03: `set -e` / `set -o pipefail` are prepended to 65%/30% of the programs and `set +-e`, "
                     "`set +-o pipefail` leaves occur anywhere (functions, subshells, conditions); failing leaves are frequent. "
                     "nounset: all applicable cells of the (27 forms incl. arithmetic contexts x 14 parameter kinds incl. declared-but-unset names) table are run on brush and bash.")
    # findings of C02 seen on the way are C02's business: only C03 classes and unclassified differences count here
    res["spec_violations"] = [v for v in res["spec_violations"] if not str(v.get("known", "")).startswith("KF-C02-")]
    from props import c03sub
    specv2, st2 = c03sub.run(ctx, 1500 if ctx.quick else 15000)
    res["spec_violations"] += specv2
    res["evaluations"] += st2["programs"]
    res["distribution"]["differential_only_substitution_eval"] = st2
    res["notes"] = ("proof-backed (Coq model + simulation theorem + correspondence): the control-flow/errexit/pipefail fragment incl. "
                    "redirected compounds and assignment-only commands, and the nounset decision table; differential-only (brush vs "
                    "/usr/bin/bash in the verdict, no Coq model): errexit through $(list) in assignments/arguments/local, <(list), eval, "
                    "with shopt inherit_errexit on/off/toggled and set -e inside the substitution, from plain/if/||/&&/!/while/subshell/"
                    "function-in-condition contexts (distribution.differential_only_substitution_eval)")
    mism, specv, sb, ncells = nounset(ctx)
    res["model_mismatches"] += mism
    res["spec_violations"] += specv
    res["evaluations"] += ncells
    res["spec_vs_bash"]["nounset_table"] = sb
    with_e = sum(1 for i in ev["keep"] if "s" in sg.kinds(progs[i]))
    exits = sum(1 for i in ev["keep"] if ev["cf"][i][0].get("flow") == "X")
    res["distribution"]["programs_with_set_leaves"] = with_e
    res["distribution"]["runs_ending_in_exit"] = exits
    res["extraction_crosscheck"] = lib.crosscheck(ctx, progs)
    return res


def search(ctx, res):
    sub = type(ctx)(ctx.pid, ctx.tier, ctx.seed + 1)
    sub.runner, sub.harness, sub.vbrush = ctx.runner, ctx.harness, ctx.vbrush
    progs = gen_programs(sub, 30000)
    ev = lib.evaluate(sub, progs)
    specv = [v for v in ev["specv"] if not v.get("known")] or ev["specv"][:3]
    specv.sort(key=lambda v: len(v["input"]))
    return {"evaluations": ev["evaluated"], "spec_violations": specv[:5]}


def run_code_only(ctx):
    raise core.CheckBroken("the specification oracle is the extracted Coq spec; it did not build")
