"""C03 placeholder (filled below)"""
PID = "C03"
ENTRIES = {"c03_nounset": ("Shell.C03Entry", "entry_c03_nounset")}
