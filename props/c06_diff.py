"""C06, differential part of the verdict: every operator the property lists, code vs /usr/bin/bash, words counted
exactly (`$#` and each word). No Coq model behind these cases (the proof-backed part is props/c06.py's families);
a deviation is a VIOLATION unless it lies in one of the narrow, decidable classes of `known()`.
Not a property module of its own (no PID)."""
import itertools

ENTRIES = {}

# ---------------------------------------------------------------- known classes (all genuine, recorded divergences)
KF_ALT = "KF-C06-replace-leftmost-first"
KF_AMP = "KF-C06-replace-ampersand"
KF_EMPTYPAT = "KF-C06-replace-empty-pattern"
KF_U = "KF-C06-transform-u-every-word"
KF_P = "KF-C06-transform-P-quote"
KF_ARO = "KF-C06-transform-A-attributes"
KF_LIST = "KF-C06-transform-AKka-on-list"
KF_ALTAT = "KF-C06-alt-empty-at"
KF_MULTIE = "KF-C06-multi-empty-null"


def q(s):
    out = []
    for ch in s:
        if ch == "\\":
            out.append("\\\\")
        elif ch == "'":
            out.append("\\'")
        elif ch == "\n":
            out.append("\\n")
        elif ch == "\t":
            out.append("\\t")
        else:
            out.append(ch)
    return "$'" + "".join(out) + "'"


SHOW = 'show() { printf \'%s\\0\' "$#" "$@"; }\nst() { printf \'S%s\\0\' "$(( $1 != 0 ))"; }\n'

VALS = ["", "abc", "aXbXc", "héllo wörld", "a b", "ab\ncd", "AbC dEf", "a/b/c", "x'y", "a:b", "  p  q ", "abab", "a\\tb"]
LISTS = [[], [""], ["a"], ["a b", "c"], ["", ""], ["x", "", "y"], ["hello world", "two", "tab\there"], ["a:b", "c"], ["Ab", "cD", "ef"]]


class Case:
    def __init__(self, fam, script, **meta):
        self.fam, self.script, self.meta = fam, script, meta


def setup(vals, ifs, noglob):
    """x scalar = vals[0] (unset when vals empty); a indexed; m associative with at most one key; positionals"""
    l = []
    if noglob:
        l.append("set -f")
    l.append("x=%s" % q(vals[0]) if vals else "unset x")
    l.append("a=(" + " ".join(q(v) for v in vals) + ")")
    l.append("declare -A m=(" + (("[k]=%s" % q(vals[0])) if vals else "") + ")")
    l.append("set --" + "".join(" " + q(v) for v in vals))
    if ifs is not None:
        l.append("IFS=%s" % q(ifs))
    return "\n".join(l) + "\n"


FORMS = ["x", "a[@]", "a[*]", "a[0]", "a[1]", "@", "*", "1", "m[@]", "m[k]", "a", "m[*]"]
CTXS = ["dq", "bare", "dqaffix", "assign"]
IFSS = [None, None, ":", ""]


def in_ctx(expr, ctx):
    if ctx == "dq":
        return 'show "%s"; st $?\n' % expr
    if ctx == "bare":
        return "show %s; st $?\n" % expr
    if ctx == "dqaffix":
        return 'show "<%s>"; st $?\n' % expr
    return 'y=%s; st $?; show "$y"\n' % expr


REPL_PATS = ["a", "b", "X", "*", "?", "[a-c]", "a*", "*c", "", "l", "ö", " ", "@(a|b)", "+(X)", "*(a|ab)", "@(a|ab)", "b?", "/", "\\/"]
REPL_REPS = [None, "", "Z", "a b", "<&>", "\\&", "$x"]
CASE_PATS = ["", "a", "[a-c]", "?", "*", "é", "[A-Z]", "h"]
RM_PATS = ["a", "*", "a*", "*b", "?", "[a-c]*", "@(a|ab)", "", "* "]
TRANSFORMS = "QULuEAaKkP"
COND_WORDS = ["W", "", "a b", "$x", "\"q r\""]
OFFS = ["0", "1", " -1", "2", "5", "1:1", "0:2", " -2:1", "1:0", "0:-1"]


def op_exprs(rng, form):
    """-> (family, op text, expression text, extra meta)"""
    r = rng.random()
    if r < 0.26:
        kind = rng.choice(["/", "//", "/#", "/%"])
        p, rep = rng.choice(REPL_PATS), rng.choice(REPL_REPS)
        return ("replace", kind, "${%s%s%s%s}" % (form, kind, p, "" if rep is None else "/" + rep), {"pat": p, "rep": rep})
    if r < 0.38:
        op = rng.choice(["^", "^^", ",", ",,"])
        p = rng.choice(CASE_PATS)
        return ("casemod", op, "${%s%s%s}" % (form, op, p), {"pat": p})
    if r < 0.56:
        t = rng.choice(TRANSFORMS)
        return ("transform", "@" + t, "${%s@%s}" % (form, t), {})
    if r < 0.68:
        op = rng.choice(["-", ":-", "+", ":+", "?", ":?"] + (["=", ":="] if form in ("x", "a[0]", "a[1]", "m[k]", "a") else []))
        w = rng.choice(COND_WORDS)
        return ("cond", op, "${%s%s%s}" % (form, op, w), {"word": w})
    if r < 0.80:
        op = rng.choice(["#", "##", "%", "%%"])
        p = rng.choice(RM_PATS)
        return ("remove", op, "${%s%s%s}" % (form, op, p), {"pat": p})
    if r < 0.92:
        o = rng.choice(OFFS)
        return ("substring", ":", "${%s:%s}" % (form, o), {"off": o})
    return ("length", "#", "${#%s}" % form, {})


def gen_ops(ctx, n):
    rng = ctx.rng
    out = []
    for _ in range(n):
        vals = list(rng.choice(LISTS)) if rng.random() < 0.6 else [rng.choice(VALS)] + ([rng.choice(VALS)] if rng.random() < 0.4 else [])
        form = rng.choice(FORMS)
        c = rng.choice(CTXS)
        ifs = rng.choice(IFSS)
        fam, op, expr, meta = op_exprs(rng, form)
        if fam == "substring" and form in ("m[@]", "m[*]"):
            form = "a[@]"; fam, op, expr, meta = ("substring", ":", "${a[@]:%s}" % meta["off"], meta)
        s = SHOW + setup(vals, ifs, c == "bare") + in_ctx(expr, c)
        if op in ("=", ":="):
            s += 'show "${%s-UNSET}"\n' % form
        out.append(Case(fam, s, op=op, form=form, ctx=c, ifs=ifs, vals=vals, expr=expr, **meta))
    return out


def gen_transform_lists(ctx):
    """systematic: every transform x list forms x quoting x IFS, lists of >= 2 words (word counts!)"""
    out = []
    for vals in (["hello world", "two", "tab\there"], ["a b", "c"], ["x"], []):
        for t in TRANSFORMS:
            for form in ("a[@]", "a[*]", "@", "*", "x", "a[1]", "m[@]"):
                for c, ifs in (("dq", None), ("bare", None), ("dq", ":"), ("dqaffix", None), ("assign", None)):
                    if ctx.quick and ctx.rng.random() < 0.45:
                        continue
                    expr = "${%s@%s}" % (form, t)
                    s = SHOW + setup(vals, ifs, c == "bare") + in_ctx(expr, c)
                    if form in ("a[@]", "@") and c == "dq":
                        s += 'u=("%s"); show "${#u[@]}" "${u[1]-}"\nfor w in "%s"; do show W "$w"; done\n' % (expr, expr)
                    out.append(Case("transform", s, op="@" + t, form=form, ctx=c, ifs=ifs, vals=vals, expr=expr))
    return out


def gen_list_ops(ctx):
    """[@] vs [*] x quoted vs unquoted x IFS for every operator (fixed small operands)"""
    out = []
    exprs = [("cond", "-", "-W"), ("cond", ":-", ":-W"), ("cond", "+", "+W"), ("cond", ":+", ":+a b"), ("remove", "#", "#a"), ("remove", "%%", "%%b*"),
             ("remove", "##", "##*"), ("substring", ":", ":1"), ("substring", ":", ":0:1"), ("substring", ":", ": -1"), ("replace", "/", "/a/Z"),
             ("replace", "//", "//b"), ("replace", "/#", "/#a/Q"), ("replace", "/%", "/%c/R"), ("casemod", "^", "^"), ("casemod", "^^", "^^"),
             ("casemod", ",,", ",,[A-Z]"), ("casemod", ",", ","), ("plain", "", "")]
    for vals in (["ab", "bca"], ["a b", "", "c"], ["", ""], [], ["Ab:c", "d"]):
        for form in ("a[@]", "a[*]", "@", "*", "m[@]", "m[*]"):
            for fam, op, tail in exprs:
                for c in ("dq", "bare", "dqaffix", "assign"):
                    for ifs in (None, ":", ""):
                        if ctx.rng.random() < (0.88 if ctx.quick else 0.3):
                            continue
                        if fam == "substring" and form.startswith("m"):
                            continue
                        expr = "${%s%s}" % (form, tail)
                        s = SHOW + setup(vals, ifs, c == "bare") + in_ctx(expr, c)
                        out.append(Case(fam, s, op=op, form=form, ctx=c, ifs=ifs, vals=vals, expr=expr,
                                        pat=tail, rep=None, word=tail[len(op):] if fam == "cond" else None))
    lens = [("length", "#", "${#a[@]}"), ("length", "#", "${#a[*]}"), ("length", "#", "${#@}"), ("length", "#", "${#*}"), ("length", "#", "${#}")]
    for vals in (["ab", "bca"], [], ["", ""]):
        for fam, op, expr in lens:
            out.append(Case(fam, SHOW + setup(vals, None, False) + in_ctx(expr, "dq"), op=op, form=expr, ctx="dq", ifs=None, vals=vals, expr=expr))
    return out


DECLS = [("declare -a v", "a"), ("declare -A v", "A"), ("declare -a v=()", "a"), ("declare -A v=()", "A"), ("v=()", "a"), ("declare v", "s"),
         ("unset v", "n"), ("declare -A v=([z]=1)", "A"), ("declare -a v=([3]=q)", "a"), ("local -A v", "LA"), ("local -a v", "La"), ("local v", "Ls")]
WRITERS = ['${v[%(k)s]:=%(w)s}', '${v[%(k)s]=%(w)s}', "printf -v 'v[%(k)s]' %%s %(w)s", "v[%(k)s]=%(w)s", "v+=([%(k)s]=%(w)s)",
           "read -r 'v[%(k)s]' <<< %(w)s", "(( v[%(k)s] = 7 ))", "${v:=%(w)s}", "${v[@]:-D}", "${v[%(k)s]:-D}", "${v[%(k)s]:+D}", "${v[%(k)s]:?}"]
READERS = ['show "${!v[@]}"', 'show "${#v[@]}"', 'show "${v[host]-U}" "${v[0]-U}" "${v[1]-U}" "${v[2]-U}"', 'show "${v[@]}"',
           'show "${v[*]@Q}"', 'show "${v@a}"', 'show "${!v[*]}"']
PROBE = 'show "${#v[@]}" "${v[host]-U}" "${v[port]-U}" "${v[0]-U}" "${v[1]-U}" "${v[2]-U}"'


def gen_states(ctx):
    """declared-but-unset / empty array states x writers x key readers, several operations in one shell; local -A/-a in a function"""
    out = []
    for (decl, kind) in DECLS:
        for wi, wt in enumerate(WRITERS):
            for k in ("host", "1", "a b" if kind in ("A", "LA") else "2"):
                if ctx.quick and ctx.rng.random() < 0.35:
                    continue
                if kind not in ("A", "LA") and not k.isdigit() and wi in (2, 4, 5, 6):
                    pass
                kq = '"%s"' % k if " " in k else k
                w = wt % {"k": kq, "w": "localhost"}
                if w.startswith("${"):
                    line = 'show "%s"; st $?' % w
                else:
                    line = "%s; st $?" % w
                if k == "a b" and kind not in ("A", "LA"):
                    continue
                one_key = "=(" not in decl or decl.endswith("=()")
                body = decl + "\n" + line + "\n" + ("\n".join(READERS[:4]) if one_key else PROBE) + "\n"
                second = (WRITERS[0] % {"k": "port", "w": "80"})
                body += ': "%s"; st $?\n' % second + PROBE + "\n"
                if kind.startswith("L"):
                    s = SHOW + "f() {\n" + body + "}\nf\n"
                else:
                    s = SHOW + body
                out.append(Case("state", s, decl=decl, kind=kind, writer=wt, key=k))
    # readers on the bare states
    for (decl, kind) in DECLS:
        body = decl + "\n" + "\n".join(r + "; st $?" for r in READERS) + "\n"
        s = SHOW + ("f() {\n" + body + "}\nf\n" if kind.startswith("L") else body)
        out.append(Case("state", s, decl=decl, kind=kind, writer=None, key=None))
    return out


def gen_indirect(ctx):
    out = []
    sts = ["y=abc; r=y", "y=(a b); r='y[1]'", "y=(a b); r='y[@]'", "y=(a b); r='y[*]'", "r=nope", "unset r", "r=1; set -- p q", "r='#'; set -- p q",
           "r='@'; set -- p q", "declare -A y=([k]=v); r='y[k]'", "y=; r=y", "y='a b'; r=y", "r=r2; r2=y; y=deep"]
    exprs = ["${!r}", "${!r:-D}", "${!r:+A}", "${!r#a}", "${!r%b}", "${!r:1}", "${!r:0:1}", "${!r@Q}", "${!r@U}", "${!r/a/Z}", "${!r^^}", "${#r}", "${!r-D}"]
    for st_ in sts:
        for e in exprs:
            for c in ("dq", "bare"):
                if ctx.quick and ctx.rng.random() < 0.4:
                    continue
                out.append(Case("indirect", SHOW + st_ + "\n" + in_ctx(e, c), st=st_, expr=e, ctx=c))
    for st_ in ["ab1=1 ab2=2 abc=3", "unset ab", "ab=(1 2); declare -A abz=([k]=v)", "f() { local abl=1; show \"${!ab@}\"; }; ab0=0; f"]:
        for e in ["${!ab@}", "${!ab*}", "${!zz@}", "${!zz*}"]:
            for c, ifs in (("dq", None), ("bare", None), ("dq", ":"), ("dqaffix", None)):
                out.append(Case("prefix-names", SHOW + st_ + "\n" + ("IFS=: \n" if ifs else "") + in_ctx(e, c), st=st_, expr=e, ctx=c))
    for st_ in ["k=(p q r)", "k=([2]=x [5]=y)", "declare -A k=([one]=v)", "k=s", "unset k", "declare -a k", "declare -A k", "k=()"]:
        for e in ["${!k[@]}", "${!k[*]}", "${#k[@]}", "${!k}"]:
            for c, ifs in (("dq", None), ("bare", None), ("dq", ":"), ("dqaffix", None), ("assign", None)):
                out.append(Case("keys", SHOW + st_ + "\n" + ("IFS=: \n" if ifs else "") + in_ctx(e, c), st=st_, expr=e, ctx=c))
    return out


def excluded(c):
    """not compared: bash itself is erratic or the result is not a function of the input"""
    m = c.meta
    if m.get("op") == "@P" and any("\\" in v for v in m.get("vals", [])):
        return True     # prompt escapes (\t = time of day)
    if m.get("ctx") == "bare" and m.get("ifs") == "" and m.get("form") in LISTFORMS:
        return True     # bash 5.2 with an empty IFS joins unquoted ${a[@]op} into one word / emits \001: not followed
    return False


def generate(ctx):
    cases = gen_ops(ctx, 1500 if ctx.quick else 12000) + gen_transform_lists(ctx) + gen_list_ops(ctx) + gen_states(ctx) + gen_indirect(ctx)
    return [c for c in cases if not excluded(c)]


# ---------------------------------------------------------------- classes

import re
LISTFORMS = ("a[@]", "a[*]", "@", "*", "m[@]", "m[*]")
STARFORMS = ("a[*]", "*", "m[*]")
ATFORMS = ("a[@]", "@", "m[@]")
KF_STARIFS = "KF-C06-star-empty-ifs"
KF_ATASSIGN = "KF-C06-at-in-assignment-ifs"
KF_INDAT = "KF-C06-indirect-at-substring"
KF_ASSOCNULL = "KF-C06-list-null-in-assignment"
KF_REPLUNSET = "KF-C06-replace-on-unset"


def is_unset(m):
    f, vals = m.get("form"), m.get("vals", [])
    if f in ("x", "a", "a[0]", "1", "m[k]"):
        return len(vals) == 0
    if f == "a[1]":
        return len(vals) < 2
    return False
KF_NONWSIFS = "KF-C06-unquoted-list-nonws-ifs-empty-word"
NOZERO = ("k=([2]=x [5]=y)", "declare -A k=([one]=v)", "unset k", "declare -a k", "declare -A k", "k=()")
KF_INDEMPTY = "KF-C06-indirect-empty-name"
KF_READ = "KF-C06-read-array-element"
KF_ARITHKEY = "KF-C06-arith-assoc-key"


def nwords(m):
    f = m.get("form")
    vals = m.get("vals", [])
    if f in ("a[@]", "a[*]", "@", "*"):
        return len(vals)
    if f in ("m[@]", "m[*]"):
        return 1 if vals else 0
    return 1


def known(c, code, bash):
    """narrow classes of recorded divergences, decided from the case alone"""
    m = c.meta
    fam = c.fam
    form, ifs, op = m.get("form"), m.get("ifs"), m.get("op")
    if fam == "transform":
        t = op[1]
        if t in "AKka" and form in LISTFORMS:
            return KF_LIST
        if t == "u" and any(re.search(r"\s\S", v) for v in m["vals"]):
            return KF_U
        if t == "P" and any("'" in v or '"' in v for v in m["vals"]):
            return KF_P
    if fam == "replace":
        pat, rep = m.get("pat"), m.get("rep")
        if rep is not None and re.search(r"(?<!\\)&", rep):
            return KF_AMP
        if pat in ("", "/") or (pat or "").startswith("/"):
            return KF_EMPTYPAT
        if pat in ("*(a|ab)", "@(a|ab)"):
            return KF_ALT
    if fam == "cond" and op in ("+", ":+") and form in ATFORMS and nwords(m) == 0 and m.get("ctx") in ("dq", "dqaffix"):
        return KF_ALTAT
    if fam == "cond" and op.startswith(":") and form in LISTFORMS and nwords(m) >= 2 and all(v == "" for v in m["vals"]):
        return KF_MULTIE
    if form in STARFORMS and ifs == "" and fam != "length" and (nwords(m) >= 2 or (fam == "cond" and nwords(m) >= 1)
                                                                 or (fam == "substring" and form == "*" and nwords(m) >= 1)):
        return KF_STARIFS
    if form in ("a[@]", "@") and m.get("ctx") == "assign" and ifs in (":", "") and nwords(m) >= 2:
        return KF_ATASSIGN
    if m.get("ctx") == "bare" and ifs == ":" and (b"\0\0" in bash[0] or bash[0].startswith(b"0\0") is False and any(v == "" for v in m.get("vals", []))):
        return KF_NONWSIFS
    if fam == "indirect" and "r='@'" in m.get("st", "") and re.match(r"\$\{!r:\d", m.get("expr", "")):
        return KF_INDAT
    if fam == "cond" and form in LISTFORMS and m.get("ctx") == "assign" and op.startswith(":") and nwords(m) == 1 and m["vals"][0] == "":
        return KF_ASSOCNULL
    if fam == "replace" and is_unset(m) and ((m.get("pat") or "") == "*" or (m.get("pat") or "").startswith("*(")):
        return KF_REPLUNSET
    if fam == "keys" and m.get("expr") == "${!k}" and m.get("st") in NOZERO:
        return KF_INDEMPTY
    if fam == "state":
        w = m.get("writer") or ""
        if w.startswith("read "):
            return KF_READ
        if w.startswith("((") and m.get("kind") in ("A", "LA") and not (m.get("key") or "0").isdigit():
            return KF_ARITHKEY
    return None


def evaluate(ctx, run_code, run_raw_bash):
    """-> (cases, spec_violations, stats): code vs bash on whole scripts, stdout byte-exact + failed/succeeded"""
    cases = generate(ctx)
    code = run_code([c.script for c in cases])
    bash = run_raw_bash([c.script for c in cases])
    viol, by = [], {}
    skipped = 0
    for c, a, b in zip(cases, code, bash):
        d = by.setdefault(c.fam, {"cases": 0, "differ": 0, "known": {}})
        d["cases"] += 1
        if b"\x01" in b[0] or b[0] == b"TIMEOUT":
            skipped += 1          # bash emitted its internal CTLESC byte (bash bug) or timed out: not comparable
            continue
        if a != b:
            d["differ"] += 1
            k = known(c, a, b)
            d["known"][k or "UNKNOWN"] = d["known"].get(k or "UNKNOWN", 0) + 1
            v = {"input": {"family": "diff:" + c.fam, "script": "shopt -s extglob\n" + c.script},
                 "why": "differs from bash (no model for this operator/context): code stdout %r failed=%s, bash stdout %r failed=%s"
                        % (a[0][:300], a[1], b[0][:300], b[1])}
            if k:
                v["known"] = k
            viol.append(v)
    return cases, viol, {"cases": len(cases), "not_comparable": skipped, "by_family": by}
