"""Shared by C02/C03: programs of the control-flow fragment (python tuples mirroring
coq/theories/Shell/Syntax.v), their rendering as shell text, their wire encoding (Shell/Codec.v)
and a typed random generator.

cmd     ::= ("m",k) | ("t",) | ("f",) | ("p",) | ("b",n) | ("c",n) | ("r",n|None) | ("x",n|None)
          | ("s",opt,on) | ("l",f) | ("k",v,lim) | ("{",clist) | ("(",clist)
          | ("i",cond,then,[(cond|None, body)...]) | ("w",is_until,cond,body) | ("o",arith,n,body)
          | ("a",[(matches,post,body|None)...]) | ("d",f,cmd)
          | ("v",n|None)   assignment-only command: v=1 / v=$(exit n)
          | (">",k,cmd)    compound command with a redirection (k: 0 `< /dev/null`, 1 `2>/dev/null`, 2 `2>&1`, 3 `<<<x`)
clist   ::= [andor...] ; andor ::= (pipeline, [(is_and, pipeline)...]) ; pipeline ::= (bang, [cmd...])
program ::= [clist...]   (complete commands, one per line)"""

NCTR = 6   # counters c0..c5 initialised by the prelude line


# ------------------------------------------------------------------ helpers to build programs
def pl(*cmds, bang=False):
    return (bang, list(cmds))


def ao(first, *rest):
    return (first, list(rest))


def simple(c, bang=False):
    """andor consisting of one single-command pipeline"""
    return ao(pl(c, bang=bang))


def seq(*cmds):
    """compound list of single-command and-or lists"""
    return [simple(c) for c in cmds]


def st(n):
    """a command with exit status n and no output"""
    if n == 0:
        return ("t",)
    if n == 1:
        return ("f",)
    return ("(", seq(("x", n)))


# ------------------------------------------------------------------ rendering
class Render:
    def __init__(self):
        self.nfor = 0

    def leaf(self, c):
        k = c[0]
        if k == "m":
            return "echo m%d" % c[1]
        if k == "t":
            return "true"
        if k == "f":
            return "false"
        if k == "p":
            return 'echo "?=$?"'
        if k in ("b", "c"):
            w = "break" if k == "b" else "continue"
            return w if c[1] == 1 else "%s %d" % (w, c[1])
        if k in ("r", "x"):
            w = "return" if k == "r" else "exit"
            if c[1] is None:
                return w
            # `return -2` without `--` is rejected by brush's option parser (finding KF-C02-return-negative-needs-dashes)
            return "%s -- %d" % (w, c[1]) if c[1] < 0 else "%s %d" % (w, c[1])
        if k == "s":
            o = {"e": "e", "u": "u", "p": "o pipefail"}[c[1]]
            return "set %s%s" % ("-" if c[2] else "+", o)
        if k == "l":
            return "f%d" % c[1]
        if k == "v":
            if c[1] is None:
                return "v=1"
            return "v=$(%s)" % ({0: "true", 1: "false"}.get(c[1], "exit %d" % c[1]))
        raise ValueError(c)

    def cmd(self, c):
        k = c[0]
        if k == "k":
            return "(( c%d++ < %d ))" % (c[1], c[2])
        if k == "{":
            return "{ %s; }" % self.clist(c[1])
        if k == "(":
            body = self.clist(c[1])
            # brush's parser rejects a subshell whose last, unterminated list item contains a `case` command
            # (`( case x in x) a ;; esac )`, `( case ... esac | cat )`, `( ! case ... esac )`: finding KF-C02-esac-rparen)
            # and reads `( ( x ) )` as an arithmetic command (KF-C02-nested-subshell). A `;` before the closing
            # parenthesis is equivalent and accepted, so every body that mentions `esac` gets one.
            semi = "esac" in body or (body.startswith("(") and body.endswith(")"))
            return "( %s%s )" % (body, ";" if semi else "")
        if k == "i":
            s = "if %s; then %s; " % (self.clist(c[1]), self.clist(c[2]))
            for ec, eb in c[3]:
                if ec is None:
                    s += "else %s; " % self.clist(eb)
                else:
                    s += "elif %s; then %s; " % (self.clist(ec), self.clist(eb))
            return s + "fi"
        if k == "w":
            return "%s %s; do %s; done" % ("until" if c[1] else "while", self.clist(c[2]), self.clist(c[3]))
        if k == "o":
            self.nfor += 1
            if c[1]:
                v = "i%d" % self.nfor
                return "for (( %s=0; %s<%d; %s++ )); do %s; done" % (v, v, c[2], v, self.clist(c[3]))
            return "for v%d in%s; do %s; done" % (self.nfor, "".join(" %d" % (i + 1) for i in range(c[2])), self.clist(c[3]))
        if k == "a":
            s = "case x in "
            for m, post, body in c[1]:
                s += "%s) %s %s " % ("x" if m else "y", self.clist(body) if body is not None else "",
                                     {0: ";;", 1: ";&", 2: ";;&"}[post])
            return s + "esac"
        if k == "d":
            return "f%d() %s" % (c[1], self.cmd(c[2]))
        if k == ">":
            return "%s %s" % (self.cmd(c[2]), ["< /dev/null", "2>/dev/null", "2>&1", "<<<x"][c[1]])
        return self.leaf(c)

    def pipeline(self, p):
        return ("! " if p[0] else "") + " | ".join(self.cmd(c) for c in p[1])

    def andor(self, a):
        s = self.pipeline(a[0])
        for is_and, p in a[1]:
            s += (" && " if is_and else " || ") + self.pipeline(p)
        return s

    def clist(self, l):
        return "; ".join(self.andor(a) for a in l)


def render(prog):
    r = Render()
    prelude = " ".join("c%d=0" % i for i in range(NCTR))
    return prelude + "\n" + "\n".join(r.clist(cl) for cl in prog) + "\n"


# ------------------------------------------------------------------ wire encoding (Shell/Codec.v)
def enc_cmd(c, o):
    k = c[0]
    if k in ("t", "f", "p"):
        o.append(k)
    elif k in ("m", "b", "c", "l"):
        o += [k, str(c[1])]
    elif k in ("r", "x"):
        if c[1] is None:
            o.append(k.upper())
        else:
            o += [k, str(c[1])]
    elif k == "s":
        o += ["s", c[1], "1" if c[2] else "0"]
    elif k == "k":
        o += ["k", str(c[1]), str(c[2])]
    elif k in ("{", "("):
        o.append(k)
        enc_clist(c[1], o)
    elif k == "i":
        o.append("i")
        enc_clist(c[1], o)
        enc_clist(c[2], o)
        o.append(str(len(c[3])))
        for ec, eb in c[3]:
            if ec is None:
                o.append("0")
            else:
                o.append("1")
                enc_clist(ec, o)
            enc_clist(eb, o)
    elif k == "w":
        o += ["w", "1" if c[1] else "0"]
        enc_clist(c[2], o)
        enc_clist(c[3], o)
    elif k == "o":
        o += ["o", "1" if c[1] else "0", str(c[2])]
        enc_clist(c[3], o)
    elif k == "a":
        o += ["a", str(len(c[1]))]
        for m, post, body in c[1]:
            o += ["1" if m else "0", str(post)]
            if body is None:
                o.append("0")
            else:
                o.append("1")
                enc_clist(body, o)
    elif k == "d":
        o += ["d", str(c[1])]
        enc_cmd(c[2], o)
    elif k == "v":
        if c[1] is None:
            o.append("V")
        else:
            o += ["v", str(c[1])]
    elif k == ">":
        o += [">", str(c[1])]
        enc_cmd(c[2], o)
    else:
        raise ValueError(c)


def enc_pipeline(p, o):
    o += ["1" if p[0] else "0", str(len(p[1]))]
    for c in p[1]:
        enc_cmd(c, o)


def enc_andor(a, o):
    enc_pipeline(a[0], o)
    o.append(str(len(a[1])))
    for is_and, p in a[1]:
        o.append("1" if is_and else "0")
        enc_pipeline(p, o)


def enc_clist(l, o):
    o.append(str(len(l)))
    for a in l:
        enc_andor(a, o)


def encode(prog):
    o = [str(len(prog))]
    for cl in prog:
        enc_clist(cl, o)
    return o


# ------------------------------------------------------------------ statistics
def walk(prog, f):
    def wc(c):
        f(c)
        k = c[0]
        if k in ("{", "("):
            wl(c[1])
        elif k == "i":
            wl(c[1]); wl(c[2])
            for ec, eb in c[3]:
                if ec is not None:
                    wl(ec)
                wl(eb)
        elif k == "w":
            wl(c[2]); wl(c[3])
        elif k == "o":
            wl(c[3])
        elif k == "a":
            for _, _, b in c[1]:
                if b is not None:
                    wl(b)
        elif k in ("d", ">"):
            wc(c[2])

    def wp(p):
        if p[0]:
            f(("!",))
        if len(p[1]) > 1:
            f(("|",))
        for c in p[1]:
            wc(c)

    def wl(l):
        for a in l:
            wp(a[0])
            for is_and, p in a[1]:
                f(("&&",) if is_and else ("||",))
                wp(p)
    for cl in prog:
        wl(cl)


def kinds(prog):
    ks = {}

    def f(c):
        ks[c[0]] = ks.get(c[0], 0) + 1
    walk(prog, f)
    return ks


# ------------------------------------------------------------------ generator
class Ctx:
    """generation context: d = remaining depth, loops = enclosing loops in this scope, fn = inside a function
    body, silent = no output allowed, indef = inside a function definition (no arithmetic for),
    cl = loops entered since the innermost enclosing loop condition (None when not inside a condition)"""
    __slots__ = ("d", "loops", "fn", "silent", "indef", "cl")

    def __init__(self, d, loops=0, fn=False, silent=False, indef=False, cl=None):
        self.d, self.loops, self.fn, self.silent, self.indef, self.cl = d, loops, fn, silent, indef, cl

    def sub(self, **kw):
        c = Ctx(self.d - 1, self.loops, self.fn, self.silent, self.indef, self.cl)
        for k, v in kw.items():
            setattr(c, k, v)
        return c


class Gen:
    """Typed random generator.  `opts`: whether `set` leaves are produced (C03);
    `scoped`: probability that a break/continue is generated inside the scope rules
    (1 <= count <= enclosing loops, no continue that targets a loop from its own condition);
    `pipes`: probability that a pipeline has several stages."""

    def __init__(self, rng, opts=False, scoped=0.9, maxdepth=4, budget=30, fail_bias=0.3, pipes=0.03):
        self.rng = rng
        self.opts = opts
        self.scoped = scoped
        self.maxdepth = maxdepth
        self.budget = budget
        self.fail_bias = fail_bias
        self.pipes = pipes
        self.nmark = 0

    def mark(self):
        self.nmark += 1
        return ("m", self.nmark)

    def leaf(self, ctx):
        r = self.rng
        x = r.random()
        if x < 0.30:
            return ("p",) if not ctx.silent and r.random() < 0.5 else (self.mark() if not ctx.silent else st(r.choice([0, 1])))
        if x < 0.50:
            return st(r.choice([0, 1, 1, 1, 3, 7]) if r.random() < self.fail_bias + 0.4 else 0)
        if x < 0.62:
            k = "b" if r.random() < 0.55 else "c"
            if r.random() < self.scoped:
                hi = ctx.loops if (k == "b" or ctx.cl is None) else min(ctx.loops, ctx.cl)
                if hi <= 0:
                    if k == "c" and ctx.loops > 0:
                        return ("b", r.randint(1, ctx.loops))
                    return st(r.choice([0, 1]))
                return (k, r.randint(1, hi))
            return (k, r.choice([0, 1, 1, 2, 3, 5, 127, 128, 200, 99999]))
        if x < 0.70:
            if ctx.fn or r.random() < 0.15:
                return ("r", r.choice([None, 0, 1, 3, 5, 5, 255, 256, 257, 300, 512, -1, -2, -256, 65536 + 7, 2147483647]))
            return st(1)
        if x < 0.75:
            return ("x", r.choice([None, 0, 1, 4, 4, 255, 256, 300, -1, -2, 1000]))
        if x < 0.85:
            return ("l", r.randrange(0, 3)) if not ctx.silent else st(r.choice([0, 1]))
        if x < 0.93 and self.opts:
            if r.random() < 0.3:
                return ("v", r.choice([None, 0, 1, 1, 3]))
            return ("s", r.choice(["e", "e", "e", "p", "p"]), r.random() < 0.7)
        return ("k", r.randrange(0, NCTR), r.randint(0, 3))

    def cond(self, ctx, until=False):
        """a loop condition that lets the loop end; ctx is the context inside the loop"""
        r = self.rng
        tick = ("k", r.randrange(0, NCTR), r.randint(0, 3))
        inner = ctx.sub(cl=0)
        inner.d = ctx.d
        x = r.random()
        if x < 0.55:
            l = [ao(pl(tick, bang=until))]
        elif x < 0.75:
            l = self.clist(inner, maxlen=2) + [ao(pl(tick, bang=until))]
        elif x < 0.9:
            l = [ao(pl(tick, bang=until), (r.random() < 0.7, self.pipeline(inner)))]
        else:
            l = self.clist(inner, maxlen=2)
        return l

    def cmd(self, ctx):
        r = self.rng
        self.budget -= 1
        if ctx.d <= 0 or self.budget <= 0 or r.random() < 0.35:
            return self.leaf(ctx)
        sub = ctx.sub()
        x = r.random()
        if x < 0.12:
            return ("{", self.clist(sub))
        if x < 0.24:
            return ("(", self.clist(ctx.sub(loops=0, cl=None)))
        if x < 0.42:
            elses = []
            for _ in range(r.choice([0, 0, 1, 1, 2])):
                elses.append((self.clist(sub, maxlen=2), self.clist(sub)))
            if r.random() < 0.5:
                elses.append((None, self.clist(sub)))
            return ("i", self.clist(sub, maxlen=2), self.clist(sub), elses)
        if x < 0.60:
            u = r.random() < 0.4
            inner = ctx.sub(loops=ctx.loops + 1, cl=None if ctx.cl is None else ctx.cl + 1)
            return ("w", u, self.cond(inner, until=u), self.clist(inner))
        if x < 0.76:
            inner = ctx.sub(loops=ctx.loops + 1, cl=None if ctx.cl is None else ctx.cl + 1)
            return ("o", (not ctx.indef) and r.random() < 0.35, r.choice([0, 1, 2, 2, 3]), self.clist(inner))
        if x < 0.88:
            if r.random() < 0.4:
                return ("a", self.case_chain(sub))
            arms = []
            for _ in range(r.randint(1, 4)):
                arms.append((r.random() < 0.6, r.choice([0, 0, 1, 2]), None if r.random() < 0.08 else self.clist(sub, maxlen=2)))
            return ("a", arms)
        f = r.randrange(0, 3)
        inner = ctx.sub(loops=0, fn=True, indef=True, cl=None)
        return ("d", f, ("{" if r.random() < 0.8 else "(", self.clist(inner)))

    def case_chain(self, ctx):
        """terminator chains: an item ending in `;&` falls into the next one, `;;&` resumes pattern matching, so a later
        item whose pattern does not match must be skipped; every item leaves a marker (or a probe) and a status"""
        r = self.rng

        def body():
            if ctx.silent:
                return [simple(st(r.choice([0, 1, 3])))]
            l = [simple(self.mark())]
            if r.random() < 0.5:
                l.append(simple(("p",)))
            if r.random() < 0.4:
                l.append(simple(st(r.choice([0, 1, 3]))))
            return l
        arms = []
        if r.random() < 0.3:
            arms.append((False, r.choice([0, 1, 2]), body()))
        arms.append((True, 1, body()))                            # x) ... ;&
        arms.append((r.random() < 0.5, 2, body()))                # falls in here; ;;& resumes matching
        arms.append((False, r.choice([0, 1, 2]), body()))         # must not run
        for _ in range(r.randint(0, 2)):
            arms.append((r.random() < 0.5, r.choice([0, 0, 1, 2]), body()))
        return arms

    def assign_ctx(self, ctx):
        """and-or lists / short sequences in which `$?` already equals the status of the command substitution of an
        assignment-only command when that command runs (after an exempt failure)"""
        r = self.rng
        n = r.choice([1, 1, 1, 3])
        tail = [] if ctx.silent else [simple(("p",))]
        x = r.random()
        if x < 0.4:
            return [ao(pl(st(n)), (False, pl(("v", n))))] + tail              # (exit n) || v=$(exit n)
        if x < 0.6:
            return [simple(("t",), bang=True), simple(("v", 1))] + tail       # ! true; v=$(false)
        if x < 0.8:
            return [ao(pl(st(n)), (True, pl(("t",)))), simple(("v", n))] + tail   # (exit n) && true; v=$(exit n)
        return [simple(("i", [simple(st(n))], [simple(("t",))], [(None, [simple(("v", n))])]))] + tail   # if (exit n); ... else v=$(exit n)

    def maybe_redirect(self, c):
        """attach a redirection to a compound command"""
        r = self.rng
        if self.opts and c[0] in ("{", "(", "i", "w", "o", "a", "k") and r.random() < 0.25:
            return (">", r.choice([0, 1, 3]), c)     # 2>&1 would put error messages on stdout
        return c

    def pipeline(self, ctx):
        r = self.rng
        bang = r.random() < 0.12
        if r.random() < self.pipes and ctx.d > 0:
            n = r.choice([2, 2, 3])
            stages = []
            for i in range(n):
                lastst = i == n - 1
                stages.append(self.cmd(ctx.sub(loops=0, cl=None, silent=ctx.silent or not lastst)))
            return (bang, stages)
        return (bang, [self.maybe_redirect(self.cmd(ctx))])

    def andor(self, ctx):
        r = self.rng
        first = self.pipeline(ctx)
        rest = []
        if r.random() < 0.25:
            for _ in range(r.choice([1, 1, 2, 3])):
                rest.append((r.random() < 0.5, self.pipeline(ctx)))
        return (first, rest)

    def clist(self, ctx, maxlen=4):
        r = self.rng
        n = r.randint(1, maxlen)
        out = []
        for _ in range(n):
            if self.opts and r.random() < 0.08:
                out += self.assign_ctx(ctx)
                continue
            out.append(self.andor(ctx))
            if not ctx.silent and r.random() < 0.45:
                out.append(simple(("p",)))
        return out

    def program(self):
        r = self.rng
        prog = []
        for _ in range(r.randint(1, 3)):
            prog.append(self.clist(Ctx(self.maxdepth)))
        prog.append([simple(("p",))])
        return prog


# ------------------------------------------------------------------ shrinking (delta debugging on the tree)
def _cl_variants(l):
    """smaller variants of a compound list"""
    for i in range(len(l)):
        if len(l) > 1:
            yield l[:i] + l[i + 1:]
    for i, a in enumerate(l):
        for a2 in _ao_variants(a):
            yield l[:i] + [a2] + l[i + 1:]


def _ao_variants(a):
    first, rest = a
    if rest:
        yield (first, rest[:-1])
        yield (rest[0][1], rest[1:])
    for p2 in _pl_variants(first):
        yield (p2, rest)
    for i, (isand, p) in enumerate(rest):
        for p2 in _pl_variants(p):
            yield (first, rest[:i] + [(isand, p2)] + rest[i + 1:])


def _pl_variants(p):
    bang, cs = p
    if bang:
        yield (False, cs)
    if len(cs) > 1:
        for i in range(len(cs)):
            yield (bang, cs[:i] + cs[i + 1:])
    for i, c in enumerate(cs):
        for c2 in _cmd_variants(c):
            yield (bang, cs[:i] + [c2] + cs[i + 1:])


def _first_cmds(l):
    for a in l:
        for p in [a[0]] + [q for _, q in a[1]]:
            for c in p[1]:
                yield c


def _cmd_variants(c):
    k = c[0]
    subs = []
    if k == ">":
        yield from _cmd_variants_redir(c)
        return
    if k in ("{", "("):
        subs = [c[1]]
    elif k == "i":
        subs = [c[1], c[2]] + [x for e in c[3] for x in e if x is not None]
    elif k == "w":
        subs = [c[2], c[3]]
    elif k == "o":
        subs = [c[3]]
    elif k == "a":
        subs = [b for _, _, b in c[1] if b is not None]
    for l in subs:
        for cc in _first_cmds(l):
            yield cc
    if k not in ("t", "f", "d") and k != "m":
        yield ("t",)
    if k in ("{", "("):
        for l2 in _cl_variants(c[1]):
            yield (k, l2)
    elif k == "i":
        if c[3]:
            yield ("i", c[1], c[2], c[3][:-1])
            yield ("i", c[1], c[2], c[3][1:])
        for l2 in _cl_variants(c[1]):
            yield ("i", l2, c[2], c[3])
        for l2 in _cl_variants(c[2]):
            yield ("i", c[1], l2, c[3])
        for i, (ec, eb) in enumerate(c[3]):
            if ec is not None:
                for l2 in _cl_variants(ec):
                    yield ("i", c[1], c[2], c[3][:i] + [(l2, eb)] + c[3][i + 1:])
            for l2 in _cl_variants(eb):
                yield ("i", c[1], c[2], c[3][:i] + [(ec, l2)] + c[3][i + 1:])
    elif k == "w":
        for l2 in _cl_variants(c[2]):
            yield ("w", c[1], l2, c[3])
        for l2 in _cl_variants(c[3]):
            yield ("w", c[1], c[2], l2)
    elif k == "o":
        if c[2] > 0:
            yield ("o", c[1], c[2] - 1, c[3])
        if c[1]:
            yield ("o", False, c[2], c[3])
        for l2 in _cl_variants(c[3]):
            yield ("o", c[1], c[2], l2)
    elif k == "a":
        arms = c[1]
        if len(arms) > 1:
            for i in range(len(arms)):
                yield ("a", arms[:i] + arms[i + 1:])
        for i, (m, post, b) in enumerate(arms):
            if post != 0:
                yield ("a", arms[:i] + [(m, 0, b)] + arms[i + 1:])
            if b is not None:
                for l2 in _cl_variants(b):
                    yield ("a", arms[:i] + [(m, post, l2)] + arms[i + 1:])
    elif k == "d":
        for c2 in _cmd_variants(c[2]):
            if c2[0] in ("{", "("):
                yield ("d", c[1], c2)
    elif k in ("b", "c") and c[1] > 1:
        yield (k, c[1] - 1)


def _cmd_variants_redir(c):
    out = [c[2]]
    for c2 in _cmd_variants(c[2]):
        if c2[0] in ("{", "(", "i", "w", "o", "a", "k"):
            out.append((">", c[1], c2))
        else:
            out.append(c2)
    return out


def prog_variants(prog):
    if len(prog) > 1:
        for i in range(len(prog)):
            yield prog[:i] + prog[i + 1:]
    for i, cl in enumerate(prog):
        for l2 in _cl_variants(cl):
            yield prog[:i] + [l2] + prog[i + 1:]


def size(prog):
    n = [0]
    walk(prog, lambda c: n.__setitem__(0, n[0] + 1))
    return n[0]


def shrink(prog, still_fails, max_steps=400):
    """greedy tree reduction: `still_fails(list_of_programs) -> list of bool` is evaluated in batches"""
    steps = 0
    while steps < max_steps:
        vs = [v for v in prog_variants(prog)]
        if not vs:
            break
        vs.sort(key=size)
        vs = vs[:48]
        res = still_fails(vs)
        steps += 1
        nxt = None
        for v, bad in zip(vs, res):
            if bad:
                nxt = v
                break
        if nxt is None:
            break
        prog = nxt
    return prog
