"""C06 — parameter-expansion operators compute bash's result; prefix/suffix removal deletes the
shortest/longest matching prefix/suffix, the empty one included."""
import itertools, os, subprocess
from concurrent.futures import ThreadPoolExecutor
from vlib import core

PID = "C06"
ENTRIES = {
    "c06cond": ("ParamExp.Entry", "entry_cond"),
    "c06len": ("ParamExp.Entry", "entry_len"),
    "c06sub": ("ParamExp.Entry", "entry_sub"),
    "c06rm": ("ParamExp.Entry", "entry_rm"),
    "c06keys": ("ParamExp.Entry", "entry_keys"),
    "c06subev": ("ParamExp.Entry", "entry_subev"),
}
TRUSTED = [
    "modelled, not verified: brush-core/src/expansion.rs expand_parameter_expr (UseDefault/AssignDefault/IndicateError/"
    "UseAlternative arms, ParameterLength, Substring, the four Remove* arms via transform_expansion), Expansion::{classify,"
    "polymorphic_len,polymorphic_subslice}, expand_parameter_without_indirect, process_double_quoted_pieces (one piece, default IFS); "
    "brush-core/src/patterns.rs remove_{smallest,largest}_matching_{prefix,suffix}; variables.rs get_at/element_values",
    "oracles (inputs of the model): the matcher of the compiled pattern (Pattern::exactly_matches of the code, given to the model as "
    "a table over all prefixes and suffixes of the value; C08 owns the matcher), values of arithmetic operands (computed by the "
    "generator; C07), the expansion of the operand word (literal words only)",
    "spec validation: ParamExp/ParamSpec.v is compared with /usr/bin/bash 5.2.15 (LC_ALL=C.UTF-8) on every generated case (spec_vs_bash)",
    "translator/ex_c06_paramops.py: regenerates the ordered operator literals of word.rs parameter_expression / "
    "non_posix_parameter_expression (shape-checked, fail-closed) into gen/C06ParamOps.v",
    "differential only (code vs /usr/bin/bash, part of the verdict, no model, no theorem; props/c06_diff.py): ${v/p/r} family, case "
    "modification, @Q @U @L @u @E @A @a @K @k @P, ${!v}, ${!prefix@}, every operator in the [@]/[*] x quoted/unquoted x IFS variants, "
    "declared-empty array states x writers (:=, printf -v, m[k]=v, +=, read, (( ))) x key readers",
]
ASSUMPTIONS = ["values shorter than 2^63 characters / elements (the `as i64` cast of the length is modelled as exact; hypothesis `fits`)",
               "default IFS; the operand word of - = ? + is a literal word; subscripts are integer literals or literal keys; "
               "UTF-8 locale for bash (C.UTF-8); indexed arrays given to ${a[@]:o:l} are dense from 0 (bash slices by index, brush by position: noted)"]

BASH = "/usr/bin/bash"
BENV = dict(os.environ, LC_ALL="C.UTF-8", LANG="C.UTF-8")
PRE = "shopt -s extglob\nshow() { printf '%s\\0' \"$#\" \"$@\"; }\n"

KF_EMPTY = "KF-C06-smallest-empty-match"
KF_LENB = "KF-C06-length-bytes"
KF_SUBNEG = "KF-C06-substring-negative-length"
KF_SUBB = "KF-C06-substring-bytes"
KF_ALTAT = "KF-C06-alt-empty-at"
KF_MULTIE = "KF-C06-multi-empty-null"
KF_LENNU = "KF-C06-length-nounset-array"
KF_MLINE = "KF-C06-multiline-anchor"


# ---------------------------------------------------------------- shell text

def q(s):
    """$'...' quoting of an arbitrary string (multi-byte characters literally)"""
    out = []
    for ch in s:
        if ch == "\\":
            out.append("\\\\")
        elif ch == "'":
            out.append("\\'")
        elif ch == "\n":
            out.append("\\n")
        elif ch == "\t":
            out.append("\\t")
        elif ord(ch) < 32:
            out.append("\\x%02x" % ord(ch))
        else:
            out.append(ch)
    return "$'" + "".join(out) + "'"


class State:
    """kind: N | U | S | I | A ; val: str | [(int,str)] | [(str,str)] ; udecl: text of the declaration for U"""
    def __init__(self, kind, val=None, args=(), nounset=False, udecl="declare x"):
        self.kind, self.val, self.args, self.nounset, self.udecl = kind, val, list(args), nounset, udecl

    def setup(self):
        l = []
        if self.nounset:
            l.append("set -u")
        if self.kind == "N":
            l.append("unset x")
        elif self.kind == "U":
            l.append(self.udecl)
        elif self.kind == "S":
            l.append("x=" + q(self.val))
        elif self.kind == "I":
            l.append("x=(" + " ".join("[%d]=%s" % (i, q(v)) for i, v in self.val) + ")")
        elif self.kind == "A":
            l.append("declare -A x=(" + " ".join("[%s]=%s" % (q(k), q(v)) for k, v in self.val) + ")")
        l.append("set --" + "".join(" " + q(a) for a in self.args))
        return "\n".join(l) + "\n"

    def fields(self):
        f = ["1" if self.nounset else "0", self.kind]
        if self.kind == "S":
            f.append(self.val)
        elif self.kind == "I":
            f.append(str(len(self.val)))
            for i, v in self.val:
                f += [str(i), v]
        elif self.kind == "A":
            f.append(str(len(self.val)))
            for k, v in sorted(self.val):
                f += [k, v]
        f.append(str(len(self.args)))
        f += self.args
        return f

    def key(self):
        return (self.kind, repr(self.val), tuple(self.args), self.nounset, self.udecl)


def ref_text(r):
    k = r[0]
    if k == "n":
        return "x"
    if k == "i":
        return "x[%s]" % r[1]
    if k == "a":
        return "x[*]" if r[1] else "x[@]"
    if k == "p":
        return str(r[1])
    return "*" if r[1] else "@"


def ref_fields(r):
    k = r[0]
    if k == "n":
        return ["n"]
    if k == "i":
        return ["i", str(r[1])]
    if k == "a":
        return ["a", "1" if r[1] else "0"]
    if k == "p":
        return ["p", str(r[1])]
    return ["g", "1" if r[1] else "0"]


def words(st, r):
    """python twin of ParamSpec.words (None = unset)"""
    k = r[0]
    if k == "p":
        return [st.args[r[1] - 1]] if 1 <= r[1] <= len(st.args) else None
    if k == "g":
        return list(st.args) or None
    if st.kind in ("N", "U"):
        return None
    if k == "a":
        if st.kind == "S":
            return [st.val]
        vs = [v for _, v in (st.val if st.kind == "I" else sorted(st.val))]
        return vs or None
    idx = "0" if k == "n" else str(r[1])
    if st.kind == "S":
        # str::parse::<u64>().unwrap_or(0) == 0
        return [st.val] if not (idx.isdigit() and 0 < int(idx) < 2 ** 64) else None
    if st.kind == "A":
        d = dict(st.val)
        return [d[idx]] if idx in d else None
    try:
        iv = int(idx)
    except ValueError:
        iv = 0
    if iv < 0:
        iv += len(st.val)
    d = dict(st.val)
    return [d[iv]] if iv in d else None


def is_list(r):
    return r[0] in ("a", "g")


# ---------------------------------------------------------------- running code and bash

def canon(status, out):
    """(status, stdout bytes) of the script -> canonical result fields; the script prints
    show "<expansion>" ; printf 'S%s\\0' "$?" ; [show A "<ref>"]"""
    parts = out.split(b"\0")
    try:
        n = int(parts[0])
        args = parts[1:1 + n]
        if len(args) != n or len(parts) < 2 + n or not parts[1 + n].startswith(b"S"):
            return ["FAIL"]
        rest = parts[2 + n:]
        res = ["OK", str(n)] + [a.decode("utf-8", "replace") for a in args]
        if len(rest) >= 3 and rest[0] == b"2" and rest[1] == b"A":
            res += ["1", rest[2].decode("utf-8", "replace")]
        else:
            res += ["0"]
        return res
    except (ValueError, IndexError):
        return ["FAIL"]


def run_group(cmd, timeout=20):
    """runs a child in its own process group; the whole group is killed on timeout and after completion"""
    import signal
    p = subprocess.Popen(cmd, stdin=subprocess.DEVNULL, stdout=subprocess.PIPE, stderr=subprocess.DEVNULL, env=BENV,
                         start_new_session=True)
    try:
        out, _ = p.communicate(timeout=timeout)
        return p.returncode, out
    except subprocess.TimeoutExpired:
        return None, b""
    finally:
        try:
            os.killpg(p.pid, signal.SIGKILL)
        except OSError:
            pass
        try:
            p.communicate(timeout=5)
        except Exception:
            pass


def run_bash(scripts, workers=8):
    def one(s):
        rc, out = run_group([BASH, "--norc", "--noprofile", "-O", "extglob", "-c", PRE + s, "brush"])
        return ["TIMEOUT"] if rc is None else canon(rc, out)
    with ThreadPoolExecutor(workers) as ex:
        return list(ex.map(one, scripts))


def run_bash_tables(items, workers=8):
    """items: list of (pattern word as written in the script, strings) -> list of bit strings decided by bash's [[ s == pat ]]"""
    def one(it):
        w, strs = it
        if not strs:
            return ""
        body = "".join("[[ %s == %s ]] && printf 1 || printf 0\n" % (q(s), w if w else "''") for s in strs)
        rc, out = run_group([BASH, "--norc", "--noprofile", "-O", "extglob", "-c", body])
        return "" if rc is None else out.decode()
    with ThreadPoolExecutor(workers) as ex:
        return list(ex.map(one, items))


def run_code(ctx, cases):
    """cases: list of (script, pattern_text or None, strings) -> list of (canon result, bits)"""
    enc = [[PRE + s, "1", "1" if p is not None else "0", p or "", str(len(strs))] + list(strs) for s, p, strs in cases]
    lines = ctx.impl("c06", enc)
    out = []
    for l in lines:
        if l.startswith("PANIC"):
            out.append((["PANIC"], ""))
            continue
        if l in ("DIED", "TIMEOUT"):
            out.append(([l], ""))
            continue
        f = l.split(" ")
        bits = core.unhx(f[3]).decode() if len(f) > 3 else ""
        out.append((canon(int(f[0]), core.unhx(f[1])), bits))
    return out


def run_code_raw(ctx, scripts):
    """-> list of (stdout bytes, failed?) for whole scripts (differential part)"""
    enc = [["shopt -s extglob\n" + s, "1", "0", "", "0"] for s in scripts]
    out = []
    for l in ctx.impl("c06", enc):
        if l.startswith("PANIC"):
            out.append((b"PANIC", True)); continue
        f = l.split(" ")
        if len(f) < 2 or not f[0].lstrip("-").isdigit():
            out.append((l.encode(), True)); continue
        out.append((core.unhx(f[1]), int(f[0]) != 0))
    return out


def run_bash_raw(scripts, workers=8):
    def one(s):
        rc, out = run_group([BASH, "--norc", "--noprofile", "-O", "extglob", "-c", "shopt -s extglob\n" + s, "brush"])
        return (b"TIMEOUT", True) if rc is None else (out, rc != 0)
    with ThreadPoolExecutor(workers) as ex:
        return list(ex.map(one, scripts))


def split_results(fields, k):
    """split the self-delimiting results printed by an entry into k lists"""
    res, i = [], 0
    for _ in range(k):
        if i >= len(fields):
            res.append(["?"])
            continue
        if fields[i] == "OK":
            n = int(fields[i + 1])
            j = i + 2 + n
            if fields[j] == "1":
                res.append(fields[i:j + 2]); i = j + 2
            else:
                res.append(fields[i:j + 1]); i = j + 1
        else:
            res.append([fields[i]]); i += 1
    return res


# ---------------------------------------------------------------- generators

ALPHA = ["a", "b", "c", " ", "\n", "*", "?", "é", "日", "/", ".", "[", "]", "A"]
WORDS = ["", "a", "abc", "a b", " ", "é", "aé日b", "ab\ncd", "*a?", "a.b/c", "[a]", "abcabc", "xyzzy", "  ", "\n", "ab ab"]


def rand_word(rng, maxlen=6):
    if rng.random() < 0.5:
        return rng.choice(WORDS)
    return "".join(rng.choice(ALPHA) for _ in range(rng.randrange(0, maxlen + 1)))


def rand_state(rng, dense_only=False):
    r = rng.random()
    args = [rand_word(rng) for _ in range(rng.choice([0, 0, 1, 2, 3]))]
    nu = rng.random() < 0.3
    if r < 0.08:
        return State("N", None, args, nu)
    if r < 0.16:
        return State("U", None, args, nu, udecl=rng.choice(["declare x", "declare -a x", "declare -A x"]))
    if r < 0.55:
        return State("S", rand_word(rng), args, nu)
    if r < 0.85:
        n = rng.choice([0, 1, 1, 2, 3, 4])
        if dense_only or rng.random() < 0.7:
            idx = list(range(n))
        else:
            idx = sorted(rng.sample(range(0, 9), n))
        return State("I", [(i, rand_word(rng)) for i in idx], args, nu)
    n = rng.choice([0, 1, 1])
    return State("A", [(rng.choice(["k", "0", "a b", "é"]), rand_word(rng)) for _ in range(n)], args, nu)


def rand_ref(rng, st):
    r = rng.random()
    if r < 0.4:
        return ("n",)
    if r < 0.55:
        if st.kind == "A":
            return ("i", rng.choice(["k", "0", "zz"]))
        dense = st.kind == "I" and len(st.val) > 0 and [i for i, _ in st.val] == list(range(len(st.val)))
        if not dense:
            # bash: negative subscript of a scalar or of an empty array is "bad array subscript"; of a sparse array it counts from the
            # highest index, brush from the number of elements (subscripts are not this property's subject)
            return ("i", rng.choice([0, 1, 2, 7]))
        return ("i", rng.choice([0, 1, 2, -1, 7]))
    if r < 0.75:
        return ("a", rng.random() < 0.35)
    if r < 0.85:
        return ("p", rng.choice([1, 2, 3]))
    return ("g", rng.random() < 0.35)


# conditional operators ------------------------------------------------------------------------

COND_WORDS = ["W", "", "a b", "é*"]


def table_states():
    """the systematic part: every kind of unset / null / set for scalars, positionals, arrays"""
    sts = []
    for nu in (False, True):
        sts += [State("N", nounset=nu), State("U", nounset=nu), State("U", nounset=nu, udecl="declare -a x"),
                State("U", nounset=nu, udecl="declare -A x"),
                State("S", "", nounset=nu), State("S", "v", nounset=nu), State("S", " ", nounset=nu),
                State("I", [], nounset=nu), State("I", [(0, "")], nounset=nu), State("I", [(0, "a"), (1, "b")], nounset=nu),
                State("I", [(0, ""), (1, "")], nounset=nu), State("I", [(3, "q")], nounset=nu), State("I", [(0, ""), (1, "z")], nounset=nu),
                State("A", [], nounset=nu), State("A", [("k", "v")], nounset=nu), State("A", [("k", "")], nounset=nu),
                State("S", "v", args=["", ""], nounset=nu), State("S", "v", args=[""], nounset=nu),
                State("S", "v", args=["p", "q"], nounset=nu), State("S", "v", args=["", "r"], nounset=nu)]
    return sts


def table_refs(st):
    refs = [("n",), ("a", False), ("a", True), ("p", 1), ("p", 3), ("g", False), ("g", True)]
    if st.kind == "A":
        refs += [("i", "k"), ("i", "zz")]
    else:
        refs += [("i", 0), ("i", 1)]
    return refs


def gen_cond(ctx):
    cases = []
    for st in table_states():
        for r in table_refs(st):
            for op in "-=?+":
                for colon in (False, True):
                    if op == "=" and is_list(r):
                        continue   # bash assigns to subscript "@" of an associative array; outside the property
                    cases.append(("cond", st, r, op, colon, "W"))
    nrand = 400 if ctx.quick else 6000
    for _ in range(nrand):
        st = rand_state(ctx.rng)
        r = rand_ref(ctx.rng, st)
        op = ctx.rng.choice("-=?+")
        if op == "=" and is_list(r):
            op = "-"
        cases.append(("cond", st, r, op, ctx.rng.random() < 0.5, ctx.rng.choice(COND_WORDS)))
    return cases


def cond_script(c):
    _, st, r, op, colon, w = c
    s = st.setup() + 'show "${%s%s%s%s}"\nprintf \'S%%s\\0\' "$?"\n' % (ref_text(r), ":" if colon else "", op, w)
    if op == "=":
        s += 'show A "${%s}"\n' % ref_text(r)
    return s


def cond_fields(c):
    _, st, r, op, colon, w = c
    return st.fields() + ref_fields(r) + [op, "1" if colon else "0", w]


def cond_known(c, code, spec):
    _, st, r, op, colon, w = c
    ws = words(st, r)
    if op == "+" and is_list(r) and not r[1] and ws is None:
        return KF_ALTAT
    if is_list(r) and ws is not None and len(ws) >= 2 and all(x == "" for x in ws) and colon:
        return KF_MULTIE
    return None


# length ------------------------------------------------------------------------------------------

def len_excluded(st, r):
    # bash 5.2 quirk: under nounset ${#x[@]}, ${#x[0]} of a *scalar* (or declared-unset) x say "x: unbound variable"
    # although ${#x} and ${x[@]} are fine; not followed, not compared
    return st.nounset and st.kind in ("S", "U") and r[0] in ("a", "i")


def gen_len(ctx):
    cases = []
    for st in table_states():
        for r in table_refs(st):
            if not len_excluded(st, r):
                cases.append(("len", st, r))
    for _ in range(500 if ctx.quick else 5000):
        st = rand_state(ctx.rng)
        r = rand_ref(ctx.rng, st)
        if not len_excluded(st, r):
            cases.append(("len", st, r))
    return cases


def len_script(c):
    _, st, r = c
    return st.setup() + 'show "${#%s}"\nprintf \'S%%s\\0\' "$?"\n' % ref_text(r)


def len_fields(c):
    _, st, r = c
    return st.fields() + ref_fields(r)


def non_ascii(s):
    return any(ord(ch) > 127 for ch in s)


def len_known(c, code, spec):
    _, st, r = c
    if r[0] == "a" and st.kind == "N" and st.nounset:
        return KF_LENNU
    return None


# keys --------------------------------------------------------------------------------------------

def gen_keys(ctx):
    cases = []
    sts = [State("N"), State("U"), State("U", udecl="declare -a x"), State("U", udecl="declare -A x"), State("S", ""), State("S", "v"),
           State("I", []), State("I", [(0, "a"), (1, "")]), State("I", [(2, "x"), (5, ""), (70, "z")]),
           State("A", []), State("A", [("k", "v")]), State("A", [("a b", "")])]
    for st in sts:
        for nu in (False, True):
            for c in (False, True):
                cases.append(("keys", State(st.kind, st.val, st.args, nu, st.udecl), ("a", c)))
    for _ in range(100 if ctx.quick else 1000):
        st = rand_state(ctx.rng)
        cases.append(("keys", st, ("a", ctx.rng.random() < 0.4)))
    return cases


def keys_script(c):
    _, st, r = c
    return st.setup() + 'show "${!%s}"\nprintf \'S%%s\\0\' "$?"\n' % ref_text(r)


# substring ---------------------------------------------------------------------------------------

EXPRS = [("0", 0), ("1", 1), ("2", 2), ("3", 3), ("5", 5), ("7", 7), ("100", 100), ("-1", -1), ("-2", -2), ("-3", -3),
         ("-5", -5), ("-7", -7), ("-100", -100), ("n", 2), ("-n", -2), ("m", -3), ("n*2", 4), ("1+1", 2), ("n-m", 5),
         ("m+1", -2), ("9223372036854775807", 2 ** 63 - 1), ("-9223372036854775807", -(2 ** 63 - 1)), ("n>1", 1), ("(1-n)", -1)]


def gen_sub(ctx):
    cases = []
    vals = ["", "a", "abc", "abcdefgh", "aé日b", "a b\nc"]
    small = [e for e in EXPRS if abs(e[1]) <= 7]
    # systematic: scalars x offsets x lengths
    for v in vals:
        for o in small:
            for l in [None] + small:
                if ctx.quick and l is not None and ctx.rng.random() < 0.6:
                    continue
                cases.append(("sub", State("S", v), ("n",), o, l))
    lists = [[], ["p"], ["p", "q", "r"], ["", "é", "a b", "d"]]
    for ws in lists:
        for o in small:
            for l in [None] + small:
                if ctx.rng.random() < (0.8 if ctx.quick else 0.3):
                    continue
                cases.append(("sub", State("I", list(enumerate(ws))), ("a", ctx.rng.random() < 0.3), o, l))
                cases.append(("sub", State("S", "v", args=ws), ("g", ctx.rng.random() < 0.3), o, l))
    for _ in range(500 if ctx.quick else 6000):
        st = rand_state(ctx.rng, dense_only=True)
        r = rand_ref(ctx.rng, st)
        if r[0] == "a" and st.kind in ("S", "A"):
            # bash applies ${x[@]:o:l} to a scalar x as a string and slices associative arrays in hash order
            r = ("n",)
        o = ctx.rng.choice(EXPRS)
        l = ctx.rng.choice([None, None] + EXPRS)
        cases.append(("sub", st, r, o, l))
    return cases


EV_EXPRS = [  # (text, value given the counter i before evaluation, increment, errors)
    ("i++", lambda i: i, 1, False), ("++i", lambda i: i + 1, 1, False), ("i+=10", lambda i: i + 10, 10, False),
    ("i+=2", lambda i: i + 2, 2, False), ("8/d", lambda i: 0, 0, True), ("1%d", lambda i: 0, 0, True),
    ("0", lambda i: 0, 0, False), ("1", lambda i: 1, 0, False), ("2", lambda i: 2, 0, False), ("5", lambda i: 5, 0, False),
    ("9", lambda i: 9, 0, False), ("-1", lambda i: -1, 0, False), ("-2", lambda i: -2, 0, False), ("-9", lambda i: -9, 0, False)]


def gen_subev(ctx):
    """evaluation order / skipping of the offset and length expressions: side effects on i, errors (d=0)"""
    rng = ctx.rng
    cases = []
    sts = [(State("S", "abc"), ("n",)), (State("S", ""), ("n",)), (State("N"), ("n",)), (State("S", "aé日b"), ("n",)),
           (State("I", [(0, "p"), (1, "q")]), ("a", False)), (State("I", []), ("a", False)), (State("N"), ("a", True)),
           (State("S", "v", args=["p", "q"]), ("g", False)), (State("S", "v", args=[]), ("g", True)),
           (State("N", nounset=True), ("n",)), (State("S", "v", args=["p"]), ("p", 1)), (State("S", "v", args=[]), ("p", 2))]
    for st, r in sts:
        for o in EV_EXPRS:
            for l in [None] + EV_EXPRS:
                if ctx.quick and rng.random() < 0.55:
                    continue
                cases.append(("subev", st, r, o, l))
    return cases


def subev_operands(c):
    _, st, r, o, l = c
    i = 0
    ov = o[1](i)
    i2 = i + o[2]
    res = [(ov, o[3], o[2])]
    if l is not None:
        res.append((l[1](i2), l[3], l[2]))
    return res


def subev_script(c):
    _, st, r, o, l = c
    ot = o[0] if o[0][0] not in "-+" else " " + o[0]     # ":-" / ":+" would be the conditional operators
    e = "${%s:%s%s}" % (ref_text(r), ot, "" if l is None else ":" + l[0])
    return "i=0 d=0\n" + st.setup() + 'show "%s"\nprintf \'S%%s\\0\' "$?"\nshow A "$i"\n' % e


def subev_fields(c):
    _, st, r, o, l = c
    ops = subev_operands(c)
    f = st.fields() + ref_fields(r) + [str(ops[0][0]), "1" if ops[0][1] else "0", str(ops[0][2])]
    if l is None:
        f += ["0", "0", "0", "0"]
    else:
        f += ["1", str(ops[1][0]), "1" if ops[1][1] else "0", str(ops[1][2])]
    return f


def sub_script(c):
    _, st, r, o, l = c
    ot = o[0] if not o[0].startswith("-") else " " + o[0]
    e = "${%s:%s%s}" % (ref_text(r), ot, "" if l is None else ":" + l[0])
    return "n=2 m=-3\n" + st.setup() + 'show "%s"\nprintf \'S%%s\\0\' "$?"\n' % e


def sub_fields(c):
    _, st, r, o, l = c
    return st.fields() + ref_fields(r) + [str(o[1]), "0" if l is None else "1", "0" if l is None else str(l[1])]


def sub_known(c, code, spec):
    return None     # KF-C06-substring-negative-length / -bytes are fixed: any deviation is a violation


# removal -----------------------------------------------------------------------------------------

def rand_pattern(rng, ws):
    """-> list of pieces (kind, text): kind 'P' pattern text, 'Q' single-quoted literal"""
    pieces = []
    base = rng.choice(ws) if ws and rng.random() < 0.7 else rand_word(rng, 4)
    n = rng.randrange(0, 5)
    # derive a pattern from a substring of the value so that matches are likely
    if base:
        a = rng.randrange(0, len(base))
        b = rng.randrange(a, min(len(base), a + 4) + 1)
        seed = base[a:b]
    else:
        seed = ""
    for ch in seed:
        x = rng.random()
        if x < 0.18:
            pieces.append(("P", "*"))
        elif x < 0.3:
            pieces.append(("P", "?"))
        elif x < 0.38 and ch not in "]\\\n![^- ":
            pieces.append(("P", "[%s%s]" % (ch, rng.choice(["", "x", "a-c"]))))
        elif x < 0.43 and ch not in "]\\\n![^- ":
            pieces.append(("P", "[!%s]" % ch))
        elif x < 0.5 and ch not in "|()\n":
            pieces.append(("P", rng.choice(["@(%s|zz)", "*(%s)", "+(%s)", "?(%s)", "!(%s)"]) % lit_pat(ch)))
        else:
            pieces.append(("L", ch))
    for _ in range(n):
        x = rng.random()
        pos = rng.randrange(0, len(pieces) + 1)
        if x < 0.45:
            pieces.insert(pos, ("P", "*"))
        elif x < 0.6:
            pieces.insert(pos, ("P", "?"))
        elif x < 0.75:
            pieces.insert(pos, ("L", rng.choice(ALPHA)))
        elif x < 0.85:
            pieces.insert(pos, ("Q", rng.choice(["*", "?", "a", " ", "[", "é"])))
        else:
            pieces.insert(pos, ("P", rng.choice(["[a-c]", "[!a]", "[[:alpha:]]", "[[:space:]]", "*(a|b)", "?(é)", "@(b|a)", "+([a-z])", "@(a|ab)", "+(a|ab)", "*(a|ab)", "!(a)"])))
    return pieces


SPECIAL = set("*?[]\\()|!@+-^$'\"`{}~#&;<> \n\t")


def lit_pat(ch):
    """a literal character inside pattern text (backslash-escaped when special)"""
    return "\\" + ch if ch in SPECIAL and ch != "\n" else ch


def pat_word(pieces):
    """the operand as written in the script"""
    out = []
    for k, t in pieces:
        if k == "P":
            out.append(t)
        elif k == "Q":
            out.append("'" + t + "'")
        else:
            out.append(q(t) if t == "\n" else lit_pat(t))
    return "".join(out)


def pat_api(pieces):
    """the same pattern as plain pattern text for Pattern::from(&str): quoted parts backslash-escaped"""
    out = []
    for k, t in pieces:
        if k == "P":
            out.append(t)
        else:
            out.append("".join(("\\" + ch) if (ch in SPECIAL and ch != "\n") else ch for ch in t))
    return "".join(out)


def pat_mini(pieces):
    """pattern text in the grammar of ParamExp/MiniGlob.v (literals, ?, *, backslash escapes) or None"""
    out = []
    for k, t in pieces:
        if k == "P":
            if t not in ("*", "?"):
                return None
            out.append(t)
        else:
            out.append("".join("\\" + ch for ch in t))
    return "".join(out)


def mini_match(p, s):
    """python twin of MiniGlob (independent oracle matcher for the mini grammar)"""
    toks = []
    i = 0
    while i < len(p):
        if p[i] == "\\" and i + 1 < len(p):
            toks.append(("L", p[i + 1])); i += 2
        elif p[i] == "*":
            toks.append(("S",)); i += 1
        elif p[i] == "?":
            toks.append(("A",)); i += 1
        else:
            toks.append(("L", p[i])); i += 1
    import functools

    @functools.lru_cache(None)
    def go(ti, si):
        if ti == len(toks):
            return si == len(s)
        t = toks[ti]
        if t[0] == "L":
            return si < len(s) and s[si] == t[1] and go(ti + 1, si + 1)
        if t[0] == "A":
            return si < len(s) and go(ti + 1, si + 1)
        return any(go(ti + 1, k) for k in range(si, len(s) + 1))
    return go(0, 0)


def spec_remove(op, m, s):
    """the property's own clause: delete the shortest/longest matching prefix/suffix, the empty one included"""
    n = len(s)
    cuts = range(0, n + 1)
    if op == "#":
        ks = [k for k in cuts if m(s[:k])]
        return s[ks[0]:] if ks else s
    if op == "##":
        ks = [k for k in cuts if m(s[:k])]
        return s[ks[-1]:] if ks else s
    if op == "%":
        ks = [k for k in cuts if m(s[k:])]
        return s[:ks[-1]] if ks else s
    ks = [k for k in cuts if m(s[k:])]
    return s[:ks[0]] if ks else s


OVERLAP = ["@(foo|foobar)", "@(a|ab)", "@(ab|a)", "+(a|ab)", "*(a|ab)", "?(a|ab)", "!(a)", "!(ab)", "@(a|ab)*", "*@(b|ab)",
           "@(a|ab)b", "+(a|ab)b", "*(b|ab|a)", "!(a|ab)", "@(.gz|.tar.gz)", "*@(.gz|.tar.gz)"]


def gen_rm(ctx):
    cases = []
    rng = ctx.rng
    # systematic: small values x mini patterns (includes every pattern that matches the empty string)
    vals = ["", "a", "abc", "aab", "abab", "a*b", "é日é"]
    pats = ["", "*", "?", "a", "a*", "*a", "*b", "?*", "*?", "**", "ab", "b*", "*c", "a?", "?b*", "\\*", "é", "*é", "日*"]
    for v in vals:
        for p in pats:
            for op in ("#", "##", "%", "%%"):
                if ctx.quick and rng.random() < 0.5 and p not in ("*", "", "**"):
                    continue
                pieces = []
                i = 0
                while i < len(p):
                    if p[i] == "\\":
                        pieces.append(("L", p[i + 1])); i += 2
                    elif p[i] in "*?":
                        pieces.append(("P", p[i])); i += 1
                    else:
                        pieces.append(("L", p[i])); i += 1
                cases.append(("rm", State("S", v), ("n",), op, pieces))
    # exhaustive small scope: every value over {a,b,é} x every pattern over {a,b,*,?} up to length 2 (quick) / 3 (thorough)
    depth = 2 if ctx.quick else 3
    evals = ["".join(x) for d in range(depth + 1) for x in itertools.product("abé", repeat=d)]
    epats = [list(x) for d in range(depth + 1) for x in itertools.product("ab*?", repeat=d)]
    for v in evals:
        for p in epats:
            for op in ("#", "##", "%", "%%"):
                cases.append(("rm", State("S", v), ("n",), op, [("P", ch) if ch in "*?" else ("L", ch) for ch in p]))
    # extglob with overlapping alternatives: the longest/shortest match is not the first alternative that matches
    for v in ["foobar.tar.gz", "ab", "aab", "abab", "aba", "a", ""]:
        for pw in OVERLAP:
            for op in ("#", "##", "%", "%%"):
                if ctx.quick and rng.random() < 0.4:
                    continue
                cases.append(("rm", State("S", v), ("n",), op, [("P", pw)]))
    for st in (State("I", [(0, "abc"), (1, ""), (2, "cab")]), State("S", "v", args=["ab", "ba"])):
        for r in (("a", False), ("a", True), ("g", False), ("g", True)):
            for op in ("#", "##", "%", "%%"):
                cases.append(("rm", st, r, op, [("P", "*"), ("L", "a")]))
                cases.append(("rm", st, r, op, []))
    for _ in range(900 if ctx.quick else 12000):
        st = rand_state(rng)
        r = rand_ref(rng, st)
        ws = words(st, r) or []
        op = rng.choice(["#", "##", "%", "%%"])
        pieces = [] if rng.random() < 0.02 else rand_pattern(rng, ws)
        cases.append(("rm", st, r, op, pieces))
    return cases


def rm_script(c):
    _, st, r, op, pieces = c
    w = pat_word(pieces)
    return st.setup() + 'show "${%s%s%s}"\nprintf \'S%%s\\0\' "$?"\n' % (ref_text(r), op, w)


def rm_strings(c):
    _, st, r, op, pieces = c
    ws = words(st, r) or []
    strs = []
    for w in ws:
        for k in range(len(w) + 1):
            strs.append(w[:k]); strs.append(w[k:])
    seen, out = set(), []
    for s in strs:
        if s not in seen:
            seen.add(s); out.append(s)
    return out


# ---------------------------------------------------------------- the check

def trivial(c, spec):
    """a case is non-trivial when the operator does something: not the plain "${ref}" expansion"""
    fam = c[0]
    if fam == "cond":
        return False
    if fam == "keys":
        return c[1].kind in ("N", "U")
    if fam == "len":
        return words(c[1], c[2]) is None
    if fam in ("sub", "subev"):
        return words(c[1], c[2]) is None
    if fam == "rm":
        ws = words(c[1], c[2])
        if ws is None:
            return True
        exp = ws if (is_list(c[2]) and not c[2][1]) else [" ".join(ws)]
        return spec[:1] == ["OK"] and spec[2:2 + len(exp)] == exp
    return False


def evaluate(ctx, cases, with_model=True):
    """runs code, bash and (optionally) the model on the cases; returns per-case records"""
    scripts, fields = [], []
    for c in cases:
        fam = c[0]
        scripts.append({"cond": cond_script, "len": len_script, "sub": sub_script, "rm": rm_script, "keys": keys_script,
                        "subev": subev_script}[fam](c))
    code_in = []
    for c, s in zip(cases, scripts):
        if c[0] == "rm":
            code_in.append((s, pat_api(c[4]), rm_strings(c)))
        else:
            code_in.append((s, None, []))
    code = run_code(ctx, code_in)
    bash = run_bash(scripts)
    rm_idx = [i for i, c in enumerate(cases) if c[0] == "rm"]
    btabs = dict(zip(rm_idx, run_bash_tables([(pat_word(cases[i][4]), rm_strings(cases[i])) for i in rm_idx])))
    recs = []
    by_entry = {"c06cond": [], "c06len": [], "c06sub": [], "c06rm": [], "c06keys": [], "c06subev": []}
    for i, c in enumerate(cases):
        fam = c[0]
        rec = {"case": c, "script": scripts[i], "code": code[i][0], "bash": bash[i], "bits": code[i][1], "runs": []}
        if fam == "cond":
            by_entry["c06cond"].append((i, cond_fields(c), 2, "main"))
        elif fam == "len":
            by_entry["c06len"].append((i, len_fields(c), 2, "main"))
        elif fam == "sub":
            by_entry["c06sub"].append((i, sub_fields(c), 2, "main"))
        elif fam == "subev":
            by_entry["c06subev"].append((i, subev_fields(c), 2, "main"))
        elif fam == "keys":
            by_entry["c06keys"].append((i, len_fields(c), 2, "main"))
        else:
            _, st, r, op, pieces = c
            base = st.fields() + ref_fields(r) + [op]
            if True:
                strs = rm_strings(c)
                bits = code[i][1]
                tab = []
                for s_, b in zip(strs, bits):
                    tab += [s_, "1" if b == "1" else "0"]
                rec["empty_matches_code"] = ("" in strs and bits[strs.index("")] == "1") if bits else False
                by_entry["c06rm"].append((i, base + ["t", str(len(strs))] + tab, 2, "main"))
                bb = btabs.get(i, "")
                rec["bash_bits"] = bb
                if len(bb) == len(strs):
                    tab2 = []
                    for s_, b in zip(strs, bb):
                        tab2 += [s_, b]
                    by_entry["c06rm"].append((i, base + ["t", str(len(strs))] + tab2, 2, "bashtab"))
                    rec["empty_matches_bash"] = ("" in strs and bb[strs.index("")] == "1")
                mp = pat_mini(pieces)
                if mp is not None:
                    by_entry["c06rm"].append((i, base + ["g", mp], 2, "mini"))
        recs.append(rec)
    if with_model:
        for entry, lst in by_entry.items():
            if not lst:
                continue
            outs = ctx.model(entry, [f for _, f, _, _ in lst])
            for (i, f, k, tag), line in zip(lst, outs):
                parts = split_results(core.dec_line(line), k) if line not in ("DIED", "TIMEOUT") else [[line]] * k
                recs[i]["runs"].append({"entry": entry, "fields": f, "tag": tag, "parts": parts})
    return recs


KF_MATCH = "KF-C06-matcher-differs-from-bash"


def judge(recs):
    mism, specv, bashdis, stale = [], [], [], {}
    stats = {"spec_eq_bash": 0, "spec_ne_bash": 0, "code_eq_bash": 0, "code_ne_bash": 0, "mini_runs": 0,
             "rm_matcher_tables_differ": 0}
    for rec in recs:
        c = rec["case"]
        fam = c[0]
        code, bash = rec["code"], rec["bash"]
        runs = {r["tag"]: r for r in rec["runs"]}
        if "main" not in runs:
            continue
        parts = runs["main"]["parts"]
        cur, spec = parts[0], parts[-1]
        desc = {"family": fam, "script": rec["script"]}
        pyspec = None
        kid = None
        if fam == "rm":
            # the specification's matcher must not be the code's: bash's table (second Coq run), and for the mini
            # grammar additionally a python oracle with its own matcher
            ws = words(c[1], c[2])
            bb = rec.get("bash_bits")
            tables_differ = bool(bb) and len(bb) == len(rec["bits"]) and bb != rec["bits"]
            if tables_differ:
                stats["rm_matcher_tables_differ"] += 1
            if "bashtab" in runs:
                spec = runs["bashtab"]["parts"][1]
            mp = pat_mini(c[4])
            if mp is not None and ws is not None:
                exp = [spec_remove(c[3], lambda t_: mini_match(mp, t_), w) for w in ws]
                exp = exp if (is_list(c[2]) and not c[2][1]) else [" ".join(exp)]
                pyspec = ["OK", str(len(exp))] + exp + ["0"]
                if "mini" in runs:
                    stats["mini_runs"] += 1
                    if runs["mini"]["parts"][1] != pyspec:
                        raise core.CheckBroken("Coq oracle (mini glob) and python oracle disagree on %r: %r vs %r"
                                               % (rec["script"], runs["mini"]["parts"][1], pyspec))
            # only OPEN classes are attributed; the fixed ones (empty match with # / %, multi-line anchors) are not
            # excused any more: a deviation there is a plain violation
            if tables_differ:
                kid = KF_MATCH
        elif fam == "cond":
            kid = cond_known(c, code, spec)
        elif fam == "len":
            kid = len_known(c, code, spec)
        else:
            kid = None
        # ---- tie: code vs model
        if code != cur:
            mism.append(dict(desc, code=code, model=cur, known_class=kid))
        # ---- spec validation against bash
        if bash == spec:
            stats["spec_eq_bash"] += 1
        else:
            stats["spec_ne_bash"] += 1
            bashdis.append(dict(desc, spec=spec, bash=bash, code=code))
        if code == bash:
            stats["code_eq_bash"] += 1
        else:
            stats["code_ne_bash"] += 1
        # ---- property
        bad = None
        if code != spec and code != bash:
            bad = "result differs from the specification and from bash: code %r, spec %r, bash %r" % (code, spec, bash)
        if bad is None and pyspec is not None and code != pyspec:
            # the bash-independent clause, decided by the python oracle with its own matcher
            bad = "removal does not delete the shortest/longest matching prefix/suffix: code %r, expected %r (bash %r)" % (code, pyspec, bash)
        if bad:
            v = {"input": desc, "why": bad}
            if kid:
                v["known"] = kid
            specv.append(v)
    return mism, specv, bashdis, stale, stats


# ---------------------------------------------------------------- differential part of the verdict (props/c06_diff.py)

def differential(ctx):
    from props import c06_diff
    return c06_diff.evaluate(ctx, lambda ss: run_code_raw(ctx, ss), run_bash_raw)


def run(ctx):
    cases = gen_cond(ctx) + gen_len(ctx) + gen_sub(ctx) + gen_subev(ctx) + gen_rm(ctx) + gen_keys(ctx)
    recs = evaluate(ctx, cases)
    mism, specv, bashdis, stale, stats = judge(recs)
    # extraction cross-check
    allruns = [(r["entry"], r["fields"], r["parts"]) for rec in recs for r in rec["runs"]]
    sample = ctx.rng.sample(allruns, min(40, len(allruns)))
    xbad = 0
    for entry in sorted({e for e, _, _ in sample}):
        sub = [(f, p) for e, f, p in sample if e == entry]
        ce = ctx.coq_eval(entry, [f for f, _ in sub])
        ex = ctx.model(entry, [f for f, _ in sub])
        for a, b in zip(ce, ex):
            if a != b:
                xbad += 1
        if xbad:
            raise core.CheckBroken("extracted runner and vm_compute disagree for entry %s" % entry)
    dist = {}
    nontriv = set()
    for rec in recs:
        c = rec["case"]
        dist[c[0]] = dist.get(c[0], 0) + 1
        k = "result:" + rec["code"][0]
        dist[k] = dist.get(k, 0) + 1
        main = [r for r in rec["runs"] if r["tag"] == "main"]
        if main and not trivial(c, main[0]["parts"][-1]):
            nontriv.add(rec["script"])
    # a spec that disagrees with bash where the code agrees with bash is a broken spec, not a finding
    wrong_spec = [d for d in bashdis if d["code"] == d["bash"]]
    notes = []
    if wrong_spec:
        notes.append("%d cases where code = bash but the Coq spec differs (spec to be repaired; never reported as violations); first: %r"
                     % (len(wrong_spec), wrong_spec[0]))
    dcases, dviol, dstats = differential(ctx)
    specv = specv + dviol
    notes.append("proof-backed part (Coq model + theorems + correspondence): families cond, len, sub, subev, rm, keys = %d cases. "
                 "Differential-only part (code vs /usr/bin/bash, words counted exactly, part of the verdict, no model): %d scripts over "
                 "replace, casemod, transform, indirect, prefix-names, keys, and cond/remove/substring/length in the [@]/[*] x quoted/unquoted/"
                 "affixed/assignment x IFS variants, plus declared-empty array states x writers x readers (family state); differing per family: %s"
                 % (len(cases), dstats["cases"], {k: "%d/%d" % (v["differ"], v["cases"]) for k, v in sorted(dstats["by_family"].items())}))
    known_seen = {}
    for v in specv:
        if v.get("known"):
            known_seen[v["known"]] = known_seen.get(v["known"], 0) + 1
    return {
        "evaluations": len(cases) + dstats["cases"],
        "distinct_nontrivial": len(nontriv) + len({c.script for c in dcases}),
        "rule": "(state, reference, operator, operand) cases run as scripts `show \"${ref op operand}\"` in a fresh in-process shell, in bash, "
                "and through the Coq model/spec. States: unset, declared-unset (declare / -a / -A), scalar, indexed (dense and sparse), "
                "associative (<=1 key), positional lists of 0-3 words, each with and without nounset; words over an alphabet with blank, "
                "newline, * ? [ ], multi-byte. References x, x[i], x[@], x[*], $n, $@, $*. Families: the systematic unset/null/set table "
                "(every state x reference x {-,=,?,+} x colon) + random; ${#..}; ${..:o:l} with offsets/lengths among negative, zero, in-range, "
                "out-of-range literals and arithmetic expressions (values supplied to the model); removal with patterns derived from the "
                "value (literals, * ? brackets, quoted parts, extglob) - the model gets the code's matcher as a table, and patterns in "
                "the mini grammar are additionally run with the Coq mini matcher and a python oracle; removal also exhaustively for all values over {a,b,é} x all patterns over {a,b,*,?} up to length 2 (quick) / 3 (thorough) x 4 operators. Non-trivial = the operator does not "
                "reduce to the plain expansion (removal: the result differs from the value; substring/length: the parameter is set; every "
                "conditional case). Distinct by script text.",
        "samples": [recs[0]["script"], recs[len(recs) // 2]["script"], recs[-1]["script"]],
        "distribution": dict(dist, known_hits=known_seen, stale_hits=stale, differential=dstats),
        "extraction_crosscheck": {"cases": len(sample), "agree": len(sample) - xbad},
        "spec_vs_bash": dict(stats, disagreements=bashdis[:400]),
        "model_mismatches": mism,
        "spec_violations": specv,
        "notes": notes,
    }


def search(ctx, res):
    import random
    save = ctx.rng, ctx.quick
    ctx.rng = random.Random(ctx.seed + 7)
    ctx.quick = False
    try:
        cases = gen_rm(ctx) + gen_sub(ctx) + gen_subev(ctx) + gen_cond(ctx) + gen_len(ctx)
    finally:
        ctx.rng, ctx.quick = save
    recs = evaluate(ctx, cases, with_model=ctx.runner is not None)
    if ctx.runner is None:
        return {"evaluations": len(cases), "spec_violations": code_vs_bash(recs)}
    mism, specv, bashdis, stale, stats = judge(recs)
    specv = specv + differential(ctx)[1]
    specv = [v for v in specv if not v.get("known")] + [v for v in specv if v.get("known")]
    specv.sort(key=lambda v: (bool(v.get("known")), len(v["input"]["script"])))
    return {"evaluations": len(cases), "spec_violations": specv[:5]}


def code_vs_bash(recs):
    """verdict without a model: code vs bash, known classes decided from the case alone"""
    out = []
    for rec in recs:
        if rec["code"] != rec["bash"]:
            c = rec["case"]
            kid = None
            if c[0] == "cond":
                kid = cond_known(c, None, None)
            elif c[0] == "len":
                kid = len_known(c, None, None)
            elif c[0] == "sub":
                kid = sub_known(c, None, None)
            elif c[0] == "rm":
                bb, strs = rec.get("bash_bits"), rm_strings(c)
                if bb and len(bb) == len(rec["bits"]) and bb != rec["bits"]:
                    kid = KF_MATCH
            v = {"input": {"family": c[0], "script": rec["script"]},
                 "why": "code %r differs from bash %r (no model available)" % (rec["code"], rec["bash"])}
            if kid:
                v["known"] = kid
            out.append(v)
    out.sort(key=lambda v: (bool(v.get("known")), len(v["input"]["script"])))
    unknown = [v for v in out if not v.get("known")]
    firsts = {}
    for v in out:
        if v.get("known"):
            firsts.setdefault(v["known"], v)
    return unknown[:5] + list(firsts.values())


def run_code_only(ctx):
    cases = gen_cond(ctx) + gen_len(ctx) + gen_sub(ctx) + gen_subev(ctx) + gen_rm(ctx) + gen_keys(ctx)
    recs = evaluate(ctx, cases, with_model=False)
    return {"evaluations": len(cases), "distinct_nontrivial": len({r["script"] for r in recs}),
            "rule": "code vs bash only (model did not build)", "samples": [],
            "spec_violations": code_vs_bash(recs) + differential(ctx)[1]}
