"""C01 — no input crashes the shell (partial: theorems for the numeric/indexing cores, the rest explored)."""
import json, os, re, resource, subprocess, threading
from vlib import core
from props import c01_gen as G

PID = "C01"
ENTRIES = {
    "c01_number": ("NoPanic.Entry", "entry_number"),
    "c01_numseq": ("NoPanic.Entry", "entry_numseq"),
    "c01_charseq": ("NoPanic.Entry", "entry_charseq"),
    "c01_substr": ("NoPanic.Entry", "entry_substr"),
    "c01_intappend": ("NoPanic.Entry", "entry_intappend"),
    "c01_arraykeys": ("NoPanic.Entry", "entry_arraykeys"),
    "c01_indexedkey": ("NoPanic.Entry", "entry_indexedkey"),
    "c01_capitalize": ("NoPanic.Entry", "entry_capitalize"),
    "c01_tilde": ("NoPanic.Entry", "entry_tilde"),
    "c01_dirstack": ("NoPanic.Entry", "entry_dirstack"),
    "c01_history": ("NoPanic.Entry", "entry_history"),
    "c01_pow": ("NoPanic.Entry", "entry_pow"),
    "c01_deref": ("NoPanic.Entry", "entry_deref"),
    "c01_aderef": ("NoPanic.Entry", "entry_aderef"),
    "c01_firstchar": ("NoPanic.Entry", "entry_firstchar"),
}
TRUSTED = [
    "modelled, not verified (checked Gallina twins, debug-build overflow semantics): brush-parser/src/word.rs rule number() and "
    "the digit alternatives of tilde_expression(); brush-core/src/braceexpansion.rs expand_brace_expr_member (number and char "
    "sequences); expansion.rs Substring arm + Expansion::polymorphic_subslice/polymorphic_len and the ~N directory-stack lookup; "
    "variables.rs integer += (3 sites), update_indexed_array_from_literals, get_key_for_indexed_array, Capitalize transform; "
    "brush-builtins/src/history.rs display_history; arithmetic.rs wrapping_pow_u64 and the deref depth counter",
    "Rust std: (a..=b).step_by(k) on i64/char never overflows (Step::forward_checked); str::parse for i64/u64/usize; "
    "String::replace_range panics exactly when a bound is not a char boundary",
    "oracle inputs of the model: Unicode case mapping (s.to_lowercase(), c.to_uppercase()) is taken from Rust's own tables "
    "through the harness (`case` kind) and fed to the model of the Capitalize transform",
    "NOT modelled, explored only (generated + mutated scripts, in-process under catch_unwind and through the vbrush binary, debug "
    "profile with overflow checks): the PEG-generated parsers, the tokenizer, the interpreter at large, builtins, completion, "
    "highlighting, prompt expansion, tokio",
]
ASSUMPTIONS = [
    "scripts that do not terminate in bash either are outside the quantifier; brace ranges with more than ~1e5 elements are not "
    "generated in the script streams (they only exhaust memory/time) except for the witness of KF-C01-brace-range-alloc "
    "(brush panics with 'capacity overflow' / aborts where bash prints the word back)",
    "nesting depth <= 64 (stack exhaustion beyond that is outside the property's quantifier)",
    "cursor positions handed to highlighting/completion are char boundaries of the line (what the line editor produces)",
]

I64MAX = 2 ** 63 - 1
I64MIN = -2 ** 63
U64MAX = 2 ** 64 - 1

KF = {
    "number": "KF-C01-brace-number-parse",
    "numseq": "KF-C01-brace-desc-underflow",
    "charseq": "KF-C01-brace-char-step",
    "substr": "KF-C01-substring-neglen",
    "intappend": "KF-C01-int-append-overflow",
    "arraykeys": "KF-C01-array-key-overflow",
    "capitalize": "KF-C01-capitalize-multibyte",
    "tilde": "KF-C01-tilde-digits-parse",
    "history": "KF-C01-history-skip-underflow",
    "ionumber": "KF-C01-io-number-parse",
    "strftime": "KF-C01-strftime-format",
    "waitjob": "KF-C01-wait-after-failed-job",
    "casenest": "KF-C01-case-backtracking",
    "heredoc": "KF-C01-heredoc-empty-tag",
    "bracenest": "KF-C01-brace-backtracking",
    "bracealloc": "KF-C01-brace-range-alloc",
    "parennest": "KF-C01-paren-backtracking",
    "caller": "KF-C01-caller-frame-overflow",
    "mapfile": "KF-C01-mapfile-origin-overflow",
    "fc": "KF-C01-fc-negate-overflow",
    "ulimit": "KF-C01-ulimit-scale-overflow",
    "readt": "KF-C01-read-timeout-overflow",
    "complbrace": "KF-C01-complete-brace-in-cmdsubst",
    "subscriptnest": "KF-C01-arith-subscript-backtracking",
}

# ------------------------------------------------------------------ running the harness (resumable)


def _limit(cpu=600):
    def f():
        try:
            resource.setrlimit(resource.RLIMIT_AS, (3 << 30, 3 << 30))
            resource.setrlimit(resource.RLIMIT_CPU, (cpu, cpu + 5))
            resource.setrlimit(resource.RLIMIT_CORE, (0, 0))
        except Exception:
            pass
    return f


def _killpg(p):
    """every child runs in its own session/process group; the whole group is killed when we are done with it"""
    try:
        os.killpg(p.pid, 9)
    except OSError:
        pass


def run_cases(ctx, cases, timeout_ms=10000, shards=None, binary=None):
    """run `brushverif c01` on cases; a case that hangs gives 'TIMEOUT', one that kills the process 'CRASH';
    the cases after it are re-fed to a fresh process."""
    binary = binary or ctx.harness
    n = len(cases)
    res = [None] * n
    shards = shards or min(core.NPROC, max(1, n // 6))
    chunks = [list(range(i, n, shards)) for i in range(shards)]
    env = dict(os.environ)
    env["VERIF_SCRATCH"] = core.SCRATCH
    env["C01_TIMEOUT_MS"] = str(timeout_ms)
    os.makedirs(core.SCRATCH, exist_ok=True)
    work = os.path.join(core.SCRATCH, "c01-cwd")
    os.makedirs(work, exist_ok=True)

    def feed(idx):
        todo = list(idx)
        while todo:
            lines = [core.enc_case(cases[i]) for i in todo]
            p = subprocess.Popen([binary, "c01"], stdin=subprocess.PIPE, stdout=subprocess.PIPE,
                                 stderr=subprocess.DEVNULL, env=env, cwd=work, preexec_fn=_limit(600),
                                 start_new_session=True)
            try:
                o, _ = p.communicate(("\n".join(lines) + "\n").encode(), timeout=timeout_ms / 1000.0 * len(todo) + 120)
            except subprocess.TimeoutExpired:
                _killpg(p)
                o, _ = p.communicate()
            _killpg(p)
            got = o.decode("utf-8", "replace").split("\n")
            if got and got[-1] == "":
                got = got[:-1]
            for j, g in enumerate(got[:len(todo)]):
                res[todo[j]] = g
            k = min(len(got), len(todo))
            if k < len(todo) and not (k > 0 and got[k - 1].startswith("TIMEOUT")):
                res[todo[k]] = "CRASH"      # the process died while running this case
                k += 1
            todo = todo[k:]
    ths = [threading.Thread(target=feed, args=(ch,)) for ch in chunks if ch]
    [t.start() for t in ths]
    [t.join() for t in ths]
    return res


def dec(tok):
    try:
        return core.unhx(tok).decode("utf-8", "replace")
    except ValueError:
        return tok


def parse_sh(line):
    """-> ('P', msg, loc) | ('T',) | ('C',) | ('R', status, out, err)"""
    if line is None or line == "CRASH" or line == "DIED":
        return ("C",)
    if line.startswith("TIMEOUT"):
        return ("T",)
    p = line.split(" ")
    if p[0] == "PANIC":
        return ("P", dec(p[1]) if len(p) > 1 else "", dec(p[2]) if len(p) > 2 else "")
    try:
        return ("R", int(p[0]), dec(p[1]), dec(p[2]))
    except (ValueError, IndexError):
        return ("R", -99, line, "")


def parse_api(line):
    if line is None or line in ("CRASH", "DIED"):
        return ("C",)
    if line.startswith("TIMEOUT"):
        return ("T",)
    p = line.split(" ")
    if p[0] == "PANIC":
        return ("P", dec(p[1]) if len(p) > 1 else "", dec(p[2]) if len(p) > 2 else "")
    if p[0] == "OK":
        return ("OK",) + tuple(dec(x) for x in p[1:])
    return (p[0],)


# ------------------------------------------------------------------ per-core: cases, code runs, canonical results

def digits_abs(tok):
    return int(tok.lstrip("+-"))


def tok_known_number(tok):
    return digits_abs(tok) > I64MAX


def tok_value_fixed(tok):
    v = int(tok)
    return v if I64MIN <= v <= I64MAX else None


def canon_sh(r, ok):
    """r = parse_sh(...); ok(status,out,err) -> canonical string for a completed run"""
    if r[0] == "P":
        return "P"
    if r[0] == "T":
        return "O"
    if r[0] == "C":
        return "C"
    return ok(r[1], r[2], r[3])


class Core:
    """one modelled core: cases -> (model case fields, harness case fields, canonicaliser)"""

    def __init__(self, name):
        self.name = name
        self.items = []      # dicts: label, model (fields), code (fields), canon (fn), pre (orig override), nontrivial

    def add(self, **kw):
        self.items.append(kw)


def build_cores(ctx, rng):
    cores = []
    big = not ctx.quick

    # ---- number(): tokens through parse_brace_expansions("{tok..0}")
    c = Core("number")
    for tok in G.number_tokens(rng, 400 if big else 160):
        def canon(r, tok=tok):
            if r[0] in ("P", "T", "C"):
                return {"P": "P", "T": "O", "C": "C"}[r[0]]
            if r[0] != "OK":
                return "F"
            try:
                j = json.loads(r[1])
            except Exception:
                return "?json"
            if j and isinstance(j[0], dict) and "Expr" in j[0]:
                m = j[0]["Expr"][0]
                if "NumberSequence" in m:
                    return "V%d" % m["NumberSequence"]["start"]
            return "F"
        c.add(label=tok, model=[tok], code=["brace", "{%s..0}" % tok], api=True, canon=canon,
              nontrivial=len(tok.lstrip("+-")) > 17)
    cores.append(c)

    # ---- number sequences through the shell
    c = Core("numseq")
    for (s, e, i) in G.numseq_cases(rng, 700 if big else 260):
        toks = [s, e] + ([i] if i is not None else [])
        word = "{" + "..".join(toks) + "}"
        pre = None
        if any(tok_known_number(t) for t in toks):
            pre = ("P", KF["number"])
        vals = [tok_value_fixed(t) for t in toks]
        fixed_override = "F" if any(v is None for v in vals) else None

        def canon(r, word=word):
            return canon_sh(r, lambda st, out, err: "F" if out.strip() == word else "V" + out.strip())
        mi = i if i is not None else "1"
        c.add(label=word, model=[str(int(s)), str(int(e)), str(int(mi))], code=["sh", "echo " + word, ""], canon=canon,
              pre=pre, fixed_override=fixed_override, nontrivial=True)
    cores.append(c)

    # ---- char sequences
    c = Core("charseq")
    for (s, e, i) in G.charseq_cases(rng, 500 if big else 200):
        toks = [s, e] + ([i] if i is not None else [])
        word = "{" + "..".join(toks) + "}"
        pre = ("P", KF["number"]) if (i is not None and tok_known_number(i)) else None
        fixed_override = "F" if (i is not None and tok_value_fixed(i) is None) else None

        def canon(r, word=word):
            return canon_sh(r, lambda st, out, err: "F" if out.strip() == word else "V" + out.strip().replace(" ", ""))
        mi = i if i is not None else "1"
        c.add(label=word, model=[s, e, str(int(mi))], code=["sh", "echo " + word, ""], canon=canon, pre=pre,
              fixed_override=fixed_override, nontrivial=True, timeout=True)
    cores.append(c)

    # ---- substring
    c = Core("substr")
    for (kind, vals, off, ln) in G.substr_cases(rng, 900 if big else 320):
        def lit(z):
            return "(-9223372036854775807-1)" if z == I64MIN else "(%d)" % z
        spec = ":" + lit(off) + ("" if ln is None else ":" + lit(ln))
        if kind == "scalar":
            script = "x='%s'; printf '<%%s>' \"${x%s}\"" % (vals[0], spec)
            fields = [vals[0]]
            arr = "0"
        elif kind == "array":
            script = "a=(%s); set -- \"${a[@]%s}\"; printf '%%s|' \"$#\"; printf '<%%s>' \"$@\"" % (
                " ".join("'%s'" % v for v in vals), spec)
            fields = list(vals)
            arr = "1"
        else:   # positional parameters: $0 is part of the array being sliced
            script = "set -- %s; set -- \"${@%s}\"; printf '%%s|' \"$#\"; printf '<%%s>' \"$@\"" % (
                " ".join("'%s'" % v for v in vals), spec)
            fields = ["brush"] + list(vals)
            arr = "2"

        def canon(r, kind=kind):
            def ok(st, out, err):
                if st != 0 or (out == "" and err != ""):
                    return "F"
                if kind == "scalar":
                    return "V" + out.replace("<", "").replace(">", "")
                n, _, rest = out.partition("|")
                return "V" + ("" if n == "0" else rest)
            return canon_sh(r, ok)

        def mcanon(s, kind=kind):
            if kind == "scalar" and s.startswith("V"):
                return "V" + s[1:].replace("<", "").replace(">", "")
            return s
        c.add(label=script, model=[arr, str(off), "" if ln is None else str(ln)] + fields, code=["sh", script, ""],
              canon=canon, mcanon=mcanon, nontrivial=(ln is not None or off < 0))
    cores.append(c)

    # ---- integer +=
    c = Core("intappend")
    for (site, b, s) in G.intappend_cases(rng, 600 if big else 240):
        if site == 0:
            script = "x='%s'; declare -i x; x+='%s'; printf '%%s' \"$x\"" % (b, s)
        elif site == 1:
            script = "declare -ia a; a[0]='%s'; a[0]+='%s'; printf '%%s' \"${a[0]}\"" % (b, s)
        else:
            script = "declare -iA a; a[k]='%s'; a[k]+='%s'; printf '%%s' \"${a[k]}\"" % (b, s)

        def canon(r):
            return canon_sh(r, lambda st, out, err: "V" + out if st == 0 else "F")
        c.add(label=script, model=[b, s], code=["sh", script, ""], canon=canon, nontrivial=True)
    cores.append(c)

    # ---- array literal keys
    c = Core("arraykeys")
    for (last, lits) in G.arraykeys_cases(rng, 500 if big else 200):
        def litsrc(l):
            return " ".join(("[%s]=v" % k) if k is not None else "v" for k in l)
        if last is None:
            script = "a=(%s); echo \"${!a[@]}\"" % litsrc(lits)
        else:
            script = "a=([%s]=x); a+=(%s); echo \"${!a[@]}\"" % (last, litsrc(lits))

        def canon(r):
            return canon_sh(r, lambda st, out, err: "V" + out.strip() if st == 0 else "F")
        last_eff = None if last is None else (int(last) if int(last) <= U64MAX else 0)   # parse::<u64>().unwrap_or(0)
        c.add(label=script, model=[("" if last is None else str(last_eff))] + [("k" + k) if k is not None else "n" for k in lits],
              code=["sh", script, ""], canon=canon, arraykeys=(last, lits), nontrivial=True)
    cores.append(c)

    # ---- indexed key (negative indices)
    c = Core("indexedkey")
    for (count, idx) in G.indexedkey_cases(rng, 200 if big else 80):
        lit = "(-9223372036854775807-1)" if idx == I64MIN else str(idx)
        script = "a=(%s); a[%s]=NEW; for k in \"${!a[@]}\"; do [ \"${a[$k]}\" = NEW ] && echo $k; done" % (
            " ".join("v" for _ in range(count)), lit)

        def canon(r):
            return canon_sh(r, lambda st, out, err: "V" + out.strip() if out.strip() else "F")
        c.add(label=script, model=[str(count), str(idx)], code=["sh", script, ""], canon=canon, nontrivial=idx < 0)
    cores.append(c)

    # ---- capitalize (needs the case-mapping oracle first; filled by run_cores)
    c = Core("capitalize")
    for s in G.capitalize_cases(rng, 300 if big else 120):
        script = "declare -c x; x='%s'; printf '%%s' \"$x\"" % s

        def canon(r):
            return canon_sh(r, lambda st, out, err: "V" + out if st == 0 else "F")
        c.add(label=script, model=None, oracle=["case", s], code=["sh", script, ""], canon=canon,
              nontrivial=bool(s) and ord(s[0]) > 127)
    cores.append(c)

    # ---- tilde digits
    c = Core("tilde")
    for (prefix, ds) in G.tilde_cases(rng, 240 if big else 100):
        word = "~" + prefix + ds

        def canon(r, prefix=prefix):
            if r[0] in ("P", "T", "C"):
                return {"P": "P", "T": "O", "C": "C"}[r[0]]
            if r[0] != "OK":
                return "F"
            j = json.loads(r[1])
            t = j[0]["piece"].get("TildeExpansion") if j and "piece" in j[0] else None
            if isinstance(t, dict):
                for k in ("NthDirFromTopOfDirStack", "NthDirFromBottomOfDirStack"):
                    if k in t:
                        return "V%d" % t[k]["n"]
            return "F"
        c.add(label=word, model=[ds], code=["word", word], api=True, canon=canon, nontrivial=len(ds) > 18)
    cores.append(c)

    # ---- directory stack lookup
    c = Core("dirstack")
    dirs = ["/", "/tmp", "/var", "/usr", "/etc"]
    for (count, n, plus) in G.dirstack_cases(rng, 120 if big else 60):
        script = "cd /; " + "".join("pushd %s >/dev/null; " % d for d in dirs[1:count + 1]) + "echo ~%s%d" % ("+" if plus else "", n)
        stack = dirs[:count]
        cwd = dirs[count]

        def canon(r, stack=stack, cwd=cwd, n=n, plus=plus):
            def ok(st, out, err):
                o = out.strip()
                if o == cwd and n == 0:
                    return "Vnone"
                if o == "~%s%d" % ("+" if plus else "", n):
                    return "Vnone"
                if o in stack:
                    return "V%d" % stack.index(o)
                return "?" + o
            return canon_sh(r, ok)
        c.add(label=script, model=[str(count), str(n)], code=["sh", script, ""], canon=canon, nontrivial=n > 0)
    cores.append(c)

    # ---- history display (the number of entries is read back from the code: `history` without argument first)
    c = Core("history")
    for (count, mx) in G.history_cases(rng, 160 if big else 70):
        script = "HISTFILE=/dev/null; history -c; " + "".join("history -s c%d; " % k for k in range(count)) + "history; echo ===; history" + ("" if mx is None else " %s" % mx)
        mval = None
        if mx is not None:
            try:
                v = int(mx)
                mval = v if (0 <= v <= U64MAX and not mx.startswith("-")) else "bad"
            except ValueError:
                mval = "bad"

        def split(out):
            a, sep, b = out.partition("===\n")
            return (a, b) if sep else (out, None)

        def canon(r):
            def ok(st, out, err):
                a, b = split(out)
                if st != 0 or b is None:
                    return "F"
                nums = [l.split()[0] for l in b.split("\n") if l.strip()]
                return "V" + " ".join(nums)
            return canon_sh(r, ok)

        def model_from_code(r, mval=mval):
            n = 0
            if r[0] == "R":
                n = len([l for l in split(r[2])[0].split("\n") if l.strip()])
            elif r[0] == "P":
                n = -1
            return [str(n), "" if mval in (None, "bad") else str(mval)]
        c.add(label=script, model=None, model_from_code=model_from_code, code=["sh", script, "interactive,noenv"],
              canon=canon, fixed_override=("F" if mval == "bad" else None), orig_override=("F" if mval == "bad" else None),
              count=count, nontrivial=mx is not None)
    cores.append(c)

    # ---- pow / deref
    c = Core("pow")
    for (b, e) in G.pow_cases(rng, 300 if big else 120):
        bl = "(-9223372036854775807-1)" if b == I64MIN else "(%d)" % b
        script = "echo $(( %s ** %d ))" % (bl, e)

        def canon(r):
            return canon_sh(r, lambda st, out, err: "V" + out.strip() if st == 0 and out.strip() else "F")
        c.add(label=script, model=[str(b), str(e)], code=["sh", script, ""], canon=canon, nontrivial=e > 1)
    cores.append(c)

    c = Core("deref")
    for cells in G.deref_cases(rng, 60 if big else 30):
        script = "".join("v%d=%s; " % (k, ("v%d" % cl[1]) if cl[0] == "r" else str(cl[1])) for k, cl in enumerate(cells))
        script += "echo $(( v0 ))"

        def canon(r):
            return canon_sh(r, lambda st, out, err: "V" + out.strip() if st == 0 and out.strip() else "F")
        c.add(label=script[-60:], model=[("r%d" % cl[1]) if cl[0] == "r" else ("l%d" % cl[1]) for cl in cells],
              code=["sh", script, ""], canon=canon, nontrivial=len(cells) > 2)
    cores.append(c)
    # ---- ${v^} / ${v,} / ${v@u}: pattern_to_first_char (the case mapping of the first character is an oracle input)
    c = Core("firstchar")
    for (val, op, pat) in G.firstchar_cases(rng, 400 if big else 220):
        exp = "${x@u}" if op == "@u" else "${x%s%s}" % (op, pat or "")
        script = "x='%s'; printf '%%s' \"%s\"" % (val, exp)

        def canon(r):
            return canon_sh(r, lambda st, out, err: "V" + out if st == 0 else "F")
        c.add(label=script, model=None, oracle=["casemap", val], firstchar=(val, op, pat), code=["sh", script, ""], canon=canon,
              nontrivial=bool(val) and ord(val[0]) > 127)
    cores.append(c)

    c = Core("aderef")
    for (expr, scalars, arrays) in G.aderef_cases(rng, 160 if big else 70):
        script = G.aderef_script(expr, scalars, arrays, "echo $(( %s ))")
        fields = [G.aexp_wire(expr), str(len(scalars))] + [G.aexp_wire(x) for x in scalars]
        for arr in arrays:
            fields += [str(len(arr))] + [G.aexp_wire(x) for x in arr]

        def canon(r):
            return canon_sh(r, lambda st, out, err: "V" + out.strip() if st == 0 and out.strip() else "F")
        c.add(label=script, model=fields, code=["sh", script, ""], canon=canon, nontrivial=len(arrays) > 0)
    cores.append(c)
    return cores


def sorted_keys(keys):
    return " ".join(str(k) for k in sorted(set(keys)))


def run_cores(ctx, cores):
    """returns (evaluations, mismatches, spec_violations, stats, model_cases_for_crosscheck)"""
    mism, specv = [], []
    stats = {}
    xcheck = []
    evals = 0
    import time
    for c in cores:
        tc = time.time()
        items = c.items
        # oracle inputs (capitalize)
        if any(it.get("oracle") for it in items):
            oc = run_cases(ctx, [it["oracle"] for it in items])
            for it, line in zip(items, oc):
                r = parse_api(line)
                up, lo = (r[1] if len(r) > 1 else "", r[2] if len(r) > 2 else "") if r[0] == "OK" else ("", "")
                if it.get("firstchar"):
                    val, op, pat = it["firstchar"]
                    applicable = "0" if pat == "#" else "1"
                    it["model"] = [val, applicable, lo if op == "," else up]
                else:
                    it["model"] = [up, lo]
        slow = any(it.get("timeout") for it in items)
        code = run_cases(ctx, [it["code"] for it in items], timeout_ms=(2500 if slow else 20000))
        entry = "c01_" + c.name
        for it, cl in zip(items, code):
            if it.get("model_from_code"):
                it["model"] = it["model_from_code"](parse_sh(cl))
                if it["model"][0] == "-1":       # the run panicked before the count could be read: use the entries added
                    it["model"][0] = str(it["count"])
        if c.name == "arraykeys":
            # two-step composition: a=([last]=x) then a+=(lits)
            m1_cases, m2_cases = [], []
            for it in items:
                last, lits = it["arraykeys"]
                m1_cases.append(["", "k%s" % last] if last is not None else [""])
                m2_cases.append(it["model"])
            m1 = ctx.model(entry, m1_cases)
            m2 = ctx.model(entry, m2_cases)
            model = []
            for it, a, b in zip(items, m1, m2):
                last, lits = it["arraykeys"]
                fa, fb = core.dec_line(a), core.dec_line(b)
                out = []
                for col in (0, 1):
                    ra, rb = fa[col], fb[col]
                    if last is not None and ra == "P":
                        out.append("P")
                    elif rb[0] != "V":
                        out.append(rb)
                    else:
                        ks = [int(x) for x in rb[1:].split()] + ([int(x) for x in ra[1:].split()] if last is not None else [])
                        out.append("V" + sorted_keys(ks))
                known = fb[2] == "1" or (last is not None and fa[2] == "1")
                model.append(core.enc_case(out + ["1" if known else "0"]))
            xcheck += [(entry, mc) for mc in m2_cases[:4]]
        else:
            model = ctx.model(entry, [it["model"] for it in items])
            xcheck += [(entry, it["model"]) for it in items[:: max(1, len(items) // 4)][:4]]
        st = {"cases": len(items), "code_P": 0, "code_hang": 0, "orig_only": 0, "fixed_only": 0, "both": 0, "known_class": 0,
              "nontrivial": 0}
        for it, cl, ml in zip(items, code, model):
            evals += 1
            mf = core.dec_line(ml)
            if len(mf) != 3:
                raise core.CheckBroken("model entry %s returned %r for %r" % (entry, mf, it["model"]))
            o, f, k = mf
            mc = it.get("mcanon")
            if mc:
                o, f = mc(o), mc(f)
            kid = KF.get(c.name)
            if it.get("pre"):
                o, kid = it["pre"]
                k = "1"
            if it.get("orig_override"):
                o = it["orig_override"]
            if it.get("fixed_override"):
                f = it["fixed_override"]
            r = (parse_api if it.get("api") else parse_sh)(cl)
            got = it["canon"](r)
            if it.get("nontrivial"):
                st["nontrivial"] += 1
            if k == "1":
                st["known_class"] += 1
            bad = got in ("P", "O", "C")
            if got == "P":
                st["code_P"] += 1
            if got == "O":
                st["code_hang"] += 1
            if got == f and got == o:
                st["both"] += 1
            elif got == f:
                st["fixed_only"] += 1
            elif got == o:
                st["orig_only"] += 1
            else:
                mism.append({"core": c.name, "input": it["label"], "code": got[:300], "model_pinned": o[:300], "model_repaired": f[:300],
                             "raw": (cl or "")[:200]})
            if bad:
                v = {"input": {"core": c.name, "case": it["label"], "harness_case": it["code"]},
                     "why": "the code %s: %s" % ({"P": "panicked", "O": "did not finish within the per-case timeout", "C": "killed the process"}[got],
                                                 " ".join(str(x) for x in r[1:3])[:300])}
                if k == "1" and got == o and kid:
                    v["known"] = kid
                specv.append(v)
        st["seconds"] = round(time.time() - tc, 1)
        stats[c.name] = st
    return evals, mism, specv, stats, xcheck


# ------------------------------------------------------------------ exploration of the whole pipeline

def panic_function(loc):
    """map 'path/file.rs:LINE' to 'file.rs::<enclosing fn or rule>' by reading the source (line numbers move)"""
    m = re.match(r"(.*?/)?((brush-[a-z-]+)/src/[\w/]+\.rs):(\d+)", loc or "")
    if not m:
        if "library/alloc/src/string.rs" in (loc or ""):
            return "library/alloc/src/string.rs"
        if re.search(r"tokio-[\d.]+/src/runtime/task/core.rs", loc or ""):
            return "tokio::runtime/task/core.rs"
        if "library/core/src/time.rs" in (loc or "") or "library/std/src/time.rs" in (loc or ""):
            return "std::time"
        if "library/alloc/src/raw_vec" in (loc or ""):
            return "library/alloc/src/raw_vec"
        return loc or "?"
    rel, line = m.group(2), int(m.group(4))
    path = os.path.join(core.REPO, rel)
    try:
        src = open(path, encoding="utf-8").read().split("\n")
    except OSError:
        return rel
    for k in range(min(line, len(src)) - 1, -1, -1):
        mm = re.match(r"\s*(?:pub(?:\([a-z]+\))?\s+)?(?:const\s+)?(?:async\s+)?(?:fn|rule)\s+(\w+)", src[k])
        if mm:
            return "%s::%s" % (rel, mm.group(1))
    return rel


# known classes for whole-script exploration: (finding id, function the panic is raised in, message fragment,
# textual precondition on the script)
_BIGNUM = re.compile(r"\d{19,}")
KNOWN_EXPLORE = [
    (KF["number"], "brush-parser/src/word.rs::number", "ParseIntError", lambda s: ".." in s and _BIGNUM.search(s)),
    (KF["tilde"], "brush-parser/src/word.rs::tilde_expression", "ParseIntError", lambda s: "~" in s and _BIGNUM.search(s)),
    (KF["numseq"], "brush-core/src/braceexpansion.rs::expand_brace_expr_member", "subtract with overflow",
     lambda s: ".." in s),
    (KF["charseq"], "brush-core/src/braceexpansion.rs::expand_brace_expr_member", "subtract with overflow",
     lambda s: ".." in s),
    (KF["substr"], "brush-core/src/expansion.rs::polymorphic_subslice", "subtract with overflow",
     lambda s: "${" in s and ":" in s),
    (KF["intappend"], "brush-core/src/variables.rs::assign", "add with overflow", lambda s: "+=" in s),
    (KF["intappend"], "brush-core/src/variables.rs::assign_at_index", "add with overflow", lambda s: "+=" in s),
    (KF["arraykeys"], "brush-core/src/variables.rs::update_indexed_array_from_literals", "add with overflow",
     lambda s: "18446744073709551615" in s),
    (KF["capitalize"], "brush-core/src/variables.rs::apply_value_transforms", "boundary",
     lambda s: re.search(r"-[a-zA-Z]*c", s) and any(ord(ch) > 127 for ch in s)),
    (KF["history"], "brush-builtins/src/history.rs::display_history", "subtract with overflow", lambda s: "history" in s),
    (KF["ionumber"], "brush-parser/src/parser/peg.rs::io_number", "ParseIntError", lambda s: re.search(r"\d{10,}[<>]", s)),
    (KF["strftime"], "library/alloc/src/string.rs", "a Display implementation returned an error unexpectedly",
     lambda s: "D{" in s or "HISTTIMEFORMAT" in s),
    (KF["bracealloc"], "library/alloc/src/raw_vec", "capacity overflow", lambda s: G.too_big(s)),
    (KF["caller"], "brush-builtins/src/caller.rs::execute", "add with overflow",
     lambda s: re.search(r"\bcaller\s+18446744073709551615\b", s)),
    (KF["mapfile"], "brush-builtins/src/mapfile.rs::execute", "add with overflow",
     lambda s: re.search(r"\b(mapfile|readarray)\b[^;|&]*-O\s*92233720368547758\d\d", s)),
    (KF["fc"], "brush-builtins/src/fc.rs::resolve_position", "negate with overflow", lambda s: re.search(r"\bfc\b.*-9223372036854775808", s)),
    (KF["ulimit"], "brush-builtins/src/ulimit.rs::set", "multiply with overflow", lambda s: re.search(r"\bulimit\b.*\d{16,}", s)),
    (KF["readt"], "std::time", "Duration", lambda s: re.search(r"\bread\b[^;|&]*-t\s*\d{16,}", s)),
    (KF["readt"], "std::time", "overflow when adding duration to instant", lambda s: re.search(r"\bread\b[^;|&]*-t\s*\d{16,}", s)),
    (KF["waitjob"], "tokio::runtime/task/core.rs", "JoinHandle polled after completion", lambda s: "&" in s and "wait" in s),
]
_CHARHANG = re.compile(r"\{[A-Za-z]\.\.[A-Za-z]\.\.[+-]?(\d+)\}")


_OPEN = None


def is_open(kid):
    global _OPEN
    if _OPEN is None:
        _OPEN = {f["id"] for f in core.load_known(PID) if f.get("status") == "open"}
    return kid in _OPEN


def prefer_open(kids):
    """a case may fall into several recorded classes: attribute it to an OPEN one when there is one (a class whose
    finding is fixed no longer excuses anything: the driver turns it into a plain VIOLATION)"""
    kids = [k for k in kids if k]
    for k in kids:
        if is_open(k):
            return k
    return kids[0] if kids else None


def classify_panic(script, msg, loc):
    fn = panic_function(loc)
    return prefer_open([kid for kid, f, frag, pre in KNOWN_EXPLORE if fn == f and frag in msg and pre(script)]), fn


def known_hang(script):
    kids = []
    for m in _CHARHANG.finditer(script):
        if int(m.group(1)) >= 2 ** 32:
            kids.append(KF["charseq"])
    if len(re.findall(r"\bcase\b", script)) >= 12:
        kids.append(KF["casenest"])
    if re.search(r"""<<-?[ \t]*(''|"")""", script):
        kids.append(KF["heredoc"])
    if any(w.count("{") - w.count("}") >= 8 for w in script.split()):
        kids.append(KF["bracenest"])
    if re.search(r"(\(\s*){20,}", script):
        kids.append(KF["parennest"])
    if re.search(r"(\w+\[){5,}", script):
        kids.append(KF["subscriptnest"])
    if G.too_big(script):
        kids.append(KF["bracealloc"])     # the eager collect() of a huge range: allocation failure / no end in sight
    return prefer_open(kids)


_LOOPWORD = re.compile(r"\b(while|until|for|select)\b")


def deloop(script):
    return re.sub(r"\bdo\b", "do break;", script)


def bash_terminates(script, timeout=5):
    """False when bash does not finish either, or when the comparison is inconclusive: the script contains a loop and bash
    stops early with an error (a mutant that bash rejects as a syntax error may legitimately loop forever in brush,
    which accepts e.g. extglob patterns that bash does not)"""
    try:
        p = subprocess.Popen(["/usr/bin/bash", "-c", script], stdin=subprocess.DEVNULL, stdout=subprocess.DEVNULL,
                             stderr=subprocess.DEVNULL, cwd=os.path.join(core.SCRATCH, "c01-cwd"), preexec_fn=_limit(20),
                             start_new_session=True)
        try:
            p.communicate(timeout=timeout)
        finally:
            _killpg(p)
        if p.returncode != 0 and _LOOPWORD.search(script):
            return False
        return True
    except subprocess.TimeoutExpired:
        return False
    except Exception:
        return True


def finishes_given_time(ctx, script, timeout=150):
    """the real CLI, alone, with a generous bound (and 8 GiB of address space): does the run end in a status?"""
    def lim():
        try:
            resource.setrlimit(resource.RLIMIT_AS, (8 << 30, 8 << 30))
            resource.setrlimit(resource.RLIMIT_CPU, (timeout, timeout + 5))
            resource.setrlimit(resource.RLIMIT_CORE, (0, 0))
        except Exception:
            pass
    work = os.path.join(core.SCRATCH, "c01-cwd")
    os.makedirs(work, exist_ok=True)
    try:
        p = subprocess.Popen([ctx.vbrush, "--norc", "--noprofile", "-c", script], stdin=subprocess.DEVNULL,
                             stdout=subprocess.DEVNULL, stderr=subprocess.DEVNULL, cwd=work, preexec_fn=lim,
                             start_new_session=True)
    except Exception:
        return False
    try:
        p.communicate(timeout=timeout)
        return p.returncode is not None and 0 <= p.returncode and p.returncode not in (101, 134)
    except subprocess.TimeoutExpired:
        return False
    finally:
        _killpg(p)


def run_vbrush(ctx, scripts, timeout=10, jobs=None):
    """process-level: the real CLI on `-c script`; returns list of ('P',msg,loc)|('T',)|('S',signal)|('R',rc)"""
    jobs = jobs or min(core.NPROC, 8)
    res = [None] * len(scripts)
    work = os.path.join(core.SCRATCH, "c01-cwd")
    os.makedirs(work, exist_ok=True)
    env = dict(os.environ)
    env["RUST_BACKTRACE"] = "0"

    def one(i):
        p = subprocess.Popen([ctx.vbrush, "--norc", "--noprofile", "-c", scripts[i]], stdin=subprocess.DEVNULL,
                             stdout=subprocess.DEVNULL, stderr=subprocess.PIPE, cwd=work, env=env, preexec_fn=_limit(30),
                             start_new_session=True)
        try:
            _, err = p.communicate(timeout=timeout)
        except subprocess.TimeoutExpired:
            try:
                os.killpg(p.pid, 9)
            except OSError:
                p.kill()
            p.communicate()
            res[i] = ("T",)
            return
        _killpg(p)
        err = err.decode("utf-8", "replace")
        m = re.search(r"panicked at ([^\n]*?):(\d+):\d+:\n?([^\n]*)", err)
        if m or p.returncode in (101, 134):
            res[i] = ("P", m.group(3) if m else err[-200:], "%s:%s" % (m.group(1), m.group(2)) if m else "")
        elif p.returncode < 0:
            res[i] = ("S", -p.returncode)
        else:
            res[i] = ("R", p.returncode)

    def worker(k):
        for i in range(k, len(scripts), jobs):
            one(i)
    ths = [threading.Thread(target=worker, args=(k,)) for k in range(jobs)]
    [t.start() for t in ths]
    [t.join() for t in ths]
    return res


def shrink(script, still_fails, budget=60):
    """delta debugging on lines, then on blank-separated tokens"""
    def dd(parts, joiner):
        n = 2
        nonlocal budget
        while len(parts) >= 2 and budget > 0:
            size = max(1, len(parts) // n)
            reduced = False
            for i in range(0, len(parts), size):
                cand = parts[:i] + parts[i + size:]
                if not cand:
                    continue
                budget -= 1
                if still_fails(joiner.join(cand)):
                    parts = cand
                    n = max(n - 1, 2)
                    reduced = True
                    break
                if budget <= 0:
                    break
            if not reduced:
                if size == 1:
                    break
                n = min(n * 2, len(parts))
        return parts
    lines = dd(script.split("\n"), "\n")
    s = "\n".join(lines)
    toks = dd(s.split(" "), " ")
    return " ".join(toks)


def explore(ctx, rng, scale):
    """whole-pipeline exploration; returns (evaluations, spec_violations, stats)"""
    import time
    specv = []
    stats = {}
    evals = 0
    tp = [time.time()]
    inproc, procs = G.scripts(rng, scale)
    # (1) in-process under catch_unwind
    res = run_cases(ctx, [["sh", s, o] for (s, o) in inproc], timeout_ms=8000)
    evals += len(inproc)
    st = {"scripts": len(inproc), "panics": 0, "timeouts": 0, "crashes": 0, "nonterminating_in_bash_too_or_inconclusive": 0, "status_nonzero": 0}
    suspects = []
    for (s, o), line in zip(inproc, res):
        r = parse_sh(line)
        if r[0] == "P":
            st["panics"] += 1
            suspects.append((s, o, r))
        elif r[0] == "T":
            st["timeouts"] += 1
            suspects.append((s, o, r))
        elif r[0] == "C":
            st["crashes"] += 1
            suspects.append((s, o, r))
        elif r[1] != 0:
            st["status_nonzero"] += 1
    stats["inprocess"] = st
    seen = {}
    for s, o, r in suspects:
        if r[0] == "P":
            kid, fn = classify_panic(s, r[1], r[2])
            key = (kid, fn)
            if key in seen:
                seen[key]["count"] += 1
                continue

            def fails(cand, fn=fn, o=o):
                rr = parse_sh(run_cases(ctx, [["sh", cand, o]], shards=1)[0])
                return rr[0] == "P" and panic_function(rr[2]) == fn
            small = shrink(s, fails) if len(s) > 60 else s
            v = {"input": {"script": small, "opts": o, "original": s[:2000]}, "count": 1,
                 "why": "panic in %s: %s (in-process run under catch_unwind)" % (fn, r[1][:200])}
            if kid:
                v["known"] = kid
            seen[key] = v
            specv.append(v)
        else:
            kid = known_hang(s)
            if r[0] == "T" and not (kid and is_open(kid)) and not bash_terminates(s):
                st["nonterminating_in_bash_too_or_inconclusive"] += 1
                continue
            if r[0] == "T" and not (kid and is_open(kid)) and _LOOPWORD.search(s):
                # a script-level loop that never ends because brush evaluates its condition differently from bash is a
                # semantic deviation (other properties), not a hang of the shell: the same script with every loop body
                # cut short by `break` must still hang to count here
                s2 = deloop(s)
                r2 = parse_sh(run_cases(ctx, [["sh", s2, o]], timeout_ms=8000, shards=1)[0])
                if r2[0] != "T":
                    st["loop_divergence"] = st.get("loop_divergence", 0) + 1
                    st.setdefault("loop_divergence_samples", []).append(s[:300])
                    continue
            if r[0] == "T" and not (kid and is_open(kid)) and finishes_given_time(ctx, s):
                # slow, not hung: the work is proportional to what the script asks for (`printf '%.2147483647d' 1` prints
                # 2 GiB: 3 s in bash, 10 s in a debug build of brush) and ends in a status
                st["slow_but_finishing"] = st.get("slow_but_finishing", 0) + 1
                st.setdefault("slow_but_finishing_samples", []).append(s[:200])
                continue
            if r[0] == "C" and not (kid and is_open(kid)):
                # the process died (abort / OOM / exit): confirm through the CLI binary
                rr = run_vbrush(ctx, [s], timeout=20)[0]
                if rr[0] == "R":
                    continue
                if rr[0] == "T" and not bash_terminates(s):
                    st["nonterminating_in_bash_too_or_inconclusive"] += 1
                    continue
            v = {"input": {"script": s[:4000], "opts": o},
                 "why": "the in-process run %s" % ("did not finish within 8 s although bash finishes" if r[0] == "T" else "killed the harness process")}
            if kid:
                v["known"] = kid
            specv.append(v)
    tp.append(time.time())
    # (2) process level through vbrush
    res = run_vbrush(ctx, procs, timeout=10)
    evals += len(procs)
    st = {"scripts": len(procs), "panics": 0, "timeouts": 0, "signals": 0, "nonterminating_in_bash_too_or_inconclusive": 0}
    for s, r in zip(procs, res):
        if r[0] == "P":
            st["panics"] += 1
            kid, fn = classify_panic(s, r[1], r[2])
            key = (kid, fn)
            if key in seen:
                seen[key]["count"] += 1
                continue
            v = {"input": {"script": s[:4000], "via": "vbrush -c"}, "count": 1, "why": "panic in %s: %s (exit 101 / 'panicked at')" % (fn, r[1][:200])}
            if kid:
                v["known"] = kid
            seen[key] = v
            specv.append(v)
        elif r[0] == "T":
            st["timeouts"] += 1
            kid = known_hang(s)
            if not (kid and is_open(kid)) and not bash_terminates(s):
                st["nonterminating_in_bash_too_or_inconclusive"] += 1
                continue
            if not (kid and is_open(kid)) and _LOOPWORD.search(s) and run_vbrush(ctx, [deloop(s)], timeout=10)[0][0] != "T":
                st["loop_divergence"] = st.get("loop_divergence", 0) + 1
                continue
            v = {"input": {"script": s[:4000], "via": "vbrush -c"}, "why": "no exit within 10 s although bash finishes"}
            if kid:
                v["known"] = kid
            specv.append(v)
        elif r[0] == "S":
            st["signals"] += 1
            v = {"input": {"script": s[:4000], "via": "vbrush -c"}, "why": "terminated by signal %d" % r[1]}
            kid = known_hang(s) if r[1] == 6 else None     # SIGABRT: the address-space limit was hit by a runaway loop
            if kid:
                v["known"] = kid
            specv.append(v)
    stats["process"] = st
    tp.append(time.time())
    # (3) editor entry points: highlighting, completion, prompt expansion
    lines, prompts = G.editor_lines(rng, scale)
    api_cases = [["hlall", l] for l in lines] + [["completeall", l] for l in lines[: max(20, len(lines) // 6)]] + [["prompt", p] for p in prompts]
    res = run_cases(ctx, api_cases, timeout_ms=20000)
    evals += len(api_cases)
    st = {"highlight_lines": len(lines), "prompts": len(prompts), "panics": 0, "timeouts": 0}
    for cse, line in zip(api_cases, res):
        r = parse_api(line)
        if r[0] == "P":
            st["panics"] += 1
            kid, fn = classify_panic(cse[1], r[1], r[2])
            key = ("api", cse[0], fn, kid)
            if key in seen:
                continue
            seen[key] = 1
            v = {"input": {"entry_point": cse[0], "line": cse[1]}, "why": "panic in %s: %s" % (fn, r[1][:200])}
            if kid:
                v["known"] = kid
            specv.append(v)
        elif r[0] in ("T", "C"):
            st["timeouts"] += 1
            v = {"input": {"entry_point": cse[0], "line": cse[1]}, "why": "did not finish / killed the process"}
            kid = known_hang(cse[1])
            if not kid and cse[0] == "completeall" and re.search(r"\$\([^)]*\{[^{}]*\.\.[^{}]*\}", cse[1]):
                kid = KF["complbrace"]
            if kid:
                v["known"] = kid
            specv.append(v)
    stats["editor"] = st
    tp.append(time.time())
    stats["phase_s"] = [round(b - a) for a, b in zip(tp, tp[1:])]
    return evals, specv, stats


# ------------------------------------------------------------------ in-Coq cross-check over several entries at once

def coq_eval_multi(pairs, timeout=900):
    """like core.coq_eval, for (entry, case) pairs of different entries in one batch of coqc processes"""
    def lst(x):
        return "[" + ";".join("%d%%N" % ord(ch) for ch in x) + "]"
    os.makedirs(core.CACHE, exist_ok=True)
    nch = min(core.NPROC, 8, len(pairs)) or 1
    chunks = [pairs[i::nch] for i in range(nch)]
    procs = []
    for k, ch in enumerate(chunks):
        path = os.path.join(core.CACHE, "c01x_%d_%d.v" % (os.getpid(), k))
        with open(path, "w") as f:
            f.write("From BV Require Import Base.Prelude Dispatch.\nSet Printing Width 2000000.\nSet Printing Depth 10000000.\n")
            for entry, c in ch:
                f.write("Eval vm_compute in (dispatch %s %s).\n" % (lst(entry), "[" + ";".join(lst(x) for x in c) + "]"))
        procs.append((path, subprocess.Popen(["coqc", "-noglob", "-Q", os.path.join(core.COQ, "theories"), "BV", path],
                                             stdout=subprocess.PIPE, stderr=subprocess.STDOUT, cwd=core.CACHE)))
    per = []
    for path, p in procs:
        o, _ = p.communicate(timeout=timeout)
        per.append(core.parse_coq_lists(o.decode()))
        for ext in (".v", ".vo", ".vok", ".vos", ".glob"):
            try:
                os.remove(path[:-2] + ext)
            except OSError:
                pass
        try:
            os.remove(os.path.join(core.CACHE, "." + os.path.basename(path)[:-2] + ".aux"))
        except OSError:
            pass
    res = [None] * len(pairs)
    for k, got in enumerate(per):
        for j, v in enumerate(got):
            idx = k + j * nch
            if idx < len(res):
                res[idx] = v
    return res


# ------------------------------------------------------------------ driver entry points

def run(ctx):
    import time
    rng = ctx.rng
    t0 = time.time()
    cores = build_cores(ctx, rng)
    evals, mism, specv, stats, xcheck = run_cores(ctx, cores)
    t1 = time.time()
    e2, sv2, st2 = explore(ctx, rng, 2 if ctx.quick else 8)
    t2 = time.time()
    ctx.notes.append("phase seconds: cores %.0f, exploration %.0f (%s)" % (t1 - t0, t2 - t1, st2.get("phase_s")))
    evals += e2
    specv += sv2
    # extraction cross-check inside Coq
    by_entry = {}
    for entry, mc in xcheck:
        by_entry.setdefault(entry, []).append(mc)
    agree = total = 0
    pairs = [(entry, mc) for entry in sorted(by_entry) for mc in by_entry[entry]]
    ce = coq_eval_multi(pairs)
    for (entry, mc), a in zip(pairs, ce):
        b = ctx.model(entry, [mc])[0]
        total += 1
        if a != b:
            raise core.CheckBroken("extracted runner and vm_compute disagree on %s %r: %r vs %r" % (entry, mc, a, b))
        agree += 1
    t3 = time.time()
    ctx.notes.append("extraction cross-check %.0f s" % (t3 - t2))
    summ = {}
    for v in specv:
        key = (v.get("known") or "UNKNOWN") + ": " + v.get("why", "")[:110]
        summ[key] = summ.get(key, 0) + 1
    ctx.notes.append("violation summary (class: why -> count): %s" % json.dumps(summ, ensure_ascii=False)[:6000])
    nontriv = sum(s["nontrivial"] for s in stats.values())
    samples = []
    for c in cores:
        for it in c.items[:1]:
            samples.append({"core": c.name, "case": it["label"][:200]})
    inproc_n = st2["inprocess"]["scripts"]
    return {
        "evaluations": evals,
        "distinct_nontrivial": nontriv + inproc_n + st2["process"]["scripts"],
        "rule": "per modelled core: boundary sweep (i64/u64 extremes +-1, 2^32 +-1, empty operands, multi-byte first characters, lengths "
                "around each clamp) + random values, run through the in-process shell / parser API and compared with BOTH Gallina twins "
                "(pinned code, repaired code); non-trivial = the case reaches a checked operation with a boundary operand (per-core rule). "
                "Exploration: grammar-directed scripts of every construct (nesting <= 64), token- and byte-level mutants, boundary values in "
                "every numeric slot, in-process under catch_unwind and through the vbrush CLI; every char-boundary cursor of generated "
                "lines for highlight_command and Shell::complete; PS1 with every escape",
        "samples": samples[:12],
        "distribution": {"cores": stats, "exploration": st2},
        "explanation": "PARTIAL: theorems cover the numeric/indexing cores listed in trusted_base; tokenizer, PEG parsers, interpreter, "
                       "builtins, completion, highlighting and prompt expansion are explored (generated and mutated inputs), not proved",
        "extraction_crosscheck": {"cases": total, "agree": agree},
        "model_mismatches": mism,
        "spec_violations": specv,
    }


def search(ctx, res):
    """extended search after a broken tie: the cores' cases again with a different seed and 6x exploration"""
    import random
    rng = random.Random(ctx.seed + 7)
    specv = []
    evals = 0
    class Big:
        quick = False
    bctx = ctx
    q = ctx.quick
    try:
        ctx.quick = False
        cores = build_cores(ctx, rng)
        e, mism, sv, stats, _ = run_cores(ctx, cores)
        evals += e
        specv += [v for v in sv]
        e2, sv2, _ = explore(ctx, rng, 4)
        evals += e2
        specv += sv2
    finally:
        ctx.quick = q
    return {"evaluations": evals, "spec_violations": [v for v in specv if not v.get("known")][:5]}


def run_code_only(ctx):
    import random
    rng = random.Random(ctx.seed)
    e2, sv2, st2 = explore(ctx, rng, 2)
    return {"evaluations": e2, "distinct_nontrivial": e2, "rule": "exploration only (model did not build)", "samples": [],
            "spec_violations": sv2, "distribution": st2}
