"""C13 — shell-quoted output re-reads to the original values."""
import itertools, os, subprocess
from concurrent.futures import ThreadPoolExecutor
from vlib import core

PID = "C13"
ENTRIES = {"c13quote": ("Quote.Entry", "entry_c13_quote"), "c13read": ("Quote.Entry", "entry_c13_read"),
           "c13decode": ("Quote.Entry", "entry_c13_decode"), "c13fmt": ("Quote.Entry", "entry_c13_fmt"),
           "c13readc": ("Quote.Entry", "entry_c13_readc")}
TRUSTED = [
    "modelled, not verified: brush-core/src/escape.rs quote/force_quote/quote_if_needed/backslash_escape/single_quote/"
    "double_quote/ansi_c_quote (hand model over regenerated tables, tied by differential execution at API level)",
    "reader specification Quote/Reader.v (bash quoting rules for one word, conservative): validated against brush "
    "(in-process eval) every run and against /usr/bin/bash (sample in quick, all cases in thorough); not derived from brush",
    "the printing builtins (printf %q, ${v@Q}, ${v@A}, declare -p, declare, set, export -p, alias, trap -p, xtrace) are "
    "covered end-to-end by execution only (text -> eval -> value), not by a Coq model of their formatting code",
]
ASSUMPTIONS = ["values contain no NUL", "non-interactive shell (no history expansion), default PS4, extglob state irrelevant to quoted text"]

# quoting-relevant alphabet
ALPHA = ["'", '"', "\\", "$", "`", "!", " ", "\t", "\n", "\r", "\x01", "\x7f", "é", "~", "#", "=", ":", "-", "a", "7",
         "*", "{", ";", "]", "\x85", "\x9b"]     # incl. DEL followed by an octal digit, C1 controls U+0085 / U+009B
MODES = ["fs", "fd", "fb", "ns", "nd", "nb"]
FORMS = ["q", "qu", "Q", "A", "declp", "set", "declare", "exportp", "arr", "arrA", "assoc", "alias", "aliasall", "trap", "xarg", "xasg"]
# how the text of each form is read back: (reader, expected-shape)
FORM_READER = {"q": ["arg", "asg"], "qu": ["arg", "asg"], "Q": ["arg", "asg"], "A": ["var:v"], "declp": ["var:v"], "set": ["var:v"],
               "declare": ["var:v"], "exportp": ["var:zzv"], "arr": ["var:a"], "arrA": ["var:a"], "assoc": ["var:h"],
               "alias": ["alias:zz"], "aliasall": ["alias:zz"], "trap": ["trap:USR1"], "xarg": ["arg"], "xasg": ["var:w"]}

CTRL = set(chr(i) for i in range(1, 32)) | {"\x7f"}


# ---- decidable classes of the open findings (same definitions as Quote/Proofs.v [Known] etc.)

def known_pos(s):
    """Proofs.v [Known]: a leading ~ or #, or a ~ directly after : or ="""
    return s[:1] in ("~", "#") or ":~" in s or "=~" in s


def has_ctrl(s):
    return any(c in CTRL for c in s)


def octal_reread_class(s):
    """a control character below 0o40 directly followed by an octal digit: printed \\0NN then the digit"""
    return any(1 <= ord(s[i]) < 32 and s[i + 1] in "01234567" for i in range(len(s) - 1))


IF_NEEDED_FORMS = {"q", "set", "declare", "xarg", "xasg", "assoc"}


def applicable(form_or_mode, s, reader):
    """every finding class the failing round trip of value s through the form (or API mode) lies in"""
    f = form_or_mode
    out = []
    if f == "qu":
        if (any(ord(c) > 127 for c in s) and "'" in s) or ":~" in s or "=~" in s:
            out.append("KF-C13-uucore-q")
        return out
    if f == "assoc" and reader == "brush" and "]" in s:
        out.append("KF-C13-assoc-key-bracket")
    if f in ("alias", "aliasall", "trap") and "'" in s:
        out.append("KF-C13-alias-trap-raw")
    if f == "exportp" and any(c in s for c in '"$`\\'):
        out.append("KF-C13-export-p-raw")
    if reader == "brush" and octal_reread_class(s) and f not in ("alias", "aliasall", "trap", "exportp"):
        out.append("KF-C13-ansi-c-octal-reread")
    if (f in IF_NEEDED_FORMS or f in ("ns", "nd", "nb", "fb")) and known_pos(s) and not has_ctrl(s):
        out.append("KF-C13-tilde-hash")
    return out


_OPEN = None


def open_ids():
    global _OPEN
    if _OPEN is None:
        _OPEN = {f["id"] for f in core.load_known(PID) if f.get("status") == "open"}
    return _OPEN


def pick(classes):
    """an OPEN class whenever one applies; a case lying only in fixed classes is a genuine violation (None)"""
    for k in classes:
        if k in open_ids():
            return k
    return None


def classify(form_or_mode, s, reader):
    return pick(applicable(form_or_mode, s, reader))


# ---- generators

def gen_strings(ctx, maxlen, nrand, rlen=40):
    out = [""]
    for n in range(1, maxlen + 1):
        for t in itertools.product(ALPHA, repeat=n):
            out.append("".join(t))
    ex = len(out)
    rng = ctx.rng
    for _ in range(nrand):
        n = rng.randrange(1, rlen + 1)
        r = rng.random()
        if r < 0.5:
            s = "".join(rng.choice(ALPHA) for _ in range(n))
        elif r < 0.8:   # mostly plain with a few specials
            s = "".join(rng.choice(ALPHA) if rng.random() < 0.25 else rng.choice("abz09_/.") for _ in range(n))
        else:           # arbitrary code points incl. controls and multi-byte
            s = "".join(chr(rng.choice([rng.randrange(1, 128), rng.randrange(1, 128), rng.randrange(128, 0x3000), 0x1F600]))
                        for _ in range(n))
        out.append(s)
    return out, ex


# ---- bash as the second reader

BASH_SCRIPTS = {
    "arg": r'''__f() { printf '%s\0%s\0' "$#" "$1"; }; eval "__f $T"''',
    "asg": r'''eval "x=$T"; printf 's\0%s\0' "$x"''',
    "var": r'''eval "$T"; n=@N@; case $(declare -p $n 2>/dev/null) in "declare -a"*) printf 'a\0';; "declare -A"*) printf 'h\0';; *) printf 's\0%s\0' "${!n}"; exit;; esac; declare -n r=$n; for k in "${!r[@]}"; do printf '%s\0%s\0' "$k" "${r[$k]}"; done''',
    "alias": r'''shopt -s expand_aliases; eval "$T"; printf 's\0%s\0' "${BASH_ALIASES[@N@]}"''',
    "trap": r'''eval "$T"; eval "set -- $(trap -p @N@)"; printf 's\0%s\0' "$3"''',
}


def run_group(cmd, env, cwd, timeout):
    """run a child in its own process group; the whole group is killed on timeout and after completion"""
    import signal
    p = subprocess.Popen(cmd, env=env, cwd=cwd, stdout=subprocess.PIPE, stderr=subprocess.PIPE, stdin=subprocess.DEVNULL,
                         start_new_session=True)
    try:
        out, err = p.communicate(timeout=timeout)
        rc = p.returncode
    except subprocess.TimeoutExpired:
        out, err, rc = b"", b"", None
    finally:
        try:
            os.killpg(p.pid, signal.SIGKILL)
        except (ProcessLookupError, PermissionError):
            pass
        if rc is None:
            try:
                p.communicate(timeout=5)
            except Exception:
                pass
    return rc, out, err


def bash_consume(reader, text, cwd):
    kind, _, name = reader.partition(":")
    script = BASH_SCRIPTS[kind].replace("@N@", name)
    env = {"PATH": "/usr/bin:/bin", "T": text, "LC_ALL": "C.UTF-8"}
    try:
        rc, out, _ = run_group(["/usr/bin/bash", "--norc", "--noprofile", "-c", script], env, cwd, 10)
    except ValueError:   # NUL in text
        return None
    if rc is None:
        return None
    parts = out.decode("utf-8", "replace").split("\0")
    if parts and parts[-1] == "":
        parts = parts[:-1]
    return parts


def bash_many(jobs):
    cwd = os.path.join(core.SCRATCH, "c13-bash-cwd")
    os.makedirs(cwd, exist_ok=True)
    with ThreadPoolExecutor(max_workers=8) as ex:
        res = list(ex.map(lambda j: bash_consume(j[0], j[1], cwd), jobs))
    import shutil
    shutil.rmtree(cwd, ignore_errors=True)
    return res


# ---- expectations

def expected(form, reader, s):
    """what reading the text back must give, in the consumer's field format"""
    if reader == "arg":
        return ["s", "1", "s", s]
    if form in ("arr", "arrA"):
        return ["a", "0", s, "1", "b", "5", s]
    if form == "assoc":
        d = {s: s, "k2": s}
        out = ["h"]
        for k in sorted(d, key=lambda x: x.encode()):
            out += [k, d[k]]
        return out
    return ["s", s]


def norm_bash(form, reader, parts):
    if parts is None:
        return None
    if reader == "arg":
        return ["s", parts[0], "s", parts[1]] if len(parts) >= 2 else parts
    if form == "assoc" and parts and parts[0] == "h":
        kv = sorted(zip(parts[1::2], parts[2::2]), key=lambda x: x[0].encode())
        return ["h"] + [x for p in kv for x in p]
    return parts


def brush_fields(line):
    """consumer line -> (status, fields, stderr_empty)"""
    if line.startswith(("PANIC", "DIED", "TIMEOUT", "?")):
        return None, [line], False
    st, _, rest = line.partition(" ")
    f = core.dec_line(rest)
    e = f[-1] if f else ""
    return st, f[:-1], e == "e0"


def valid_for(form, s):
    if form == "assoc" and s == "":
        return False          # an empty associative key is not a value bash accepts
    if form == "trap" and (s in ("-", "") or s.isdigit()):
        return False          # `trap -- - SIG` resets, '' ignores: not handler strings
    return True


def end_to_end(ctx, extended, specv):
    """C. print in brush -> eval in a fresh brush and in bash -> compare (needs no model)"""
    vals, ex2 = gen_strings(ctx, 2, 250 if ctx.quick else 3000, rlen=24)
    if extended:
        more, _ = gen_strings(ctx, 0, 3000, rlen=40)
        vals = vals + more
    pcases = [(f, s) for s in vals for f in FORMS if valid_for(f, s)]
    prod = ctx.impl("c13produce", [[f, s] for f, s in pcases])
    ccases = []
    for (f, s), line in zip(pcases, prod):
        st, _, h = line.partition(" ")
        text = core.dec_line(h)[0] if (h and not line.startswith(("PANIC", "DIED", "TIMEOUT", "?"))) else None
        if text is None or st != "0":
            specv.append({"input": {"form": f, "value": s}, "why": "printing failed: %s" % line[:200]})
            continue
        for rd in FORM_READER[f]:
            ccases.append((f, s, rd, text))
    cons = ctx.impl("c13consume", [[rd, t] for f, s, rd, t in ccases])
    use_bash = [i for i in range(len(ccases))]
    if ctx.quick and not extended:
        use_bash = sorted(ctx.rng.sample(use_bash, min(2500, len(use_bash))))
    bres = dict(zip(use_bash, bash_many([(ccases[i][2], ccases[i][3]) for i in use_bash])))
    e2e = {"brush_ok": 0, "brush_bad": 0, "bash_ok": 0, "bash_bad": 0}
    per_form = {}
    for i, ((f, s, rd, t), line) in enumerate(zip(ccases, cons)):
        want = expected(f, rd, s)
        st, got, e0 = brush_fields(line)
        pf = per_form.setdefault(f, {"cases": 0, "brush_bad": 0, "bash_bad": 0})
        pf["cases"] += 1
        if got == want and st == "0":
            e2e["brush_ok"] += 1
        else:
            e2e["brush_bad"] += 1
            pf["brush_bad"] += 1
            kf = classify(f, s, "brush")
            if not (kf and sum(1 for v in specv if v.get("known") == kf) > 60):
                specv.append({"input": {"form": f, "value": s, "reader": "brush:" + rd},
                              "why": "brush printed %r; evaluating it in brush gives %r (status %s), expected %r" % (t, got, st, want),
                              **({"known": kf} if kf else {})})
        if i in bres:
            bgot = norm_bash(f, rd, bres[i])
            if bgot == want:
                e2e["bash_ok"] += 1
            else:
                e2e["bash_bad"] += 1
                pf["bash_bad"] += 1
                kf = classify(f, s, "bash")
                if not (kf and sum(1 for v in specv if v.get("known") == kf) > 60):
                    specv.append({"input": {"form": f, "value": s, "reader": "bash:" + rd},
                                  "why": "brush printed %r; evaluating it in bash gives %r, expected %r" % (t, bgot, want),
                                  **({"known": kf} if kf else {})})

    return e2e, per_form, pcases, ccases, vals


def run(ctx, extended=False):
    notes = []
    mism, specv = [], []
    spec_vs_bash = {"cases": 0, "agree": 0, "disagree": []}
    spec_vs_brush_reader = {"cases": 0, "agree": 0}

    # ------------------------------------------------------------------ A. API level: code == model, spec on code text
    strs, ex_n = gen_strings(ctx, 3, 3000 if ctx.quick else 40000)
    if extended:
        more, _ = gen_strings(ctx, 0, 60000, rlen=60)
        strs = strs + more
    qcases = [(m, s) for s in strs for m in MODES]
    impl = ctx.impl("c13quote", [[m, s] for m, s in qcases])
    model = ctx.model("c13quote", [[m, s] for m, s in qcases])
    texts = []
    for (m, s), il, ml in zip(qcases, impl, model):
        if il != ml:
            mism.append({"mode": m, "s": s, "code": core.dec_line(il) if not il.startswith("PANIC") else il,
                         "model": core.dec_line(ml)})
        t = core.dec_line(il)
        texts.append(t[0] if t else "")
    # the property on the code's own output, decided by the reader specification
    rcases, ridx = [], []
    seen = {}
    for k, ((m, s), t) in enumerate(zip(qcases, texts)):
        for p in ("a", "v"):
            key = (p, t)
            if key not in seen:
                seen[key] = len(rcases)
                rcases.append([p, t])
            ridx.append((k, p, seen[key]))
    rres = [core.dec_line(l) for l in ctx.model("c13read", rcases)]
    api_fail = 0
    for k, p, j in ridx:
        m, s = qcases[k]
        r = rres[j]
        ok = len(r) >= 1 and r[0] == "S" and (r[1] if len(r) > 1 else "") == s
        if not ok:
            api_fail += 1
            kf = classify(m, s, "spec")
            if kf and len(specv) > 400 and any(v.get("known") == kf for v in specv):
                continue
            specv.append({"input": {"api_mode": m, "value": s, "position": "argument" if p == "a" else "assignment"},
                          "why": "escape::%s(%r) = %r does not read back (reader spec: %s)" % (
                              "force_quote" if m[0] == "f" else "quote_if_needed", s, texts[k],
                              "not a single literal word" if r[:1] == ["N"] else repr(r[1:])),
                          **({"known": kf} if kf else {})})

    # ------------------------------------------------------------------ B. reader spec vs brush as reader (and bash)
    # texts: everything the code printed at API level (dedup) + hand-written reader probes
    probes = ["a\\\nb", "'a'\\''b'", '"a\\\nb"', '"\\a\\$\\`\\"\\\\"', "$'\\a\\b\\e\\E\\f\\n\\r\\t\\v\\\\\\'\\\"\\?'",
              "$'\\1\\17\\177x'", "$'\\0017'", "$'\\101'", "$'a\\zb'", "a''b", 'a""b', "a\\ b", "x~", "a:b", "'~'", "\\~",
              '"~"', "a=b", "a}b", "a]b", "a,b", "a^b", "a!b", '"a!b"', "é", "\x01", "a\rb", "-n", "--", "a#b"]
    utexts = sorted({t for t in texts} | set(probes))
    if ctx.quick and not extended:
        keep = set(probes) | {t for t in utexts if len(t) <= 9}
        rest = [t for t in utexts if t not in keep]
        keep |= set(ctx.rng.sample(rest, min(2500, len(rest))))
        utexts = sorted(keep)
    pos_cases = [(p, t) for t in utexts for p in ("a", "v")]
    sres = [core.dec_line(l) for l in ctx.model("c13read", [[p, t] for p, t in pos_cases])]
    some = [(p, t, r[1] if len(r) > 1 else "") for (p, t), r in zip(pos_cases, sres) if r[:1] == ["S"]]
    cons = ctx.impl("c13consume", [["arg" if p == "a" else "asg", t] for p, t, _ in some])
    for (p, t, v), line in zip(some, cons):
        st, f, e0 = brush_fields(line)
        want = ["s", "1", "s", v] if p == "a" else ["s", v]
        spec_vs_brush_reader["cases"] += 1
        if f == want and st == "0":
            spec_vs_brush_reader["agree"] += 1
        else:
            vv = {"input": {"text": t, "position": "argument" if p == "a" else "assignment", "reader": "brush"},
                  "why": "brush reads the word %r as %r (status %s); the quoting rules give %r" % (t, f, st, v)}
            kf = pick(["KF-C13-ansi-c-octal-reread"]) if octal_text_class(t) else None
            if kf:
                vv["known"] = kf
            specv.append(vv)
    # bash: the specification must agree with bash wherever it answers Some
    bsel = some if (not ctx.quick or extended) else ctx.rng.sample(some, min(1500, len(some)))
    bres = bash_many([("arg" if p == "a" else "asg", t) for p, t, _ in bsel])
    for (p, t, v), parts in zip(bsel, bres):
        got = norm_bash("q", "arg" if p == "a" else "asg", parts)
        want = ["s", "1", "s", v] if p == "a" else ["s", v]
        spec_vs_bash["cases"] += 1
        if got == want:
            spec_vs_bash["agree"] += 1
        else:
            spec_vs_bash["disagree"].append({"text": t, "position": p, "spec": v, "bash": got})
    if spec_vs_bash["disagree"]:
        raise core.CheckBroken("the reader specification disagrees with bash (the spec is wrong, not the code): %r"
                               % spec_vs_bash["disagree"][:5])

    e2e, per_form, pcases, ccases, vals = end_to_end(ctx, extended, specv)

    # ------------------------------------------------------------------ C2. the ANSI-C decoder of escape.rs == model
    dal = ["\\", "\\", "0", "1", "3", "7", "8", "a", "n", "E", "e", "t", "'", '"', "?", "z", "é", "b", " ", "\x01"]
    dstr = ["".join(rng_choice(ctx, dal) for _ in range(ctx.rng.randrange(0, 9))) for _ in range(4000 if ctx.quick else 60000)]
    dstr += ["\\%s" % "".join(t3) for t3 in itertools.product("01378a", repeat=3)] + ["\\0017", "\\777", "\\0777", "\\", "a\\"]
    dstr += [t[2:-1] for t in texts if t.startswith("$'") and t.endswith("'")][:4000]
    dm = ctx.model("c13decode", [[s] for s in dstr])
    di = ctx.impl("c13decode", [[s] for s in dstr])
    dec_cmp = 0
    for s, a, b in zip(dstr, dm, di):
        if core.dec_line(a)[:1] == ["U"]:
            continue
        dec_cmp += 1
        if a != b:
            mism.append({"what": "expand_backslash_escapes (ANSI-C mode)", "text": s, "model": core.dec_line(a), "code": core.dec_line(b)})

    # ------------------------------------------------------------------ C3. declare -p array values: format == model, reader spec
    rng = ctx.rng
    short = [s for s in strs[:ex_n] if len(s) <= 2] + strs[ex_n:ex_n + 300]
    fcases = []
    for _ in range(2500 if ctx.quick else 30000):
        n = rng.randrange(0, 4)
        if rng.random() < 0.5:
            keys = sorted({rng.randrange(0, 30) for _ in range(n)})
            fcases.append(["i"] + [x for k in keys for x in (str(k), rng.choice(short))])
        else:
            keys = sorted({rng.choice(short) for _ in range(n)} - {""}, key=lambda x: x.encode())
            fcases.append(["h"] + [x for k in keys for x in (k, rng.choice(short))])
    fi = ctx.impl("c13fmt", fcases)
    fm = ctx.model("c13fmt", fcases)
    ftexts = []
    for c, a, b in zip(fcases, fi, fm):
        if a != b:
            mism.append({"what": "ShellValue::format(DeclarePrint)", "case": c, "code": core.dec_line(a), "model": core.dec_line(b)})
        ftexts.append((core.dec_line(a) or [""])[0])
    rc = [core.dec_line(l) for l in ctx.model("c13readc", [[t] for t in ftexts])]
    decl_ok = 0
    rcons = []
    for c, t, r in zip(fcases, ftexts, rc):
        want = ["S"] + c[1:]
        if r == want:
            decl_ok += 1
            rcons.append((c, t))
        else:
            keys = c[1::2]
            kf = pick(["KF-C13-tilde-hash"]) if (c[0] == "h" and any(known_pos(k) and not has_ctrl(k) for k in keys)) else None
            if kf and sum(1 for v in specv if v.get("known") == kf) > 60:
                continue
            specv.append({"input": {"array": c}, "why": "declare -p value %r does not read back as the array (reader spec: %r)" % (t, r[:9]),
                          **({"known": kf} if kf else {})})
    # the compound reader spec against bash (where the spec answers), on a sample / all
    bs = rcons if (not ctx.quick or extended) else rng.sample(rcons, min(400, len(rcons)))
    bres2 = bash_many([("var:%s" % ("a" if c[0] == "i" else "h"),
                        "declare -%s %s=%s" % ("a" if c[0] == "i" else "A", "a" if c[0] == "i" else "h", t)) for c, t in bs])
    for (c, t), parts in zip(bs, bres2):
        got = norm_bash("assoc" if c[0] == "h" else "arr", "var", parts)
        kv = list(zip(c[1::2], c[2::2]))
        if c[0] == "h":
            kv = sorted(kv, key=lambda x: x[0].encode())
        want = ["h" if c[0] == "h" else "a"] + [x for p in kv for x in p]
        spec_vs_bash["cases"] += 1
        if got == want:
            spec_vs_bash["agree"] += 1
        else:
            raise core.CheckBroken("the compound-assignment reader specification disagrees with bash on %r: bash %r" % (t, got))

    # ------------------------------------------------------------------ D. extraction cross-check
    sidx = ctx.rng.sample(range(len(qcases)), 30)
    ce = ctx.coq_eval("c13quote", [[qcases[i][0], qcases[i][1]] for i in sidx])
    xbad = [i for i, v in zip(sidx, ce) if v != model[i]]
    ridx2 = ctx.rng.sample(range(len(rcases)), 20)
    ce2 = ctx.coq_eval("c13read", [rcases[i] for i in ridx2])
    rmodel = ctx.model("c13read", [rcases[i] for i in ridx2])
    xbad2 = [i for i, v, w in zip(ridx2, ce2, rmodel) if v != w]
    if xbad or xbad2:
        raise core.CheckBroken("extracted runner and vm_compute disagree on %r" % ((qcases[xbad[0]] if xbad else rcases[xbad2[0]]),))

    nontriv = {(m, s) for m, s in qcases if s and any(c in ALPHA[:17] or ord(c) < 32 for c in s)}
    dist = {"strings": len(strs), "exhaustive_strings": ex_n, "api_cases": len(qcases),
            "api_texts_failing_reader_spec": api_fail,
            "reader_texts": len(utexts), "reader_some": len(some),
            "e2e_values": len(vals), "e2e_print_cases": len(pcases), "e2e_read_cases": len(ccases),
            "e2e": e2e, "per_form": per_form, "ansi_c_decoder_cases": dec_cmp, "declare_p_arrays": len(fcases), "declare_p_arrays_reading_back": decl_ok,
            "lengths": {"0-3": sum(1 for s in strs if len(s) <= 3), "4-15": sum(1 for s in strs if 4 <= len(s) <= 15),
                        "16+": sum(1 for s in strs if len(s) > 15)},
            "with_control_chars": sum(1 for s in strs if has_ctrl(s)), "in_class_Known": sum(1 for s in strs if known_pos(s))}
    return {
        "evaluations": len(qcases) + len(rcases) + len(some) + len(pcases) + len(ccases) + dec_cmp,
        "distinct_nontrivial": len(nontriv) + len({(f, s) for f, s in pcases if s}),
        "rule": "A: escape::force_quote/quote_if_needed x {single,double,backslash} on all strings of length<=3 over the "
                "%d-symbol quoting alphabet (%d strings) + random strings to length 40 (alphabet, mostly-plain, arbitrary code "
                "points): code text == model text, and reader-spec(text) == value in argument and assignment position. "
                "B: reader spec vs brush-as-reader (fresh in-process shell per word) and vs bash on the printed texts + probes. "
                "C: %d printing forms (%s) x values (all of length<=2 + random to 24): print in brush, eval in fresh brush and in "
                "bash, compare value/keys. non-trivial = value non-empty and containing a quoting-relevant character; distinct by "
                "(mode|form, value)" % (len(ALPHA), ex_n, len(FORMS), ",".join(FORMS)),
        "samples": [{"mode": qcases[7][0], "s": qcases[7][1], "text": texts[7]},
                    {"mode": qcases[-1][0], "s": qcases[-1][1], "text": texts[-1]},
                    {"form": ccases[-1][0], "value": ccases[-1][1], "text": ccases[-1][3]}],
        "distribution": dist,
        "extraction_crosscheck": {"cases": len(sidx) + len(ridx2), "agree": len(sidx) + len(ridx2)},
        "spec_vs_bash": {"cases": spec_vs_bash["cases"], "agree": spec_vs_bash["agree"]},
        "notes": notes + ["reader spec vs brush reader: %r" % spec_vs_brush_reader,
                          "regenerated flag positional_escaping (needs_escaping_at present in escape.rs): see gen/C13EscapeTables.v"],
        "model_mismatches": mism,
        "spec_violations": specv,
    }


def rng_choice(ctx, xs):
    return ctx.rng.choice(xs)


def octal_text_class(t):
    """a text containing an ANSI-C escape \\0NN directly followed by an octal digit"""
    import re
    return re.search(r"\\0[0-7][0-7][0-7]", t) is not None


def search(ctx, res):
    r = run(ctx, extended=True)
    sv = [v for v in r["spec_violations"] if not v.get("known")]
    sv.sort(key=lambda v: len(repr(v["input"])))
    return {"evaluations": r["evaluations"], "spec_violations": sv[:5]}


def run_code_only(ctx):
    """the Coq development does not build: the property is still decided end to end on the code"""
    specv = []
    e2e, per_form, pcases, ccases, vals = end_to_end(ctx, True, specv)
    return {"evaluations": len(pcases) + len(ccases), "distinct_nontrivial": len({(f, s) for f, s in pcases if s}),
            "rule": "code only (model did not build): print in brush, eval in brush and bash, compare", "samples": [],
            "distribution": {"e2e": e2e, "per_form": per_form}, "spec_violations": specv}
