"""Shared by props/c04.py and props/c05.py (file name per the naming rule props/c04*.py): word-piece AST, rendering to shell syntax, the model's
token encoding, the check that brush's own word parser maps the rendered text back to the
intended AST, case construction for the model entry `xp` and the harness subcommand `xp`,
and a bash runner (second opinion).

AST (python tuples), mirrors coq/theories/Expand/Model.v:
  piece:  ("T", s) ("Q", s) ("C", raw) ("D", [piece]) ("~", t) ("P", pexpr) ("X", cmd, backq) ("A", e) ("E", s)
  pexpr:  ("p", param, braced) | ("d"|"a", colon, param, wordtext) | ("l", param)
  param:  ("n", name) ("1", k) ("*",) ("@",) ("S", name) ("R", name) ("i", name, k) ("c",)
"""
import json, os, signal, subprocess, tempfile, shutil, threading
from vlib import core

# ------------------------------------------------------------------ rendering

def r_param_inner(p):
    k = p[0]
    if k == "n":
        return p[1]
    if k == "1":
        return str(p[1])
    if k in ("*", "@"):
        return k
    if k == "S":
        return p[1] + "[*]"
    if k == "R":
        return p[1] + "[@]"
    if k == "i":
        return "%s[%d]" % (p[1], p[2])
    if k == "c":
        return "#"
    raise ValueError(p)


def render_piece(p):
    k = p[0]
    if k in ("T",):
        return p[1]
    if k == "Q":
        return "'" + p[1] + "'"
    if k == "C":
        return "$'" + p[1] + "'"
    if k == "D":
        return '"' + "".join(render_piece(q) for q in p[1]) + '"'
    if k == "~":
        return "~" + p[1]
    if k == "X":
        return ("`%s`" if p[2] else "$(%s)") % p[1]
    if k == "A":
        return "$((" + p[1] + "))"
    if k == "E":
        return p[1]
    if k == "P":
        e = p[1]
        if e[0] == "p":
            inner = r_param_inner(e[1])
            simple = e[1][0] in ("n", "*", "@", "c") or (e[1][0] == "1" and e[1][1] < 10)
            return ("$" + inner) if (simple and len(e) > 2 and not e[2]) else ("${" + inner + "}")
        if e[0] in ("d", "a"):
            op = (":" if e[1] else "") + ("-" if e[0] == "d" else "+")
            return "${" + r_param_inner(e[2]) + op + e[3] + "}"
        if e[0] == "l":
            return "${#" + r_param_inner(e[1]) + "}"
    raise ValueError(p)


def render(word):
    return "".join(render_piece(p) for p in word)

# ------------------------------------------------------------------ brush parser JSON -> AST

def param_from_json(j):
    if "Named" in j:
        return ("n", j["Named"])
    if "Positional" in j:
        return ("1", j["Positional"])
    if "Special" in j:
        s = j["Special"]
        if isinstance(s, dict) and "AllPositionalParameters" in s:
            return ("*",) if s["AllPositionalParameters"]["concatenate"] else ("@",)
        if s == "PositionalParameterCount":
            return ("c",)
        return ("?special", json.dumps(s))
    if "NamedWithAllIndices" in j:
        x = j["NamedWithAllIndices"]
        return ("S" if x["concatenate"] else "R", x["name"])
    if "NamedWithIndex" in j:
        x = j["NamedWithIndex"]
        try:
            return ("i", x["name"], int(x["index"]))
        except ValueError:
            return ("?index", x["name"], x["index"])
    return ("?param", json.dumps(j))


def pieces_from_json(js):
    out = []
    for it in js:
        p = it["piece"]
        if "Text" in p:
            out.append(("T", p["Text"]))
        elif "SingleQuotedText" in p:
            out.append(("Q", p["SingleQuotedText"]))
        elif "AnsiCQuotedText" in p:
            out.append(("C", p["AnsiCQuotedText"]))
        elif "DoubleQuotedSequence" in p:
            out.append(("D", pieces_from_json(p["DoubleQuotedSequence"])))
        elif "TildeExpansion" in p:
            t = p["TildeExpansion"]
            if t == "Home":
                out.append(("~", ""))
            elif isinstance(t, dict) and "UserHome" in t:
                out.append(("~", t["UserHome"]))
            elif t == "WorkingDir":
                out.append(("~", "+"))
            elif t == "OldWorkingDir":
                out.append(("~", "-"))
            elif isinstance(t, dict) and "NthDirFromTopOfDirStack" in t:
                x = t["NthDirFromTopOfDirStack"]
                out.append(("~", ("+" if x["plus_used"] else "") + str(x["n"])))
            elif isinstance(t, dict) and "NthDirFromBottomOfDirStack" in t:
                out.append(("~", "-" + str(t["NthDirFromBottomOfDirStack"]["n"])))
            else:
                out.append(("?tilde", json.dumps(t)))
        elif "CommandSubstitution" in p:
            out.append(("X", p["CommandSubstitution"], False))
        elif "BackquotedCommandSubstitution" in p:
            out.append(("X", p["BackquotedCommandSubstitution"], True))
        elif "ArithmeticExpression" in p:
            out.append(("A", p["ArithmeticExpression"]["value"]))
        elif "EscapeSequence" in p:
            out.append(("E", p["EscapeSequence"]))
        elif "ParameterExpansion" in p:
            e = p["ParameterExpansion"]
            if "Parameter" in e and not e["Parameter"]["indirect"]:
                out.append(("P", ("p", param_from_json(e["Parameter"]["parameter"]))))
            elif "UseDefaultValues" in e and not e["UseDefaultValues"]["indirect"]:
                x = e["UseDefaultValues"]
                out.append(("P", ("d", x["test_type"] == "UnsetOrNull", param_from_json(x["parameter"]),
                                  x["default_value"] or "")))
            elif "UseAlternativeValue" in e and not e["UseAlternativeValue"]["indirect"]:
                x = e["UseAlternativeValue"]
                out.append(("P", ("a", x["test_type"] == "UnsetOrNull", param_from_json(x["parameter"]),
                                  x["alternative_value"] or "")))
            elif "ParameterLength" in e and not e["ParameterLength"]["indirect"]:
                out.append(("P", ("l", param_from_json(e["ParameterLength"]["parameter"]))))
            else:
                out.append(("?pexpr", json.dumps(e)))
        else:
            out.append(("?piece", json.dumps(p)))
    return out


def norm(word):
    """generator AST -> the form produced by pieces_from_json (drops rendering hints)"""
    out = []
    for p in word:
        if p[0] == "D":
            out.append(("D", norm(p[1])))
        elif p[0] == "P" and p[1][0] == "p":
            out.append(("P", ("p", p[1][1])))
        elif p[0] == "P" and p[1][0] in ("d", "a"):
            out.append(("P", p[1][:4]))
        else:
            out.append(tuple(p))
    return out

# ------------------------------------------------------------------ model token stream

def t_param(p):
    k = p[0]
    if k in ("n", "S", "R"):
        return [k, p[1]]
    if k == "1":
        return ["1", str(p[1])]
    if k == "i":
        return ["i", p[1], str(p[2])]
    return [k]


def t_piece(p, dq, sub):
    """sub: dict (wordtext, dq) -> (q, pieces) for default/alternative words (filled by resolve_subwords)"""
    k = p[0]
    if k in ("T", "Q", "C", "~", "A", "E"):
        return [k, p[1]]
    if k == "X":
        return ["X", p[1]]
    if k == "D":
        out = ["D", str(len(p[1]))]
        for q in p[1]:
            out += t_piece(q, True, sub)
        return out
    if k == "P":
        e = p[1]
        if e[0] == "p":
            return ["P", "p"] + t_param(e[1])
        if e[0] == "l":
            return ["P", "l"] + t_param(e[1])
        q, pieces = sub[(e[3], dq)]
        out = ["P", e[0], "1" if e[1] else "0", "1" if q else "0"] + t_param(e[2]) + [str(len(pieces))]
        dq2 = dq and not q
        for x in pieces:
            out += t_piece(x, dq2, sub)
        return out
    raise ValueError(p)


def t_word(word, sub):
    out = [str(len(word))]
    for p in word:
        out += t_piece(p, False, sub)
    return out


def subword_requests(word, dq=False, acc=None):
    """the strings the code will hand to the word parser for default/alternative words
    (expand_parameter_word): (wordtext, dq) -> (q, text_to_parse)"""
    acc = {} if acc is None else acc
    for p in word:
        if p[0] == "D":
            subword_requests(p[1], True, acc)
        elif p[0] == "P" and p[1][0] in ("d", "a"):
            w = p[1][3]
            if dq:
                if len(w) >= 2 and w.startswith('"') and w.endswith('"'):
                    acc[(w, dq)] = (True, w[1:-1])
                else:
                    acc[(w, dq)] = (False, '"' + w + '"')
            else:
                acc[(w, dq)] = (False, w)
    return acc

# ------------------------------------------------------------------ oracle tables

ANSIC = {"n": "\n", "t": "\t", "\\": "\\", "'": "'", "a": "\a", '"': '"', "e": "\x1b"}


def ansic_decode(raw):
    out, i = [], 0
    while i < len(raw):
        if raw[i] == "\\" and i + 1 < len(raw) and raw[i + 1] in ANSIC:
            out.append(ANSIC[raw[i + 1]]); i += 2
        else:
            out.append(raw[i]); i += 1
    return "".join(out)


def collect(word, kind, acc=None):
    acc = [] if acc is None else acc
    for p in word:
        if p[0] == kind:
            acc.append(p)
        if p[0] == "D":
            collect(p[1], kind, acc)
    return acc


class Case:
    """one expansion case: environment + word + context"""
    def __init__(self, ctx, word, ifs=None, opts="", args=(), vars=(), names=(), cmd_out=None, arith=None,
                 tag=None, ref=None):
        self.ctx, self.word, self.ifs, self.opts = ctx, word, ifs, opts
        self.args, self.vars, self.names = list(args), list(vars), list(names)
        self.cmd_out = cmd_out or {}
        self.arith = arith or {}
        self.tag = tag
        self.ref = ref
        self.cwdsub = None          # name of a subdirectory to work in (adversarial characters allowed, no '/')
        self.text = render(word)

    def home(self):
        for n, v in self.vars:
            if n == "HOME" and isinstance(v, str):
                return v
        return None

    def flags(self):
        return ("c" if self.ctx == "assign" else "") + ("e" if "e" in self.opts else "")

    def var_value(self, name):
        for n, v in self.vars:
            if n == name and isinstance(v, str):
                return v
        return None

    def cwd(self):
        return "@BASE@" + (("/" + self.cwdsub) if self.cwdsub else "")

    def tilde_value(self, t):
        """expand_tilde_expression on this case (empty directory stack); None = error"""
        import pwd
        if t == "":
            return self.home()
        if t in ("+", "0", "+0", "-0"):
            return self.cwd()
        if t == "-":
            o = self.var_value("OLDPWD")
            return o if o is not None else "~-"
        if t.lstrip("+-").isdigit():
            return "~" + t
        try:
            return pwd.getpwnam(t).pw_dir
        except KeyError:
            return "~" + t

    def var_fields(self, extra=()):
        f = [str(len(self.vars) + len(extra))]
        for n, v in list(self.vars) + list(extra):
            if isinstance(v, str):
                f += [n, "s", v]
            else:
                f += [n, "a", str(len(v))] + list(v)
        return f

    def impl_fields(self):
        extra = [("ref__", self.ref)] if self.ref is not None else []
        if self.cwdsub:
            extra.append(("cwdsub__", self.cwdsub))
        return ([self.ctx, "U" if self.ifs is None else "S" + self.ifs, self.opts, self.text,
                 str(len(self.args))] + self.args + self.var_fields(extra) + [str(len(self.names))] + self.names)

    def model_fields(self, sub):
        mode = {"arg": "A", "arrelem": "A", "assign": "S", "herestr": "S", "redir": "R"}[self.ctx]
        f = [mode, "U" if self.ifs is None else "S" + self.ifs, self.opts, str(len(self.args))] + self.args
        f += self.var_fields()
        f += [str(len(self.names))] + self.names
        allw = [self.word] + [pieces for (_q, pieces) in sub.values()]
        cmds, ariths, ansics, tildes = {}, {}, {}, {}
        for w in allw:
            for p in collect(w, "X"):
                cmds[p[1]] = self.cmd_out.get(p[1], "")
            for p in collect(w, "A"):
                ariths[p[1]] = self.arith.get(p[1], "")
            for p in collect(w, "C"):
                ansics[p[1]] = ansic_decode(p[1])
            for p in collect(w, "~"):
                v = self.tilde_value(p[1])
                tildes[p[1]] = ("S" + v) if v is not None else "N"
        for tbl in (cmds, ariths, tildes, ansics):
            f.append(str(len(tbl)))
            for k, v in tbl.items():
                f += [k, v]
        f += t_word(self.word, sub)
        return f


def check_parse_and_resolve(ctx, cases):
    """wparse tie: brush_parser::word::parse(render(word)) must be the intended AST; also resolves the
    default/alternative sub-words by asking the real parser.  Returns (subs, problems)."""
    reqs = []
    for c in cases:
        reqs.append([c.text, c.flags()])
    subreq = []
    for ci, c in enumerate(cases):
        for key, (q, text) in subword_requests(c.word).items():
            subreq.append((ci, key, q, text))
    lines = impl(ctx, "wparse", reqs + [[t, cases[ci].flags().replace("c", "")] for (ci, _k, _q, t) in subreq])
    problems = []
    subs = [dict() for _ in cases]
    for ci, c in enumerate(cases):
        got = decode_parse(lines[ci])
        if got != norm(c.word):
            problems.append({"word": c.text, "ctx": c.ctx, "intended": repr(norm(c.word)), "parsed": repr(got)})
    for k, (ci, key, q, text) in enumerate(subreq):
        got = decode_parse(lines[len(cases) + k])
        if got is None or any(p[0].startswith("?") for p in flat(got)):
            problems.append({"word": cases[ci].text, "subword": text, "parsed": repr(got)})
            got = []
        # nested default words inside a default word are outside the generated grammar
        subs[ci][key] = (q, got)
    return subs, problems


def flat(word):
    out = []
    for p in word:
        out.append(p)
        if p[0] == "D":
            out += flat(p[1])
    return out


def decode_parse(line):
    f = core.dec_line(line)
    if not f or f[0] == "ERR" or line.startswith("PANIC"):
        return None
    try:
        return pieces_from_json(json.loads(f[0]))
    except (ValueError, KeyError, TypeError):
        return None


def decode_result(line, herestr=False):
    """-> ("OK", [fields]) | ("ERR",) | ("UNSUPPORTED",) | ("BAD", raw)"""
    if line.startswith(("PANIC", "DIED", "TIMEOUT")):
        return ("BAD", line[:200])
    f = core.dec_line(line)
    if not f:
        return ("BAD", line)
    if f[0] == "OK":
        try:
            n = int(f[1])
        except (ValueError, IndexError):
            return ("BAD", line)
        fields = f[2:]
        if len(fields) != n:
            return ("BAD", line)
        return ("OK", fields)
    if f[0] in ("ERR", "UNSUPPORTED"):
        return (f[0],)
    return ("BAD", line[:200])

# ------------------------------------------------------------------ bash second opinion

BASH_PRELUDE = r'''
zz() { printf 'CAP\0%d\0' $#; local a; for a in "$@"; do printf '%s\0' "$a"; done; }
'''


def sq(s):
    return "'" + s.replace("'", "'\\''") + "'"


def bash_script(c):
    """a bash script reproducing the case; values are installed with single-quoted literals"""
    lines = ["shopt -u extglob nullglob failglob dotglob; set +f"]
    for n, v in c.vars:
        if isinstance(v, str):
            lines.append("%s=%s" % (n, sq(v)))
        else:
            lines.append("%s=(%s)" % (n, " ".join(sq(x) for x in v)))
    if c.ref is not None:
        lines.append("ref__=%s" % sq(c.ref))
    lines.append("set -- " + " ".join(sq(a) for a in c.args))
    for ch, opt in (("n", "nullglob"), ("F", "failglob"), ("e", "extglob"), ("d", "dotglob")):
        if ch in c.opts:
            lines.append("shopt -s " + opt)
    if "f" in c.opts:
        lines.append("set -f")
    if "b" in c.opts:
        lines.append("set +B")
    if getattr(c, "cwdsub", None):
        lines.insert(0, "cd -- %s || exit 3" % sq(c.cwdsub))
    ov = c.var_value("OLDPWD")
    lines.append("OLDPWD=%s" % sq(ov) if ov is not None else "unset OLDPWD")
    lines.append("unset IFS" if c.ifs is None else "IFS=" + sq(c.ifs))
    t = c.text
    body = {
        "arg": "zz %s" % t,
        "assign": "y__=%s; IFS=; set +f; zz \"$y__\"" % t,
        "arrelem": "y__=(%s); IFS=; zz \"${y__[@]}\"" % t,
        "herestr": "IFS= read -r -d '' z__ <<<%s; IFS=; zz \"$z__\"" % t,
        "casew": "case %s in \"$ref__\") zz 1;; *) zz 0;; esac" % t,
        "casep": "case \"$ref__\" in %s) zz 1;; *) zz 0;; esac" % t,
        "cond": "if [[ %s == \"$ref__\" ]]; then zz 1; else zz 0; fi" % t,
        "condp": "if [[ \"$ref__\" == %s ]]; then zz 1; else zz 0; fi" % t,
        "condn": "if [[ -n %s ]]; then zz 1; else zz 0; fi" % t,
        "multi": t,
    }.get(c.ctx)
    if body is None:
        return None
    lines.append(body)
    return "\n".join(lines) + "\n"


class BashRunner:
    """runs cases under /usr/bin/bash (LC_ALL=C) in scratch directories holding the case's names"""
    def __init__(self):
        self.base = tempfile.mkdtemp(prefix="c04bash-", dir=os.environ.get("VERIF_SCRATCH_BASE", "/var/tmp"))
        self.dirs = {}
        self.subs = set()

    def dir_for(self, names, sub=None):
        """the directory holding `names`; with `sub`: a parent of its own holding only the subdirectory `sub`
        (which holds `names`) -- returns the parent"""
        key = (tuple(names), sub)
        if key not in self.dirs:
            d = os.path.join(self.base, "d%d" % len(self.dirs))
            os.makedirs(d)
            target = d.encode()
            if sub:
                target = os.path.join(target, sub.encode("utf-8", "surrogateescape"))
                os.makedirs(target)
            for n in names:
                open(os.path.join(target, n.encode("utf-8", "surrogateescape")), "wb").close()
            self.dirs[key] = d
        return self.dirs[key]

    def run(self, cases, jobs=8, batch=40):
        """-> list of ("OK", fields) | ("ERR",) | ("TIMEOUT",) | None (context not supported).
        Cases are run in batches: one bash process evals each case's script in its own subshell
        (a syntax error or a failglob abort stays inside its eval)."""
        from concurrent.futures import ThreadPoolExecutor
        scripts = [bash_script(c) for c in cases]
        for c in cases:
            self.dir_for(c.names, getattr(c, "cwdsub", None))
        idx = [i for i, s in enumerate(scripts) if s is not None]
        chunks = [idx[k:k + batch] for k in range(0, len(idx), batch)]
        out = [None] * len(cases)

        def one(chunk):
            parts = [BASH_PRELUDE, 'run_case() { ( cd "$1" || exit 3; eval "$2" ) 2>/dev/null; }\n']
            for i in chunk:
                parts.append("printf 'CASE\\0%%s\\0' %d\nrun_case %s %s\n" % (i, sq(self.dir_for(cases[i].names, getattr(cases[i], "cwdsub", None))), sq(scripts[i])))
            stdout, timed_out = run_group(["/usr/bin/bash", "--norc", "--noprofile", "-c", "".join(parts)],
                                          env={"LC_ALL": "C.UTF-8", "PATH": "/usr/bin:/bin"}, timeout=300)
            if timed_out:
                return [(i, ("TIMEOUT",)) for i in chunk]
            # NUL-framed stream: CASE k  { CAP n arg*n }*   (only builtins: no fork per argument)
            toks = stdout.split(b"\0")
            res, cur, k = {}, None, 0
            try:
                while k < len(toks) - 1:
                    t = toks[k]
                    if t == b"CASE":
                        cur = int(toks[k + 1]); res[cur] = []; k += 2
                    elif t == b"CAP" and cur is not None:
                        n = int(toks[k + 1])
                        res[cur].append([x.decode("utf-8", "replace") for x in toks[k + 2:k + 2 + n]])
                        k += 2 + n
                    else:
                        k += 1          # stray output of the case itself
            except (ValueError, IndexError):
                pass
            ret = []
            for i in chunk:
                cs = res.get(i)
                if cs is None:
                    ret.append((i, ("TIMEOUT",)))      # the batch died before reaching this case
                elif cases[i].ctx == "multi":
                    base = self.dir_for(cases[i].names, getattr(cases[i], "cwdsub", None))
                    f = [str(len(cs))]
                    for call in cs:
                        f.append(str(len(call)))
                        f += [a.replace(base, "@BASE@") for a in call]
                    ret.append((i, ("OK", f)))
                elif len(cs) != 1:
                    ret.append((i, ("ERR",)))
                else:
                    base = self.dir_for(cases[i].names, getattr(cases[i], "cwdsub", None))
                    ret.append((i, ("OK", [a.replace(base, "@BASE@") for a in cs[0]])))
            return ret
        with ThreadPoolExecutor(jobs) as ex:
            for ret in ex.map(one, chunks):
                for i, r in ret:
                    out[i] = r
        return out

    def close(self):
        shutil.rmtree(self.base, ignore_errors=True)


# ------------------------------------------------------------------ child processes

def kill_group(pid):
    try:
        os.killpg(pid, signal.SIGKILL)
    except (ProcessLookupError, PermissionError, OSError):
        pass


def run_group(cmd, input=None, env=None, timeout=300, cwd=None):
    """runs cmd as the leader of its OWN process group; the whole group is killed on timeout and again after
    completion, so that nothing the child started survives.  -> (stdout bytes, timed_out)"""
    p = subprocess.Popen(cmd, stdin=subprocess.PIPE if input is not None else subprocess.DEVNULL,
                         stdout=subprocess.PIPE, stderr=subprocess.DEVNULL, env=env, cwd=cwd, start_new_session=True)
    timed_out = False
    try:
        out, _ = p.communicate(input, timeout=timeout)
    except subprocess.TimeoutExpired:
        timed_out = True
        kill_group(p.pid)
        out, _ = p.communicate()
    finally:
        kill_group(p.pid)
    return out or b"", timed_out


def impl(ctx, sub, cases, timeout=1200):
    """the harness (brush in process, plus whatever it forks) sharded like core.run_sharded, every shard in its own
    process group"""
    lines = [core.enc_case(c) for c in cases]
    if not lines:
        return []
    shards = min(core.NPROC, max(1, len(lines) // 8))
    chunks = [lines[i::shards] for i in range(shards)]
    os.makedirs(core.SCRATCH, exist_ok=True)
    e = dict(os.environ)
    e["VERIF_SCRATCH"] = core.SCRATCH
    outs = [None] * shards

    def feed(i):
        o, to = run_group([ctx.harness, sub], input=("\n".join(chunks[i]) + "\n").encode(), env=e, timeout=timeout)
        outs[i] = (o.decode("utf-8", "replace").split("\n"), "TIMEOUT" if to else "DIED")
    ths = [threading.Thread(target=feed, args=(i,)) for i in range(shards)]
    [t.start() for t in ths]
    [t.join() for t in ths]
    res = [None] * len(lines)
    for i in range(shards):
        got, why = outs[i]
        if got and got[-1] == "":
            got = got[:-1]
        for j, _ in enumerate(chunks[i]):
            res[i + j * shards] = got[j] if j < len(got) else why
    return res


# ------------------------------------------------------------------ attribution of deviating cases

def open_ids():
    import json
    try:
        fs = json.load(open(os.path.join(core.ROOT, "known_findings.json")))["findings"]
    except (OSError, ValueError, KeyError):
        return set()
    return {f["id"] for f in fs if f.get("status") == "open"}


def pick_class(ids):
    """first OPEN class the case lies in; if it lies only in fixed (or unlisted) classes the first of those is
    returned and the driver turns the case into a VIOLATION; None when it lies in no class"""
    if not ids:
        return None
    op = open_ids()
    for i in ids:
        if i in op:
            return i
    return ids[0]


# ------------------------------------------------------------------ tilde: HOME / PWD / OLDPWD over the adversarial alphabet

TILDE_DIRS = ["/d/my home", "/d/star/*", "/d/q?", "/d/[ab]", "/d/a\nb", "/d/tab\there", " lead", "/d/é x", "/d/a:b",
              "/d/plain", "/d/$x", "/d/'q'", "/d/{a,b}", "*", "/d/two  blanks "]
TILDE_SUBS = ["my dir", "st*r", "q?", "[cd]", "a\nb", "plain", " x", "t\tb", "a:b"]
TILDE_FORMS = ["", "", "", "+", "+", "-", "-", "0", "+0", "-0", "1", "+2", "-3", "root", "nosuchuser__"]


def gen_tilde_case(rng, ifses, optsets, dirs, ctxs=("arg", "arg", "arrelem", "assign", "herestr")):
    """a word starting with a tilde prefix whose target holds blanks / glob characters / newlines.
    expected (the statement of the property): the target is never split, never globbed"""
    ctx = rng.choice(ctxs)
    t = rng.choice(TILDE_FORMS)
    word = [("~", t)]
    suffix = rng.choice(["", "", "/x", "/f", ":q" if ctx == "assign" else "/x.y"])
    second = None
    if ctx == "assign" and rng.random() < 0.35:
        second = rng.choice(["", "-", "+"])          # y=~/x:~-  (tilde after a colon in assignments)
    if suffix or second is not None:
        word.append(("T", suffix + (":" if second is not None else "")))
    if second is not None:
        word.append(("~", second))
    vars_ = [("HOME", rng.choice(TILDE_DIRS))]
    if rng.random() < 0.8:
        vars_.append(("OLDPWD", rng.choice(TILDE_DIRS)))
    c = Case(ctx, word, ifs=rng.choice(ifses), opts=rng.choice(optsets), vars=vars_, names=rng.choice(dirs), tag="tilde")
    if rng.random() < 0.7:
        c.cwdsub = rng.choice(TILDE_SUBS)
    val = c.tilde_value(t) + suffix
    if second is not None:
        val += ":" + c.tilde_value(second)
    c.value = val
    if ctx == "herestr":
        c.expected = ("OK", [val + "\n"])
    else:
        c.expected = ("OK", [val])
    return c
