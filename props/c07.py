"""C07 — arithmetic evaluates as bash's wrapping 64-bit C-style integer arithmetic."""
import os, random, re, subprocess, tempfile
from vlib import core
from props import c07_oracle as O

PID = "C07"
ENTRIES = {"c07_parse": ("Arith.Entry", "entry_c07_parse"), "c07_eval": ("Arith.Entry", "entry_c07_eval"),
           "c07_roundtrip": ("Arith.Entry", "entry_c07_roundtrip")}
TRUSTED = [
    "modelled, not verified: brush-parser/src/arithmetic.rs (the precedence!{} block, the lexical classes, radix bounds, "
    "digit maps and which literal function each alternative calls are regenerated into gen/C07ArithTable.v; the algorithm "
    "rust-peg 0.8.6 generates for precedence!{} is modelled by Arith/PegPrec.v from reading peg-macros translate.rs), "
    "brush-core/src/arithmetic.rs (eval_expr_impl and helpers) over scalar variables; array element storage is outside "
    "the model (EArray marker; the evaluator generators produce no subscripts; the parser model handles them)",
    "spec oracle: props/c07_oracle.py (bash expr.c as tokenizer + recursive descent + evaluator over Python integers), "
    "validated against /usr/bin/bash 5.2.15: every candidate violation is confirmed with bash on every run, the thorough "
    "tier compares brush with bash on all evaluator cases; two bash quirks are deliberately not followed (negative exponent "
    "raised inside a skipped branch; the exact recursion-limit count)",
    "word expansion preceding $(( )) / (( )) / ${s:expr} / ${a[expr]} is not modelled: generated expressions contain no "
    "$, quotes, backslashes or braces",
]
ASSUMPTIONS = ["variables are plain scalars (no integer/readonly attributes, no arrays, no namerefs)",
               "expressions reach the arithmetic parser unchanged by word expansion (no $ ` \\ quotes in them)",
               "c07_parse_render covers renderings with one blank between tokens and decimal literals below 2^63; other "
               "spacings and literal forms are covered by the correspondence and the oracle comparison only"]

NAMES = ["a", "b", "c", "x", "y", "z", "_t", "V9"]
OBS = " ".join(NAMES)
BIN = [",", "||", "&&", "|", "^", "&", "==", "!=", "<", ">", "<=", ">=", "<<", ">>", "+", "-", "*", "%", "/", "**"]
UN = ["!", "~", "+", "-"]
INCR = ["pre++", "pre--", "post++", "post--"]
ASSIGN = ["=", "*=", "/=", "%=", "+=", "-=", "<<=", ">>=", "&=", "|=", "^="]
PREC = {",": 1, "||": 4, "&&": 5, "|": 6, "^": 7, "&": 8, "==": 9, "!=": 9, "<": 10, ">": 10, "<=": 10, ">=": 10,
        "<<": 11, ">>": 11, "+": 12, "-": 12, "*": 13, "%": 13, "/": 13, "**": 14}
P_ASSIGN, P_COND, P_UNARY, P_ATOM = 2, 3, 15, 17

B63, B64 = 1 << 63, 1 << 64
LITS_OK = ["0", "1", "2", "3", "7", "10", "63", "64", "65", "255", "2147483647", "2147483648", "4294967296",
           "4611686018427387904", "9223372036854775807", "9223372036854775808", "18446744073709551615",
           "0x0", "0x1f", "0X7fffffffffffffff", "0xAbC", "00", "07", "010", "0777777777777777777777",
           "2#101", "16#ff", "16#FF", "36#z", "36#Z", "37#Z", "64#@", "64#_", "64#Az", "62#zZ", "8#777",
           "2#1111111111111111111111111111111111111111111111111111111111111111", "10#9223372036854775808",
           "16#ffffffffffffffff", "64#_______________", "10#18446744073709551616"]
LITS_KF = ["18446744073709551616", "99999999999999999999", "0x8000000000000000", "0xFFFFFFFFFFFFFFFF",
           "0xffffffffffffffff1", "01000000000000000000000", "01777777777777777777777", "0x", "0X"]
LITS_BAD = ["08", "1#0", "65#1", "2#2", "09", "0x1g", "10#", "1a", "36#@", "7#7"]


# ------------------------------------------------------------------ expression trees
def gen_tree(rng, depth, kf_lits=0.0, leaf_names=NAMES):
    if depth <= 0 or rng.random() < 0.22:
        r = rng.random()
        if r < 0.45:
            return ("ref", rng.choice(leaf_names))
        if r < 0.45 + kf_lits:
            return ("lit", rng.choice(LITS_KF))
        if r < 0.93:
            return ("lit", rng.choice(LITS_OK))
        return ("lit", str(rng.randrange(0, 1 << rng.choice([4, 8, 31, 40, 62, 64]))))
    r = rng.random()
    if r < 0.58:
        return ("bin", rng.choice(BIN), gen_tree(rng, depth - 1, kf_lits, leaf_names), gen_tree(rng, depth - 1, kf_lits, leaf_names))
    if r < 0.70:
        return ("un", rng.choice(UN), gen_tree(rng, depth - 1, kf_lits, leaf_names))
    if r < 0.78:
        return ("cond", gen_tree(rng, depth - 1, kf_lits, leaf_names), gen_tree(rng, depth - 1, kf_lits, leaf_names),
                gen_tree(rng, depth - 1, kf_lits, leaf_names))
    if r < 0.86:
        return ("incr", rng.choice(INCR), rng.choice(leaf_names))
    if r < 0.93:
        return ("assign", rng.choice(leaf_names), gen_tree(rng, depth - 1, kf_lits, leaf_names))
    return ("opassign", rng.choice(ASSIGN[1:]), rng.choice(leaf_names), gen_tree(rng, depth - 1, kf_lits, leaf_names))


def node_prec(e):
    k = e[0]
    if k == "bin":
        return PREC[e[1]]
    if k in ("assign", "opassign"):
        return P_ASSIGN
    if k == "cond":
        return P_COND
    if k == "un":
        return P_UNARY
    return P_ATOM


def tokens(e, minp, rng=None, redundant=0.0):
    """token list of e where an operand of precedence >= minp is expected (bash/C table:
    minimal parentheses; `redundant` = probability of an extra pair around any sub-expression)"""
    k = e[0]
    p = node_prec(e)
    if k == "lit":
        t = [e[1]]
    elif k == "ref":
        t = [e[1]]
    elif k == "bin":
        op = e[1]
        if op == "**":
            t = tokens(e[2], P_UNARY, rng, redundant) + [op] + tokens(e[3], 14, rng, redundant)
        elif op == ",":
            t = tokens(e[2], 1, rng, redundant) + [op] + tokens(e[3], 2, rng, redundant)
        else:
            t = tokens(e[2], p, rng, redundant) + [op] + tokens(e[3], p + 1, rng, redundant)
    elif k == "un":
        t = [e[1]] + tokens(e[2], P_UNARY, rng, redundant)
    elif k == "cond":
        t = tokens(e[1], 4, rng, redundant) + ["?"] + tokens(e[2], 1, rng, redundant) + [":"] + tokens(e[3], P_COND, rng, redundant)
    elif k == "incr":
        t = [e[1][-2:], e[2]] if e[1].startswith("pre") else [e[2], e[1][-2:]]
    elif k == "assign":
        t = [e[1], "="] + tokens(e[2], P_ASSIGN, rng, redundant)
    elif k == "opassign":
        t = [e[2], e[1]] + tokens(e[3], P_ASSIGN, rng, redundant)
    else:
        raise AssertionError(e)
    if p < minp or (rng is not None and redundant and rng.random() < redundant):
        t = ["("] + t + [")"]
    return t


OPCH = set("+-*/%<>=!&|^~?:,")


def join(toks, rng, mode):
    """mode 'one': one blank between tokens; 'min': blanks only where two tokens would fuse;
    'rand': random blanks/tabs/newlines (at least what 'min' needs)"""
    out = []
    for i, t in enumerate(toks):
        if i:
            prev = toks[i - 1]
            need = (prev[-1] in OPCH and t[0] in OPCH) or ((prev[-1].isalnum() or prev[-1] in "_#@") and (t[0].isalnum() or t[0] in "_#@"))
            if mode == "one":
                out.append(" ")
            elif mode == "min":
                if need:
                    out.append(" ")
            else:
                r = rng.random()
                if need or r < 0.5:
                    out.append(rng.choice([" ", " ", "  ", "\t", "\n", " \t "]))
        out.append(t)
    s = "".join(out)
    if mode == "rand" and rng.random() < 0.3:
        s = rng.choice([" ", "\t", "\n "]) + s + rng.choice([" ", "", "\n"])
    return s


def render(e, rng, mode=None, redundant=None):
    mode = mode or rng.choice(["one", "min", "rand"])
    redundant = rng.choice([0.0, 0.0, 0.15, 0.4]) if redundant is None else redundant
    return join(tokens(e, 1, rng, redundant), rng, mode)


def canon(e):
    """the s-expression brush's AST prints as (props of the Coq show_ast)"""
    BN = {",": "Comma", "||": "LogicalOr", "&&": "LogicalAnd", "|": "BitwiseOr", "^": "BitwiseXor", "&": "BitwiseAnd",
          "==": "Equals", "!=": "NotEquals", "<": "LessThan", ">": "GreaterThan", "<=": "LessThanOrEqualTo",
          ">=": "GreaterThanOrEqualTo", "<<": "ShiftLeft", ">>": "ShiftRight", "+": "Add", "-": "Subtract",
          "*": "Multiply", "%": "Modulo", "/": "Divide", "**": "Power"}
    UNN = {"!": "LogicalNot", "~": "BitwiseNot", "+": "UnaryPlus", "-": "UnaryMinus"}
    IN = {"pre++": "PrefixIncrement", "pre--": "PrefixDecrement", "post++": "PostfixIncrement", "post--": "PostfixDecrement"}
    k = e[0]
    if k == "raw":
        return e[1]
    if k == "lit":
        return "(lit %d)" % O.strlong(e[1])
    if k == "ref":
        return "(ref (var %s))" % e[1]
    if k == "bin":
        return "(bin %s %s %s)" % (BN[e[1]], canon(e[2]), canon(e[3]))
    if k == "un":
        return "(un %s %s)" % (UNN[e[1]], canon(e[2]))
    if k == "cond":
        return "(cond %s %s %s)" % (canon(e[1]), canon(e[2]), canon(e[3]))
    if k == "incr":
        return "(incr %s (var %s))" % (IN[e[1]], e[2])
    if k == "assign":
        return "(assign (var %s) %s)" % (e[1], canon(e[2]))
    if k == "opassign":
        return "(binassign %s (var %s) %s)" % (BN[e[1][:-1]], e[2], canon(e[3]))


def canon_oracle(e):
    """s-expression of an oracle (c07_oracle.Parser) tree"""
    k = e[0]
    if k == "lit":
        return "(lit %d)" % e[1]
    if k == "opassign":
        return canon(("opassign", e[1] + "=", e[2], ("raw", canon_oracle(e[3]))))
    if k in ("ref", "incr"):
        return canon(e)
    return canon(tuple(("raw", canon_oracle(x)) if isinstance(x, tuple) else x for x in e))


def n_ops(e):
    return (0 if e[0] in ("lit", "ref") else 1) + sum(n_ops(x) for x in e[1:] if isinstance(x, tuple))


# ------------------------------------------------------------------ ill-formed strings
JUNK = ["+", "-", "*", "/", "%", "(", ")", "?", ":", ",", "=", "==", "!", "~", "<", ">", "<<", ">>", "&", "|", "^", "&&",
        "||", "++", "--", "**", "+=", "<<=", "1", "0", "x", "y", "a[1]", "a[ 1 ]", "a[x+1]", "08", "0x", "#", "2#", "@",
        " ", "\t", "\n", "\r", "1.5", "é", "$", "'", "\"", "x y", "a[", "]", "**=", "0x1g", "1e3", "\\", ";", "{", "}"]


def mutate(s, rng):
    k = rng.randrange(7)
    if not s:
        return rng.choice(JUNK)
    i = rng.randrange(len(s))
    if k == 0:
        return s[:i] + s[i + 1:]
    if k == 1:
        return s[:i] + rng.choice(JUNK) + s[i:]
    if k == 2:
        j = rng.randrange(len(s))
        a, b = min(i, j), max(i, j)
        return s[:a] + s[b:]
    if k == 3:
        return s[:i] + s[i] + s[i:]
    if k == 4:
        return s.replace(" ", "")
    if k == 5:
        j = rng.randrange(len(s))
        l = list(s)
        l[i], l[j] = l[j], l[i]
        return "".join(l)
    return "".join(rng.choice(JUNK) for _ in range(rng.randrange(1, 7)))


# ------------------------------------------------------------------ environments
def gen_env(rng):
    env = {}
    names = rng.sample(NAMES, rng.randrange(0, len(NAMES) + 1))
    for n in names:
        r = rng.random()
        if r < 0.30:
            v = rng.choice(["0", "1", "-1", "5", "-5", "42", "9223372036854775807", "-9223372036854775808", "0x10",
                            "010", "2#11", "64#_", " 7 ", "\t3\n", "+4", "- 2"])
        elif r < 0.40:
            v = ""
        elif r < 0.58:
            v = rng.choice(NAMES)                                  # a name (chains, cycles)
        elif r < 0.88:
            v = render(gen_tree(rng, rng.choice([1, 1, 2])), rng)   # an expression (may have side effects)
        elif r < 0.94:
            v = rng.choice(LITS_KF + ["9223372036854775808", "18446744073709551615"])
        else:
            v = rng.choice(["1 +", "abc def", "08", "1.5", "$x", "x y", ")", "2#", "é", "a b c", "1 2"])
        env[n] = v
    return env


def lit_tokens(s):
    try:
        return [t for k, t in O.tokenize(s) if k == "num"]
    except O.ArithError:
        return re.findall(r"[0-9][0-9a-zA-Z#@_]*", s)


def has_kf_literal(expr, env):
    return any(O.out_of_brush_range(t) for s in [expr] + list(env.values()) for t in lit_tokens(s))


# ------------------------------------------------------------------ cases
def parse_cases(ctx):
    rng = ctx.rng
    cases = []      # (string, expected canonical AST or None, kind)
    n_good = 2500 if ctx.quick else 30000
    for i in range(n_good):
        e = gen_tree(rng, rng.choice([1, 2, 3, 3, 4, 5, 6]))
        s = render(e, rng)
        try:
            cases.append((s, canon(e), "rendered"))
        except O.ArithError:
            cases.append((s, None, "rendered-badlit"))
    # small scope, exhaustive: every pair of binary operators, every unary/assignment under/over every binary
    for o1 in BIN:
        for o2 in BIN:
            for sp in ("%s%s%s%s%s", "%s %s %s %s %s"):
                cases.append((sp % ("a", o1, "b", o2, "c"), None, "pairs"))
        for u in UN + ["++", "--"]:
            cases.append(("%s a %s b" % (u, o1), None, "pairs"))
            cases.append(("a %s %s b" % (o1, u), None, "pairs"))
        for u in ["++", "--"]:
            cases.append(("a%s %s b" % (u, o1), None, "pairs"))
            cases.append(("a %s b%s" % (o1, u), None, "pairs"))
        for asg in ASSIGN:
            cases.append(("a %s b %s c" % (asg, o1), None, "pairs"))
            cases.append(("a %s (b %s c)" % (o1, asg), None, "pairs"))
        cases.append(("a %s b ? c : d" % o1, None, "pairs"))
        cases.append(("a ? b %s c : d" % o1, None, "pairs"))
        cases.append(("a ? b : c %s d" % o1, None, "pairs"))
    for lit_ in LITS_OK + LITS_KF + LITS_BAD:
        cases.append((lit_, None, "literal"))
        cases.append(("-" + lit_ + "+x", None, "literal"))
    n_bad = 2500 if ctx.quick else 30000
    for i in range(n_bad):
        e = gen_tree(rng, rng.choice([1, 2, 3, 4]))
        s = render(e, rng)
        for _ in range(rng.choice([1, 1, 2, 3])):
            s = mutate(s, rng)
        cases.append((s, None, "mutated"))
    for s in ["", " ", "   ", "\t\n", "a[ 1 ]", "a[1]", "a[1]++", "++a[x]", "a[b[1]] += 2", "a[1 ] = 3", "a [1]", "--4", "++4",
              "1--x", "1++x", "1 + a = 3", "1 ? 2 : a = 3", "-a = 3", "(a) = 3", "x**=2", "1 < = 2", "x--x", "x+++2", "x---2",
              "1 ? 2 , 3 : 4", "1 ? 2 : 3 , 4", "a = b = c", "a ? b : c ? d : e", "2 ** 3 ** 2", "- - 1", "+ + 1", "!~-+1",
              "1\r+\r2", "((((((((((1))))))))))", "(" * 60 + "1" + ")" * 60, "0x", "0X", "0xg", "08", "1 2", "1 +", "+", "()", "( )",
              "a b", "1 ? 2", "1 ? : 3", "1 : 2", ",", "1 ,", ", 1", "a =", "= 1", "a += ", "++", "++ +", "a ++ ++", "a++ ++b",
              "a+++b", "a---b", "a- -b", "a--b", "a++b", "1 &&& 2", "1 || | 2", "1 <<< 2", "1 >>= 2", "a >>= 2", "a <<= 2",
              "a<=b", "a<<b", "a<<=b", "a<b", "a>=b", "a>>b", "a>>=b", "a&b", "a&&b", "a&=b", "a|b", "a||b", "a|=b", "a^b", "a^=b",
              "a==b", "a=b", "a!=b", "!a", "a!=!b", "a*b", "a**b", "a*=b", "a/b", "a/=b", "a%b", "a%=b", "a+b", "a+=b", "a-b", "a-=b",
              "a?b:c", "a,b", "~a", "-a", "+a", "++a", "--a", "a++", "a--", "a ? b ? c : d : e", "a = b ? c : d", "a ? b : c = d",
              "a ? b = 1 : c", "a , b = c , d", "a || b && c", "a && b || c", "a | b ^ c & d", "a & b ^ c | d", "a == b < c", "a < b == c",
              "a << b + c", "a + b << c", "a * b + c", "a + b * c", "a ** b * c", "a * b ** c", "-a ** b", "a ** -b", "!a ** b",
              "a - b - c", "a / b / c", "a = b += c -= d", "a < b < c", "a == b == c", "a << b << c", "a & b & c", "a , b , c"]:
        cases.append((s, None, "fixed"))
    return cases


def eval_cases(ctx):
    rng = ctx.rng
    cases = []      # (nounset, expr, env, kind)
    n = 4000 if ctx.quick else 60000
    for i in range(n):
        e = gen_tree(rng, rng.choice([1, 2, 2, 3, 3, 4, 5]), kf_lits=0.03)
        s = render(e, rng)
        env = gen_env(rng)
        cases.append(("1" if rng.random() < 0.12 else "0", s, env, "random"))
    # boundary operands through every binary operator
    bvals = ["0", "1", "-1", "2", "-2", "63", "64", "65", "-64", "2147483648", "4294967296", "9223372036854775807",
             "-9223372036854775808", "-9223372036854775807", "4611686018427387904", "3037000500", "-3037000500"]
    k = 0
    for op in BIN:
        for a in bvals:
            for b in bvals:
                k += 1
                if ctx.quick and (k + ctx.seed) % 3:
                    continue
                cases.append(("0", "x %s y" % op, {"x": a, "y": b}, "boundary"))
    for op in ASSIGN:
        for a in bvals[::2]:
            for b in bvals[::2]:
                cases.append(("0", "x %s y" % op, {"x": a, "y": b}, "boundary-assign"))
    for op in UN:
        for a in bvals:
            cases.append(("0", "%s x" % op, {"x": a}, "boundary-unary"))
    for a in bvals:
        for t in ["x++", "x--", "++x", "--x", "x++ + x", "x + x++", "x++ + ++x", "x-- - --x"]:
            cases.append(("0", t, {"x": a}, "boundary-incr"))
    # small scope, exhaustive: every pair of binary operators on small operands (precedence, associativity)
    for o1 in BIN:
        for o2 in BIN:
            cases.append(("0", "7 %s 3 %s 2" % (o1, o2), {}, "pairs"))
            cases.append(("0", "x%s y %s z" % (o1, o2), {"x": "-9", "y": "4", "z": "3"}, "pairs"))
        for u in UN:
            cases.append(("0", "%s 2 %s 3" % (u, o1), {}, "pairs"))
            cases.append(("0", "5 %s %s 2" % (o1, u), {}, "pairs"))
        for asg in ASSIGN:
            cases.append(("0", "x %s 6 %s 2" % (asg, o1), {"x": "13"}, "pairs"))
        cases.append(("0", "1 %s 2 ? 3 : 4" % o1, {}, "pairs"))
        cases.append(("0", "0 ? 3 : 4 %s 2" % o1, {}, "pairs"))
    # short circuit / conditional with effects in the skipped operand
    for eff in ["x++", "x = 9", "x += 2", "1 / 0", "y = 1 / 0", "2 ** -1", "z"]:
        for c in ["0", "1", "5", "w"]:
            for t in ["%s && (%s)", "%s || (%s)", "%s ? (%s) : 7", "%s ? 7 : (%s)", "!%s && (%s)"]:
                cases.append(("0", t % (c, eff), {"x": "3", "z": "1 +"}, "shortcircuit"))
    # chains and cycles of names
    for n_ in [1, 2, 3, 5, 8]:
        env = {"v%d" % i: "v%d" % (i + 1) for i in range(n_)}
        env["v%d" % n_] = "7"
        cases.append(("0", "v0 + 1", dict(env), "chain"))
        env["v%d" % n_] = "v0"
        cases.append(("0", "v0 + 1", dict(env), "cycle"))
        env["v%d" % n_] = "v0 + 1"
        cases.append(("0", "v0", dict(env), "cycle"))
    cases.append(("0", "x", {"x": "y++ < 30 ? x + 1 : 100", "y": "0"}, "recursion-with-effects"))
    cases.append(("0", "x", {"x": "y++ < 1100 ? x + 1 : 100", "y": "0"}, "recursion-limit"))
    cases.append(("1", "x + q", {"x": "1"}, "nounset"))
    cases.append(("1", "0 && q", {}, "nounset"))
    cases.append(("1", "q = 3, q + 1", {}, "nounset"))
    cases.append(("1", "q++", {}, "nounset"))
    cases.append(("1", "q += 1", {}, "nounset"))
    # malformed and edge strings (no array syntax: element storage is outside the model)
    fixed = ["", " ", "   ", "\t\n", "--4", "++4", "- -4", "--4 + ++4", "1--x", "1++x", "(1)--x", "1 --x", "1 + a = 3",
             "1 ? 2 : a = 3", "-a = 3", "!a = 3", "~a += 3", "1 + a += 3", "2 * a = b = 3", "(a) = 3", "a = 3", "x**=2",
             "1 < = 2", "x--x", "x+++2", "x---2", "x++ +2", "a b", "1 2", "1 +", "+", "()", "1 ? 2", "1 ? : 3", ",", "a =",
             "= 1", "08", "0x", "0X", "0x + 1", "x", "1 ? 2 , 3 : 4", "1 ? 2 : 3 , 4", "a ? b : c = d", "1 ||", "&& 1",
             "1 ** ", "**", "1 *** 2", "a+++b", "a---b", "a++b", "a--b", "a- -b", "a+ +b", "a+ ++b", "a- --b", "a++ + ++b",
             "--a--", "++a++", "- --a", "+ ++a", "-- a", "++ a", "a ++", "a --", "a++++", "!--a", "~++a", "1 -- x", "1 - - x",
             "1 ? a = 2 : 3", "1 ? 2 : (a = 3)", "0 ? a = 2 : (b = 3)", "a = 1 ? 2 : 3", "a ? b : c ? d : e", "1<2<3", "1\r+\r2"]
    for s in fixed:
        for env in ({}, {"x": "5", "a": "2", "b": "7"}):
            cases.append(("0", s, dict(env), "fixed"))
    nm = 1500 if ctx.quick else 25000
    k = 0
    while k < nm:
        e = gen_tree(rng, rng.choice([1, 2, 3]))
        s = render(e, rng)
        for _ in range(rng.choice([1, 1, 2])):
            s = mutate(s, rng)
        if "[" in s or "]" in s or re.search(r"(?<![A-Za-z0-9_])_(?![A-Za-z0-9_])", s):
            continue            # no arrays (outside the model); no bare `_` (a shell-maintained variable)
        k += 1
        cases.append(("0", s, gen_env(rng) if rng.random() < 0.5 else {}, "mutated"))
    return cases


def obs_names(env):
    extra = sorted(n for n in env if n not in NAMES)
    return NAMES + extra


def enc_eval(c):
    nu, s, env, _ = c
    f = [nu, s, " ".join(obs_names(env))]
    for k in sorted(env):
        f += [k, env[k]]
    return f


def oracle_eval(c, flags=frozenset()):
    nu, s, env, _ = c
    e = dict(env)
    r = O.evaluate(s, e, nounset=(nu == "1"), flags=flags)
    return r, e


ERRMAP = {"syntax": "parse", "assign-nonvar": "parse", "number": "parse", "div0": "div0", "negexp": "negexp",
          "reclimit": "reclimit", "unset": "unset"}
SYNTAX_KINDS = ("syntax", "assign-nonvar", "number")
KF_FLAGS = [("KF-C07-literal-range", "lit_range"), ("KF-C07-doubled-sign", "no_sign_split"),
            ("KF-C07-blank-expression", "blank_err"), ("KF-C07-assign-in-operand", "loose_assign"),
            ("KF-C07-incr-after-operand", "loose_incr"), ("KF-C07-cr-whitespace", "cr_ws")]


def _open_first(flags):
    """attribution prefers OPEN classes: a deviation that an open class explains is attributed to it;
    one that only a repaired (`fixed:`) class explains keeps that id and is then a plain VIOLATION"""
    st = {f["id"]: f.get("status", "open") for f in core.load_known("C07")}
    return sorted(flags, key=lambda kf: (0 if st.get(kf[0], "open") == "open" else 1))


KF_FLAGS = _open_first(KF_FLAGS)
_ST = {f["id"]: f.get("status", "open") for f in core.load_known("C07")}
OPEN_FLAGS = frozenset(f for k, f in KF_FLAGS if _ST.get(k, "open") == "open")   # repaired defects no longer excuse anything in combination


def expected_fields(res, env_after, names, top_syntax):
    """the line the code should print if it behaved like the oracle"""
    k, v = res
    f = ["ok", str(v)] if k == "ok" else ["err", ERRMAP[v]]
    if top_syntax:
        return f, None
    return f, ["=" + env_after[n] if n in env_after else "!" for n in names]


def compare_spec(c, code_fields):
    """-> None if the code agrees with the oracle, else (why, known-id or None)"""
    nu, s, env, _ = c
    names = obs_names(env)
    try:
        res, env_after = oracle_eval(c)
    except RecursionError:
        return None
    if res == ("err", "unsupported"):
        return None
    top_syntax = False
    if res[0] == "err" and res[1] in SYNTAX_KINDS:
        try:
            O.parse_value(s)
        except O.ArithError:
            top_syntax = True
    head, obs = expected_fields(res, env_after, names, top_syntax)
    if code_fields[:2] == head and (obs is None or code_fields[2:] == obs):
        return None
    why = "expected %s %s, code gave %s" % (head, obs, code_fields)
    if head[0] == "err" and code_fields[0] == "err":
        why = "ERRCLASS " + why
    for kid, flag in KF_FLAGS:
        fl = frozenset([flag])
        try:
            r2, e2 = oracle_eval(c, fl)
        except RecursionError:
            continue
        if r2 == res and e2 == env_after:
            continue            # this defect does not touch the case
        ts2 = False
        if r2[0] == "err" and r2[1] in SYNTAX_KINDS:
            try:
                O.parse_value(s, fl)
            except O.ArithError:
                ts2 = True
        h2, o2 = expected_fields(r2, e2, names, ts2)
        if code_fields[:2] == h2 and (o2 is None or code_fields[2:] == o2):
            return why, kid
    # several known defects at once
    fl = OPEN_FLAGS
    try:
        r2, e2 = oracle_eval(c, fl)
        ts2 = False
        if r2[0] == "err" and r2[1] in SYNTAX_KINDS:
            try:
                O.parse_value(s, fl)
            except O.ArithError:
                ts2 = True
        h2, o2 = expected_fields(r2, e2, names, ts2)
        if code_fields[:2] == h2 and (o2 is None or code_fields[2:] == o2):
            for kid, flag in KF_FLAGS:
                r3, e3 = oracle_eval(c, frozenset([flag]))
                if (r3, e3) != (res, env_after):
                    return why, kid
    except RecursionError:
        pass
    return why, None


def oracle_parse_fields(s, flags=frozenset()):
    try:
        return ["ok", canon_oracle(O.Parser(s, flags).parse())]
    except O.ArithError as ex:
        return None if ex.kind == "unsupported" else ["err"]
    except RecursionError:
        return None


def parse_spec(s, exp, cf):
    """the parser against bash's grammar (oracle) on any string: same tree, or both reject;
    -> None | (why, known id or None)"""
    want = oracle_parse_fields(s)
    if want is None:
        return None
    if exp is not None and want != ["ok", exp]:
        raise core.CheckBroken("oracle parser and renderer disagree on %r: %r vs %r" % (s, want, exp))
    if want == cf:
        return None
    why = "bash's grammar gives %s, the parser gave %s" % (want, cf)
    for kid, flag in KF_FLAGS:
        w2 = oracle_parse_fields(s, frozenset([flag]))
        if w2 is not None and w2 != want and w2 == cf:
            return why, kid
    w2 = oracle_parse_fields(s, OPEN_FLAGS)
    if w2 == cf:
        for kid, flag in KF_FLAGS:
            if oracle_parse_fields(s, frozenset([flag])) != want:
                return why, kid
    return why, None


# ------------------------------------------------------------------ bash as second opinion
def bash_eval(cases, timeout=900):
    """runs every case in /usr/bin/bash; -> per case the text block it printed"""
    base = core.SCRATCH
    os.makedirs(base, exist_ok=True)
    nsh = 8
    with tempfile.TemporaryDirectory(dir=base) as d:
        chunks = [cases[i::nsh] for i in range(nsh)]
        procs = []
        for k, ch in enumerate(chunks):
            p = os.path.join(d, "b%d.sh" % k)
            with open(p, "w", encoding="utf-8", errors="surrogateescape") as f:
                for (nu, s, env, _) in ch:
                    names = obs_names(env)
                    f.write("(\n")
                    for n, v in sorted(env.items()):
                        f.write("%s=%s\n" % (n, shquote(v)))
                    f.write("__e=%s\n__r=ERR\n" % shquote(s))
                    if nu == "1":
                        f.write("set -u\n")
                    f.write("__r=$(( $__e ))\n")
                    f.write("set +u\n")
                    f.write("echo \"R $__r\"\n")
                    f.write("echo \"V %s\"\n" % "|".join("${%s+=}${%s-!}" % (n, n) for n in names))
                    f.write(")\necho END\n")
            procs.append(subprocess.Popen(["/usr/bin/bash", p], stdout=subprocess.PIPE, stderr=subprocess.DEVNULL))
        per = []
        for pr in procs:
            o, _ = pr.communicate(timeout=timeout)
            per.append(o.decode("utf-8", "replace").split("END\n"))
        res = [None] * len(cases)
        for k, blocks in enumerate(per):
            for j in range(len(chunks[k])):
                res[k + j * nsh] = blocks[j] if j < len(blocks) else ""
    return res


def shquote(s):
    return "'" + s.replace("'", "'\\''") + "'"


# ------------------------------------------------------------------ run
def run(ctx):
    rng = ctx.rng
    mism, specv, notes = [], [], []
    # ---- (1) parser tie
    pcases = parse_cases(ctx)
    pin = [[s] for s, _, _ in pcases]
    pcode = ctx.impl("arith_parse", pin)
    pmodel = ctx.model("c07_parse", pin)
    dist = {"parse_accept": 0, "parse_reject": 0, "render_roundtrip_ok": 0}
    for (s, exp, kind), cl, ml in zip(pcases, pcode, pmodel):
        cf = core.dec_line(cl) if not cl.startswith(("PANIC", "DIED", "TIMEOUT")) else [cl]
        if cl != ml:
            mism.append({"what": "parse", "input": s, "code": cf, "model": core.dec_line(ml)})
        if cf and cf[0] == "ok":
            dist["parse_accept"] += 1
        else:
            dist["parse_reject"] += 1
        if cl.startswith("PANIC") or cl in ("DIED", "TIMEOUT"):
            specv.append({"input": {"parse": s}, "why": "the parser crashed: %s" % cl[:200]})
        # the property at the parser: a rendered well-formed expression parses to the tree it was rendered from
        if exp is not None and cf == ["ok", exp]:
            dist["render_roundtrip_ok"] += 1
        if cf and cf[0] in ("ok", "err"):
            r = parse_spec(s, exp, cf)
            if r:
                v = {"input": {"parse": s}, "why": r[0]}
                if r[1]:
                    v["known"] = r[1]
                specv.append(v)
    specv = arbitrate_parse(ctx, specv, notes)
    # ---- (1b) the character-level round-trip statement, evaluated by the model on the rendered trees, and the
    #           model's own rendering (bash table, minimal parentheses, one blank) through the real parser
    rt = roundtrip_stream(ctx, pcases, pcode, mism, specv)
    dist["roundtrip"] = rt
    # ---- (2) evaluator tie and (3) the property against the oracle
    ecases = eval_cases(ctx)
    ein = [enc_eval(c) for c in ecases]
    ecode = ctx.impl("arith_eval", ein)
    emodel = ctx.model("c07_eval", ein)
    edist = {}
    distinct = set()
    for c, cl, ml in zip(ecases, ecode, emodel):
        bad = cl.startswith("PANIC") or cl in ("DIED", "TIMEOUT")
        cf = core.dec_line(cl) if not bad else [cl]
        if cl != ml:
            mism.append({"what": "eval", "nounset": c[0], "expr": c[1], "env": c[2], "code": cf, "model": core.dec_line(ml)})
        key = "%s:%s" % (c[3], ":".join(cf[:2]) if not bad else "crash")
        edist[key] = edist.get(key, 0) + 1
        if bad:
            specv.append({"input": {"expr": c[1], "env": c[2], "nounset": c[0]}, "why": "evaluation crashed: %s" % cl[:300]})
            continue
        if re.search(r"[-+*/%<>=!&|^~?:,]", c[1]) and (len(c[1]) > 5 or c[2]):
            distinct.add((c[0], c[1], tuple(sorted(c[2].items()))))
        r = compare_spec(c, cf)
        if r:
            v = {"input": {"expr": c[1], "env": c[2], "nounset": c[0]}, "why": r[0], "code": cf}
            if r[1]:
                v["known"] = r[1]
            specv.append(v)
    # every unknown candidate must also differ from real bash (else the oracle is wrong, not the code)
    specv, spec_bash = confirm_with_bash(ctx, specv, notes)
    # ---- (4) the other delivery paths: $(( )), (( )), let  (expected from the model's API-path result)
    sh_stats = shell_paths(ctx, ecases, emodel, mism, specv)
    # ---- (5) thorough: brush vs bash directly on all eval cases
    if not ctx.quick:
        spec_bash.update(bash_sweep(ctx, ecases, ecode, specv))
    # ---- in-Coq cross-check of extraction
    idx = rng.sample(range(len(pin)), 20) + []
    ce = ctx.coq_eval("c07_parse", [pin[i] for i in idx])
    xbad = [i for i, v in zip(idx, ce) if v != pmodel[i]]
    small = [i for i, c in enumerate(ecases) if c[3] in ("random", "boundary", "shortcircuit", "chain")]
    idx2 = rng.sample(small, 20)
    ce2 = ctx.coq_eval("c07_eval", [ein[i] for i in idx2])
    xbad2 = [i for i, v in zip(idx2, ce2) if v != emodel[i]]
    if xbad or xbad2:
        raise core.CheckBroken("extracted runner and vm_compute disagree on %r" % ((pin[xbad[0]] if xbad else ein[xbad2[0]]),))
    specv = order_and_shrink(ctx, specv)
    dist.update({"eval_by_kind_and_result": edist, "shell_paths": sh_stats,
                 "parse_cases": len(pcases), "eval_cases": len(ecases)})
    return {
        "evaluations": len(pcases) + len(ecases) + sh_stats.get("cases", 0),
        "distinct_nontrivial": len(distinct) + dist["render_roundtrip_ok"],
        "rule": "parser: random expression trees (depth<=6) over all 20 binary, 4 unary, 4 increment, 11 assignment operators and ?:, "
                "rendered from the bash/C precedence table with minimal or redundant parentheses and one-blank / minimal / random "
                "spacing, literals in every base incl. 2^31/2^63/2^64 boundaries, plus mutated (ill-formed) strings and a fixed list; "
                "evaluator: the same trees with variables preset to numbers, blanks, names (chains, cycles), expressions with side "
                "effects and garbage, all operator x boundary-operand pairs, short-circuit probes, nounset; non-trivial = a rendered "
                "tree that round-trips through the real parser, or an evaluated expression with at least one operator and a "
                "non-empty environment or more than 5 characters; distinct by (expr, env, nounset)",
        "samples": [{"parse": pcases[0][0]}, {"parse": pcases[len(pcases) // 2][0]},
                    {"expr": ecases[0][1], "env": ecases[0][2]}, {"expr": ecases[7][1], "env": ecases[7][2]}],
        "distribution": dist,
        "extraction_crosscheck": {"cases": len(idx) + len(idx2), "agree": len(idx) + len(idx2) - len(xbad) - len(xbad2)},
        "model_mismatches": mism,
        "spec_violations": specv,
        "spec_vs_bash": spec_bash,
        "notes": notes,
    }


def bash_fields(cases):
    """-> per case: (['ok', value] | ['err'], obs string or None)"""
    out = []
    for c, blk in zip(cases, bash_eval(cases)):
        m = re.search(r"^R (-?\d+|ERR)\n", blk, flags=re.M)
        mv = re.search(r"^V (.*)\n\Z", blk, flags=re.M | re.S)
        head = ["ok", m.group(1)] if m and m.group(1) != "ERR" else ["err"]
        out.append((head, mv.group(1) if mv else None))
    return out


def arbitrate_parse(ctx, specv, notes):
    """a parse tree that differs from bash's grammar is a violation only if bash also evaluates the string
    differently from the code (in some environment); otherwise it is logged"""
    cand = [v for v in specv if "parse" in v["input"] and "known" not in v and "crashed" not in v["why"]]
    if not cand:
        return specv
    envs = [{}, {n: str(p) for n, p in zip(NAMES, [3, 5, 7, 11, 13, 17, 19, 23])},
            {n: str(p) for n, p in zip(NAMES, [-2, 0, 1, 64, -1, 9223372036854775807, 2, -9223372036854775808])}]
    cases = [("0", v["input"]["parse"], dict(e), "arb") for v in cand for e in envs]
    code = ctx.impl("arith_eval", [enc_eval(c) for c in cases])
    bf = bash_fields(cases)
    keep = [v for v in specv if v not in cand]
    for i, v in enumerate(cand):
        confirmed = None
        for j in range(len(envs)):
            k = i * len(envs) + j
            cl = code[k]
            if cl.startswith(("PANIC", "DIED", "TIMEOUT")):
                confirmed = (cases[k], cl, bf[k])
                break
            cf = core.dec_line(cl)
            if not same_as_bash(cf, bf[k]):
                confirmed = (cases[k], cf, bf[k])
                break
        if confirmed:
            v["evaluated"] = {"env": confirmed[0][2], "code": confirmed[1], "bash": confirmed[2]}
            keep.append(v)
        else:
            notes.append("parse tree differs from bash's grammar but bash evaluates it like the code: %r (%s)" % (v["input"]["parse"], v["why"][:200]))
    return keep


def roundtrip_stream(ctx, pcases, pcode, mism, specv):
    idx = [i for i, c in enumerate(pcases) if c[2] in ("rendered", "pairs")]
    if ctx.quick:
        idx = idx[:1500]
    out = ctx.model("c07_roundtrip", [[pcases[i][0]] for i in idx])
    st = {"cases": len(idx), "model_roundtrip_true": 0, "skipped": 0, "code_parses_rendering_to_same_tree": 0}
    again, meta = [], []
    for i, ml in zip(idx, out):
        f = core.dec_line(ml)
        if not f or f[0] != "ok":
            st["skipped"] += 1
            continue
        if f[1] != "1":
            mism.append({"what": "roundtrip statement false in the model", "input": pcases[i][0], "model": f})
            continue
        st["model_roundtrip_true"] += 1
        again.append([f[2]])
        meta.append(i)
    code2 = ctx.impl("arith_parse", again)
    for i, a, cl in zip(meta, again, code2):
        if cl == pcode[i]:
            st["code_parses_rendering_to_same_tree"] += 1
        else:
            specv.append({"input": {"parse": a[0]}, "why": "the bash-table rendering of the tree of %r parses to another tree: %s vs %s"
                          % (pcases[i][0], core.dec_line(cl), core.dec_line(pcode[i]))})
    return st


def obs_join(fields):
    return "|".join(fields)


def same_as_bash(cf, b):
    """does the code's result line agree with what bash printed?"""
    if b[0][0] == "ok":
        return cf[:2] == b[0] and (b[1] is None or obs_join(cf[2:]) == b[1])
    return cf[0] == "err" and (cf[1] == "parse" or b[1] is None or obs_join(cf[2:]) == b[1])


def confirm_with_bash(ctx, specv, notes):
    """drop candidates on which bash agrees with the code (then the oracle is wrong: logged, never reported)"""
    stats = {"candidates": len(specv), "confirmed_by_bash": 0, "oracle_disagrees_with_bash": 0}
    todo = [v for v in specv if "expr" in v["input"] and "code" in v]
    cases = [(v["input"]["nounset"], v["input"]["expr"], v["input"]["env"], "cand") for v in todo]
    bf = bash_fields(cases) if cases else []
    keep = [v for v in specv if not ("expr" in v["input"] and "code" in v)]
    for v, c, b in zip(todo, cases, bf):
        if same_as_bash(v["code"], b) and v["why"].startswith("ERRCLASS"):
            stats["both_error_other_class"] = stats.get("both_error_other_class", 0) + 1
        elif same_as_bash(v["code"], b):
            stats["oracle_disagrees_with_bash"] += 1
            notes.append("oracle != bash == code on %r env %r (oracle to be repaired; not a violation)" % (c[1], c[2]))
        else:
            stats["confirmed_by_bash"] += 1
            v["bash"] = b
            keep.append(v)
    return keep, stats


def bash_sweep(ctx, ecases, ecode, specv):
    """thorough tier: the code against bash itself on every evaluator case"""
    stats = {"bash_cases": 0, "bash_agree": 0, "bash_quirks_skipped": 0, "bash_differs_known": 0}
    bf = bash_fields(ecases)
    seen = {(v["input"].get("expr"), repr(v["input"].get("env"))) for v in specv}
    for c, cl, b in zip(ecases, ecode, bf):
        if cl.startswith(("PANIC", "DIED", "TIMEOUT")):
            continue
        cf = core.dec_line(cl)
        stats["bash_cases"] += 1
        if same_as_bash(cf, b):
            stats["bash_agree"] += 1
            continue
        # bash quirks that are not part of the property
        if "**" in c[1] + "".join(c[2].values()) and b[0][0] == "err" and cf[0] == "ok":
            stats["bash_quirks_skipped"] += 1      # negative exponent raised inside a skipped branch
            continue
        if (c[1], repr(c[2])) in seen:
            stats["bash_differs_known"] += 1
            continue
        r = compare_spec(c, cf)
        if r is None:
            stats["bash_quirks_skipped"] += 1      # code == oracle != bash: recursion-depth boundary etc.
            continue
        v = {"input": {"expr": c[1], "env": c[2], "nounset": c[0]}, "why": "bash gives %s, %s" % (b, r[0]), "bash": b, "code": cf}
        if r[1]:
            v["known"] = r[1]
        specv.append(v)
    return stats


def heredoc_class(mode, expr):
    """class of KF-C07-arith-command-heredoc: a `(( ))` command whose expression has an inner `))` and a later `<<`,
    or a `${s:expr}` / `${a[expr]}` expansion whose expression contains `<<`"""
    if mode == "cmd":
        return re.search(r"\)\).*<<", expr, flags=re.S) is not None
    return mode in ("substr", "index") and "<<" in expr


def shell_paths(ctx, ecases, emodel, mism, specv):
    """the same expressions through `echo $(( ))`, `(( ))` and `let` in an in-process shell"""
    rng = ctx.rng
    ok_chars = re.compile(r"^[A-Za-z0-9_ \t\n+\-*/%<>=!&|^~?:,()#@]*$")
    pool = [i for i, c in enumerate(ecases) if ok_chars.match(c[1]) and all(ok_chars.match(v) for v in c[2].values())
            and c[0] == "0" and c[1].strip() and c[3] not in ("recursion-limit", "mutated", "fixed")]
    pick = rng.sample(pool, min(len(pool), 450 if ctx.quick else 6000))
    # fixed probe (witness of KF-C07-arith-command-heredoc), evaluated by the model like any other case
    ecases = list(ecases) + [("0", "((t)) + (3<<b)", {"b": "2"}, "fixed-shell")]
    emodel = list(emodel) + ctx.model("c07_eval", [enc_eval(ecases[-1])])
    pick.append(len(ecases) - 1)
    # the other contexts in which arithmetic is evaluated: substring offsets and array subscripts; the expression is
    # wrapped so that its value selects one character / one element, and the model evaluates the wrapped expression
    wrapped = []
    for i in list(pick):
        nu, s, env, kind = ecases[i]
        if kind == "fixed-shell" or "\n" in s or rng.random() < 0.6:
            continue
        mode = rng.choice(["substr", "index"])
        w = "((%s)%%10+10)%%10" % s if mode == "substr" else "((%s)%%7+7)%%7" % s
        ecases.append((nu, w, env, "wrapped-" + mode))
        wrapped.append(len(ecases) - 1)
    if wrapped:
        emodel = emodel + ctx.model("c07_eval", [enc_eval(ecases[i]) for i in wrapped])
        pick = pick + [i for i in wrapped if core.dec_line(emodel[i])[:1] == ["ok"]]
    scripts, meta = [], []
    for i in pick:
        nu, s, env, kind = ecases[i]
        names = obs_names(env)
        mode = "cmd" if kind == "fixed-shell" else kind[8:] if kind.startswith("wrapped-") else rng.choice(["dollar", "cmd", "let"])
        pre = "".join("%s=%s\n" % (n, shquote(v)) for n, v in sorted(env.items()))
        if mode == "dollar":
            body = "echo R=$(( %s ))\necho S=$?\n" % s
        elif mode == "substr":
            body = "s_=0123456789\necho R=${s_:%s:1}\necho S=$?\n" % s
        elif mode == "index":
            body = "d_=(0 1 2 3 4 5 6)\necho R=${d_[%s]}\necho S=$?\n" % s
        elif mode == "cmd":
            body = "(( %s ))\necho S=$?\n" % s
        else:
            body = "let %s\necho S=$?\n" % shquote(s)
        post = "echo \"V=%s\"\n" % "|".join("${%s+=}${%s-!}" % (n, n) for n in names)
        scripts.append(["s", pre + body + post, "noenv"])
        meta.append((i, mode))
    outs = ctx.impl("sh", scripts)
    stats = {"cases": len(scripts), "agree": 0, "by_mode": {}}
    # fixed whole-script probes (expected output from bash 5.2)
    fixed = [("x=5; c=(); c[(x*3)%7]=1; echo \"I=${!c[@]}\"\n", "I=1", "KF-C07-subscript-assign-parens")]
    for (scr, want, kid), line in zip(fixed, ctx.impl("sh", [["s", f[0], "noenv"] for f in fixed])):
        parts = line.split(" ")
        got = core.unhx(parts[1]).decode("utf-8", "replace") if len(parts) >= 3 else line
        stats["cases"] += 1
        if want in got.split("\n"):
            stats["agree"] += 1
        else:
            err = core.unhx(parts[2]).decode("utf-8", "replace") if len(parts) >= 3 else ""
            specv.append({"input": {"script": scr}, "why": "expected %r, got %r %r" % (want, got[:100], err[-120:]), "known": kid})
    for (i, mode), line, script in zip(meta, outs, scripts):
        stats["by_mode"][mode] = stats["by_mode"].get(mode, 0) + 1
        mf = core.dec_line(emodel[i])
        parts = line.split(" ")
        if len(parts) < 3 or line.startswith("PANIC"):
            mism.append({"what": "shell-path " + mode, "expr": ecases[i][1], "env": ecases[i][2], "code": line[:300], "model": mf})
            continue
        stdout = core.unhx(parts[1]).decode("utf-8", "replace")
        stderr = core.unhx(parts[2]).decode("utf-8", "replace")
        if heredoc_class(mode, ecases[i][1]) and "here document" in stderr:
            specv.append({"input": {"script": script[1]},
                          "why": "the (( )) command is not parsed: %s; expected result %s" % (stderr.strip()[-160:], mf[:2]),
                          "known": "KF-C07-arith-command-heredoc"})
            stats["known_heredoc"] = stats.get("known_heredoc", 0) + 1
            continue
        mR = re.search(r"^R=(.*)$", stdout, flags=re.M)
        mS = re.search(r"^S=(\d+)$", stdout, flags=re.M)
        mV = re.search(r"^V=(.*)\n\Z", stdout, flags=re.M | re.S)
        good = mS is not None and mV is not None
        if good and mf[0] == "ok":
            val = int(mf[1])
            if mode in ("dollar", "substr", "index"):
                good = mR is not None and mR.group(1) == mf[1] and mS.group(1) == "0"
            else:
                good = mS.group(1) == ("0" if val != 0 else "1")
            good = good and mV.group(1) == obs_join(mf[2:])
        elif good:
            good = mR is None and mS.group(1) != "0" and (mf[1] == "parse" or mV.group(1) == obs_join(mf[2:]))
        if good:
            stats["agree"] += 1
        else:
            mism.append({"what": "shell-path " + mode, "expr": ecases[i][1], "env": ecases[i][2],
                         "code": stdout[:300], "model": mf})
    return stats


def shrink_eval(ctx, v, rounds=14):
    """delta-debugging of an evaluator violation over the expression text and the environment; a candidate
    is kept when the code still disagrees with the oracle (same known-status) and with bash"""
    cur = (v["input"]["nounset"], v["input"]["expr"], dict(v["input"]["env"]), "shrunk")
    known = v.get("known")
    for _ in range(rounds):
        cands = []
        s, env = cur[1], cur[2]
        for k in list(env):
            e2 = dict(env)
            del e2[k]
            cands.append((cur[0], s, e2, "shrunk"))
        for n in (max(1, len(s) // 2), max(1, len(s) // 4), 3, 2, 1):
            for i in range(0, len(s), max(1, n // 2) if n > 2 else 1):
                if s[:i] + s[i + n:] != s:
                    cands.append((cur[0], s[:i] + s[i + n:], env, "shrunk"))
        for k, val in env.items():
            for repl in ("1", "0", "2"):
                if val != repl:
                    e2 = dict(env)
                    e2[k] = repl
                    cands.append((cur[0], s, e2, "shrunk"))
        seen, uniq = set(), []
        for c in cands:
            key = (c[1], tuple(sorted(c[2].items())))
            if key not in seen and "[" not in c[1]:
                seen.add(key)
                uniq.append(c)
        uniq = uniq[:400]
        if not uniq:
            break
        code = ctx.impl("arith_eval", [enc_eval(c) for c in uniq])
        good = []
        for c, cl in zip(uniq, code):
            if cl.startswith(("PANIC", "DIED", "TIMEOUT")):
                if "crashed" in v["why"]:
                    good.append((c, [cl], "evaluation crashed: %s" % cl[:300]))
                continue
            if "crashed" in v["why"]:
                continue
            r = compare_spec(c, core.dec_line(cl))
            if r and r[1] == known and not r[0].startswith("ERRCLASS"):
                good.append((c, core.dec_line(cl), r[0]))
        good.sort(key=lambda g: len(g[0][1]) + sum(len(k) + len(x) for k, x in g[0][2].items()))
        picked = None
        for c, cf, why in good[:6]:
            if "crashed" in why or not same_as_bash(cf, bash_fields([c])[0]):
                picked = (c, cf, why)
                break
        if picked is None:
            break
        size = lambda c: len(c[1]) + sum(len(k) + len(x) for k, x in c[2].items())
        if size(picked[0]) >= size(cur):
            break
        cur = picked[0]
        v = dict(v)
        v["input"] = {"expr": cur[1], "env": cur[2], "nounset": cur[0]}
        v["why"], v["code"] = picked[2], picked[1]
        v["shrunk"] = True
    return v


def order_and_shrink(ctx, specv):
    def size(v):
        i = v["input"]
        return len(i.get("expr", i.get("parse", i.get("script", "")))) + sum(len(x) for x in i.get("env", {}).values())
    unknown = sorted([v for v in specv if "known" not in v], key=size)
    known = sorted([v for v in specv if "known" in v], key=size)
    out = []
    for v in unknown[:3]:
        if "expr" in v["input"] and "code" in v:
            try:
                v = shrink_eval(ctx, v)
            except Exception as ex:       # shrinking is best effort
                v = dict(v)
                v["shrink_error"] = repr(ex)[:200]
        out.append(v)
    return sorted(out, key=size) + unknown[3:] + known


def search(ctx, res):
    """extended search after a broken tie: many more evaluator cases, code vs oracle and vs bash"""
    rng = random.Random(ctx.seed + 7)
    cases = []
    for mm in res.get("model_mismatches", [])[:200]:
        if mm.get("what") == "eval":
            cases.append((mm["nounset"], mm["expr"], mm["env"], "from-mismatch"))
        elif mm.get("what") == "parse":
            cases.append(("0", mm["input"], {}, "from-mismatch"))
    class C:
        pass
    c2 = C()
    c2.rng, c2.quick, c2.seed = rng, False, ctx.seed
    more = eval_cases(c2)
    cases += more[:40000]
    # every operator between small operands, rendered minimally: finds precedence/associativity changes
    for o1 in BIN:
        for o2 in BIN:
            cases.append(("0", "7 %s 3 %s 2" % (o1, o2), {}, "pairs"))
            cases.append(("0", "x %s y %s z" % (o1, o2), {"x": "-9", "y": "4", "z": "3"}, "pairs"))
    code = ctx.impl("arith_eval", [enc_eval(c) for c in cases])
    specv = []
    for c, cl in zip(cases, code):
        if cl.startswith(("PANIC", "DIED", "TIMEOUT")):
            specv.append({"input": {"expr": c[1], "env": c[2], "nounset": c[0]}, "why": "evaluation crashed: %s" % cl[:300]})
            continue
        r = compare_spec(c, core.dec_line(cl))
        if r and not r[1]:
            specv.append({"input": {"expr": c[1], "env": c[2], "nounset": c[0]}, "why": r[0], "code": core.dec_line(cl)})
    notes = []
    specv, st = confirm_with_bash(ctx, specv, notes)
    specv = order_and_shrink(ctx, specv)
    return {"evaluations": len(cases), "spec_violations": specv[:5], "spec_vs_bash": st}


def run_code_only(ctx):
    r = search(ctx, {})
    r.update({"distinct_nontrivial": r["evaluations"], "rule": "code vs oracle/bash only (the model did not build)", "samples": []})
    return r
