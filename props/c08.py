"""C08 — glob, bracket and extglob patterns match exactly the strings bash matches; whole-string
match; dot-file hiding and sorted pathname expansion."""
import itertools, os, subprocess, threading
from vlib import core

PID = "C08"
ENTRIES = {"glob_re": ("Glob.Entry", "entry_glob_re"), "glob_m": ("Glob.Entry", "entry_glob_m"),
           "glob_ms": ("Glob.Entry", "entry_glob_ms"), "glob_fs": ("Glob.Entry", "entry_glob_fs")}
TRUSTED = [
    "modelled, not verified: brush-parser/src/pattern.rs (the whole PEG pattern_to_regex_translator), brush-core/src/patterns.rs "
    "(to_regex_str, exactly_matches, Pattern::expand component walk / dot-file policy / sort), brush-core/src/regex.rs "
    "(flag prefix, add_missing_escape_chars_to_regex)",
    "oracle: the regex engine. Glob/Regex.v models what fancy-regex 0.19 + regex-syntax 0.8 make of the emitted text "
    "(class parsing incl. set operators, backtracking order, atomic groups, look-ahead, ^/$ under the m flag, is_match as a search); "
    "this is compared with the real engine through Pattern::exactly_matches on every case of every run",
    "oracle: the directory listing (Section variable of Glob/Expand.v); the correspondence builds real directories",
    "case folding (nocasematch) modelled for ASCII and Latin-1 letters only",
    "the text-level link `parse p = spec_parse p` outside the known classes is established by exhaustive enumeration "
    "(patterns up to the length bound) each run, not by a theorem; the theorems are stated on the glob AST",
    "/usr/bin/bash 5.2.15 (LC_ALL=C.utf8) as second opinion for the specification",
]
ASSUMPTIONS = ["subjects and patterns are valid UTF-8", "locale with code-point collation (LC_ALL=C.utf8) for ranges and sorting"]

ALPHA = ["a", "b", "*", "?", "[", "]", "!", "-", "\\", "(", "|", ")", "@", "+", "\n", "é"]
SAL = "ab]-\né!"          # subject alphabet of the exhaustive part
KFS = ["KF-C08-extglob-negation", "KF-C08-leading-rbracket", "KF-C08-bracket-escaped-alnum",
       "KF-C08-bracket-set-operators", "KF-C08-extglob-paren-nesting"]
KF_ML = "KF-C08-multiline-anchors"
KF_PRIORITY = [1, 2, 3, 4, 0]


def open_ids():
    return {f["id"] for f in core.load_known(PID) if f.get("status") == "open"}


def attribute(flags, s=None, ml_applies=False, extra=()):
    """A deviating case is attributed to an OPEN class whenever one applies (class flags computed by Glob/Known.v,
    the multi-line prediction, driver-level classes in `extra`). A case that lies only in repaired (fixed) classes,
    or in none, gets no id: it is a genuine violation (the defect returned, or a new one)."""
    op = open_ids()
    cands = []
    if ml_applies:
        cands.append(KF_ML)
    cands += [KFS[k] for k in KF_PRIORITY if flags and len(flags) > k and flags[k] == "1"]
    cands += list(extra)
    for c in cands:
        if c in op:
            return c
    return None


def all_strings(al, n):
    out, prev = [""], [""]
    for _ in range(n):
        nx = [p + c for p in prev for c in al]
        out += nx
        prev = nx
    return out


def all_patterns(n):
    for k in range(0, n + 1):
        for t in itertools.product(ALPHA, repeat=k):
            yield "".join(t)


# ------------------------------------------------------------------ bash second opinion

def ansi(s):
    out = "$'"
    for ch in s:
        if ch == "\\":
            out += "\\\\"
        elif ch == "'":
            out += "\\'"
        elif ch == "\n":
            out += "\\n"
        elif ord(ch) < 32 or ord(ch) == 127:
            out += "\\x%02x" % ord(ch)
        else:
            out += ch
    return out + "'"


def bash_bits(cases, nproc=None):
    """cases: list of (opts, pattern, quoted_prefix, strings) -> list of bit strings (bash's `case`)"""
    if not cases:
        return []
    nproc = nproc or min(core.NPROC, max(1, len(cases) // 4))
    chunks = [cases[i::nproc] for i in range(nproc)]
    procs = []
    env = dict(os.environ)
    env["LC_ALL"] = "C.utf8"
    for ch in chunks:
        sc = ["f() { for s in \"${SS[@]}\"; do case $s in \"$q\"$p) printf 1;; *) printf 0;; esac; done; echo; }"]
        cur, curss = None, None
        for o, p, q, ss in ch:
            st = ("e" in o, "i" in o)
            if st != cur:
                sc.append("shopt -%s extglob; shopt -%s nocasematch" % ("s" if st[0] else "u", "s" if st[1] else "u"))
                cur = st
            if ss is not curss:
                sc.append("SS=(" + " ".join(ansi(s) for s in ss) + ")")
                curss = ss
            sc.append("p=%s; q=%s; f" % (ansi(p), ansi(q)))
        pr = subprocess.Popen(["/usr/bin/bash", "--norc", "--noprofile", "-s"], stdin=subprocess.PIPE,
                              stdout=subprocess.PIPE, stderr=subprocess.DEVNULL, env=env)
        procs.append((pr, "\n".join(sc) + "\n"))
    outs = [None] * len(procs)

    def run(i):
        o, _ = procs[i][0].communicate(procs[i][1].encode("utf-8", "surrogateescape"))
        outs[i] = o.decode("utf-8", "replace").split("\n")
    th = [threading.Thread(target=run, args=(i,)) for i in range(len(procs))]
    [t.start() for t in th]
    [t.join() for t in th]
    res = [None] * len(cases)
    for i in range(len(procs)):
        for j, _ in enumerate(chunks[i]):
            res[i + j * nproc] = outs[i][j] if j < len(outs[i]) else ""
    return res


# ------------------------------------------------------------------ random patterns with instances

XCH = list("abAB01.$^{}&~:,") + ["é", "É", "\n", " "]
SPECIALS = list("*?[]!-\\(|)@+")
CLASSES = ["alpha", "digit", "upper", "lower", "space", "punct", "alnum", "xdigit"]


class Gen:
    def __init__(self, rng, nocase):
        self.rng, self.nocase = rng, nocase

    def lit(self):
        r = self.rng
        c = r.choice(XCH if r.random() < 0.7 else SPECIALS)
        if c in SPECIALS or r.random() < 0.1:
            return "\\" + c, c
        return c, c

    def bracket(self):
        r = self.rng
        txt, members = "[", []
        neg = r.random() < 0.25
        if neg:
            txt += r.choice("!^")
        if r.random() < 0.12:
            txt += "]"; members.append("]")
        if r.random() < 0.1:
            txt += "-"; members.append("-")
        for _ in range(r.randrange(1, 4)):
            k = r.random()
            if k < 0.15:
                n = r.choice(CLASSES)
                txt += "[:%s:]" % n
                members.append({"alpha": "a", "digit": "0", "upper": "A", "lower": "b", "space": " ", "punct": ".",
                                "alnum": "1", "xdigit": "B"}[n])
            elif k < 0.4:
                a, b = sorted([r.choice("abAB01,-+~&"), r.choice("abAB01,-+~&é")])
                if r.random() < 0.1:
                    a, b = b, a
                txt += a + "-" + b
                members.append(a)
            elif k < 0.55:
                c = r.choice(list("]-\\[!^&~") + ["a", "b", "n", "é", "d"])
                txt += "\\" + c
                members.append(c)
            else:
                c = r.choice(list("abAB01.$^{}&~:,!-[(|)@+*?") + ["é", "\n"])
                txt += c
                members.append(c)
        if r.random() < 0.1:
            txt += "-"; members.append("-")
        if r.random() < 0.95:
            txt += "]"
        inst = r.choice(members) if not neg else r.choice(["a", "z", "é", "\n", "]", "0"])
        return txt, inst

    def seq(self, depth, inext, inq=False):
        r = self.rng
        txt, inst = "", ""
        for _ in range(r.randrange(0 if inext else 1, 4 if depth else 6)):
            k = r.random()
            if k < 0.45:
                t, i = self.lit()
            elif k < 0.55:
                t, i = "?", r.choice(["a", "é", "\n", "B"])
            elif k < 0.67:
                t, i = "*", r.choice(["", "a", "ab\n", "é"])
            elif k < 0.85:
                t, i = self.bracket()
            elif depth < 2:
                # iterated groups nested in iterated groups make every backtracking matcher (the engine, its model, bash)
                # and the cut-enumerating specification exponential: keep them rare and small
                kind = r.choice("?*+@!") if (not inq or r.random() < 0.15) else r.choice("?@!")
                alts = [self.seq(depth + 1, True, inq or kind in "*+") for _ in range(r.randrange(1, 3 if inq else 4))]
                t = kind + "(" + "|".join(a[0] for a in alts) + (")" if r.random() < 0.95 else "")
                pick = r.choice(alts)[1]
                if kind == "!":
                    i = r.choice(["", "a", "zz", pick + "x"])
                elif kind in "*+":
                    i = "".join(r.choice(alts)[1] for _ in range(r.randrange(0 if kind == "*" else 1, 3)))
                elif kind == "?":
                    i = r.choice(["", pick])
                else:
                    i = pick
            else:
                t, i = self.lit()
            txt += t
            inst += i
        return txt, inst

    def case(self):
        r = self.rng
        for _ in range(20):
            p, inst = self.seq(0, False)
            if len(p) <= 30:
                break
        inst = inst[:10]
        ss = {inst, "", inst[:-1], inst + "a", "x\n" + inst, inst + "\n", inst.swapcase()}
        chars = [c for c in p if c not in "\\"] + ["a", "\n"]
        for _ in range(6):
            ss.add("".join(r.choice(chars) for _ in range(r.randrange(0, 5))))
        if inst:
            k = r.randrange(len(inst))
            ss.add(inst[:k] + r.choice(chars) + inst[k + 1:])
        return p, sorted(x for x in ss if len(x) <= 12)


# ------------------------------------------------------------------ verdict helpers

class Verdict:
    def __init__(self):
        self.mism, self.specv, self.known_seen, self.unknown = [], [], {}, []
        self.known_count = {}
        self.model_fuel = self.spec_fuel = self.model_inconclusive = self.bash_quirk_skipped = 0
        self.inconclusive_examples = []
        self.bash_only = []
        self.evals = 0
        self.unmodelled = 0
        self.pending = []     # (opts, p, q, strings, idxs, code, spec, flags) awaiting the bash opinion
        self.bash_disagree = []
        self.spec_vs_bash = {"compared": 0, "spec_ne_bash": 0, "examples": []}

    def pattern(self, what, opts, p, q, strings, code, model, spec, specml, flags):
        """compare one pattern's bit strings"""
        n = len(strings)
        self.evals += n
        if len(code) != n or len(spec) != n:
            self.mism.append({"what": what, "opts": opts, "pattern": p, "quoted": q, "code": code[:80], "model": model[:80],
                              "why": "malformed result"})
            return
        if model and model[0] == "U":
            self.unmodelled += 1
        elif "E" in code and "E" not in model and flags[0] == "1":
            self.backtrack_limit = getattr(self, "backtrack_limit", 0) + 1     # fancy-regex gave up (RuntimeError) on a !() pattern
        else:
            # 'F': the engine model ran out of its step budget on that subject -> inconclusive there, never a mismatch
            nf = model.count("F")
            self.model_fuel += nf
            bad = [i for i in range(n) if i >= len(model) or (model[i] != "F" and code[i] != model[i])]
            if bad:
                k = bad[0]
                self.mism.append({"what": what, "opts": opts, "pattern": p, "quoted": q, "subject": strings[k],
                                  "code": code[k], "model": model[k] if k < len(model) else "?"})
        # 'F' in the specification bits: the cut enumeration is not affordable there -> bash decides those subjects
        sf = [i for i in range(n) if spec[i] == "F"]
        self.spec_fuel += len(sf)
        idxs = [i for i in range(n) if spec[i] != "F" and code[i] != spec[i]]
        if idxs:
            self.pending.append((what, opts, p, q, strings, idxs, code, spec, specml, flags))
        if sf:
            self.bash_only.append((what, opts, p, q, strings, sf, code, flags))

    def inconclusive(self, what, why):
        self.model_inconclusive += 1
        if len(self.inconclusive_examples) < 8:
            self.inconclusive_examples.append({"what": what, "why": why})

    def settle_bash_only(self):
        """subjects on which the specification was not affordable: the code is compared with bash directly"""
        cases = [(o, p, q, [ss[i] for i in idxs]) for (_, o, p, q, ss, idxs, _, _) in self.bash_only]
        bb = bash_bits(cases)
        for (what, o, p, q, ss, idxs, code, flags), b in zip(self.bash_only, bb):
            for j, i in enumerate(idxs):
                if b is None or j >= len(b) or code[i] in "EU" or b[j] == code[i]:
                    continue
                rec = {"input": {"op": what, "opts": o, "pattern": p, "quoted_prefix": q, "subject": ss[i]},
                       "why": "code says %s, bash says %s (specification not affordable on this subject)" % (code[i], b[j]),
                       "code": code[i], "bash": b[j]}
                kid = attribute(flags, ss[i], ml_applies=False)
                if kid:
                    rec["known"] = kid
                    self.note_known(kid, rec)
                elif "**(" in p or "*?(" in p or "*!(" in p or "*@(" in p or "*+(" in p or "[" in p:
                    # bash quirks documented under spec_vs_bash (star before an extglob, unterminated brackets): not decidable without the spec
                    self.bash_quirk_skipped += 1
                elif len(self.unknown) < 500:
                    self.unknown.append(rec)
        self.bash_only = []

    def settle(self, use_bash=True):
        self.settle_bash_only()
        cases = [(o, p, q, [ss[i] for i in idxs]) for (_, o, p, q, ss, idxs, _, _, _, _) in self.pending]
        bb = bash_bits(cases) if use_bash else [None] * len(cases)
        for (what, o, p, q, ss, idxs, code, spec, specml, flags), b in zip(self.pending, bb):
            for j, i in enumerate(idxs):
                s = ss[i]
                bash = b[j] if b and j < len(b) else None
                rec = {"input": {"op": what, "opts": o, "pattern": p, "quoted_prefix": q, "subject": s},
                       "why": "code says %s, specification says %s%s" % (code[i], spec[i], (", bash says %s" % bash) if bash else ""),
                       "code": code[i], "spec": spec[i], "bash": bash}
                if bash is not None and bash == code[i]:
                    # code = bash != spec: the specification is off, not the code (never reported as a violation)
                    if len(self.bash_disagree) < 40:
                        self.bash_disagree.append(rec)
                    continue
                kid = attribute(flags, s, ml_applies=("\n" in s and specml[i] == code[i]))
                if kid:
                    rec["known"] = kid
                    self.note_known(kid, rec)
                elif len(self.unknown) < 500:
                    self.unknown.append(rec)
        self.pending = []

    def note_known(self, kid, rec):
        self.known_count[kid] = self.known_count.get(kid, 0) + 1
        l = self.known_seen.setdefault(kid, [])
        if len(l) < 30:
            l.append(rec)

    def spec_violations(self):
        out = []
        for kid, l in self.known_seen.items():
            l.sort(key=lambda r: (len(r["input"].get("pattern", "")) + len(r["input"].get("subject", ""))))
            out += l[:3]
        self.unknown.sort(key=lambda r: (len(r["input"].get("pattern", "")) + len(r["input"].get("subject", ""))))
        return out + self.unknown[:20]


def dec1(field_line):
    r = safe_dec(field_line)
    return r if r is not None else []


def bound_ctx(ctx):
    """every runner / harness shard gets a per-shard timeout of at most SHARD_TIMEOUT seconds"""
    if getattr(ctx, "_c08_bounded", False):
        return
    m, i = ctx.model, ctx.impl
    ctx.model = lambda e, c, timeout=SHARD_TIMEOUT: m(e, c, timeout=min(timeout, SHARD_TIMEOUT))
    ctx.impl = lambda sub, c, timeout=SHARD_TIMEOUT, **kw: i(sub, c, timeout=min(timeout, SHARD_TIMEOUT), **kw)
    ctx._c08_bounded = True


SHARD_TIMEOUT = 300


def safe_dec(line):
    """decode a result line; None when the process died / timed out / printed something else"""
    if not line or line.startswith(("PANIC", "DIED", "TIMEOUT")):
        return None
    try:
        return core.dec_line(line)
    except Exception:
        return None


def run_match(ctx, V, what, cases, strings_of):
    """cases: list of [opts, pattern, ...]; strings_of(case) -> list of subjects. `what` in glob_m / glob_ms"""
    impl = ctx.impl(what, cases, timeout=SHARD_TIMEOUT)
    model = ctx.model(what, cases, timeout=SHARD_TIMEOUT)
    for c, il, ml in zip(cases, impl, model):
        ss = strings_of(c)
        cf = safe_dec(il)
        if cf is None:
            V.unknown.append({"input": {"op": what, "opts": c[0], "pattern": c[1]}, "why": "the code did not answer: %s" % (il or "")[:120]})
            continue
        code = cf[0] if cf else ""
        mf = safe_dec(ml)
        if mf is None or len(mf) < 4:
            # the MODEL gave no answer (shard died / timed out): inconclusive for this case, the code is still compared with bash
            V.inconclusive(what, "model runner: %s on %r" % ((ml or "")[:20], c[1][:60]))
            V.evals += len(ss)
            V.bash_only.append((what, c[0], c[1], c[2] if what == "glob_ms" else "", ss, list(range(len(ss))), code, "00000"))
            continue
        if what == "glob_m" and len(mf) >= 5 and mf[4] != "1":
            V.mism.append({"what": "budgeted engine matcher vs proven matcher", "opts": c[0], "pattern": c[1],
                           "why": "search_f (Glob/Budget.v) and search (Glob/Regex.v) disagree on a subject"})
        V.pattern(what, c[0], c[1], c[2] if what == "glob_ms" else "", ss, code, mf[0], mf[1], mf[2], mf[3])
    return impl, model


# ------------------------------------------------------------------ run

class Timer:
    def __init__(self):
        import time
        self.t = time.time(); self.d = {}

    def mark(self, name):
        import time
        now = time.time(); self.d[name] = round(now - self.t, 1); self.t = now


def run(ctx):
    bound_ctx(ctx)
    rng = ctx.rng
    V = Verdict()
    notes = {}
    T = Timer()
    NP = 4 if ctx.quick else 5
    NS = 3
    # (i) regex text: print_regex (tr (parse p)) = pattern_to_regex_str p, all patterns up to NP, extglob on/off
    # (ii) exhaustive matching: all patterns up to NP x all subjects up to NS over SAL   (in batches, memory-bounded)
    strings = all_strings(SAL, NS)
    text_mism = 0
    add_missing_changed = 0
    n_pats = 0
    nontriv = 0
    evals = 0
    m_sample = []
    batch = []

    def flush(batch):
        nonlocal text_mism, add_missing_changed, evals
        re_cases = [[o, p] for p in batch for o in ("e", "n")]
        impl = ctx.impl("glob_re", re_cases)
        model = ctx.model("glob_re", re_cases)
        for c, il, ml in zip(re_cases, impl, model):
            mf = ml.split(" ")
            if il != mf[0]:
                text_mism += 1
                if len(V.mism) < 50:
                    V.mism.append({"what": "glob_re", "opts": c[0], "pattern": c[1], "code": dec1(il), "model": dec1(mf[0])})
            if len(mf) > 1 and mf[1] == "31":
                add_missing_changed += 1
        evals += len(re_cases)
        m_cases = [[o, p, SAL, str(NS)] for p in batch for o in ("e", "n")]
        run_match(ctx, V, "glob_m", m_cases, lambda c: strings)
        V.settle(use_bash=True)
        k = 6000 if ctx.quick else 1500
        if len(m_cases) > k:
            m_sample.extend(m_cases[i] for i in rng.sample(range(len(m_cases)), k))
        else:
            m_sample.extend(m_cases)
    for p in all_patterns(NP):
        n_pats += 1
        if any(ch in p for ch in "*?[\\("):
            nontriv += 1
        batch.append(p)
        if len(batch) >= 70000:
            flush(batch)
            batch = []
    if batch:
        flush(batch)
    m_cases = m_sample
    notes["regex_text_cases"] = 2 * n_pats
    notes["regex_text_mismatches"] = text_mism
    notes["add_missing_escape_chars_changes_text_on"] = add_missing_changed
    T.mark("regex_text_and_exhaustive_match")
    # nocasematch, smaller exhaustive set over letters of both cases
    ci_alpha = ["a", "B", "é", "É", "[", "]", "-", "!", "*", "?", "\\"]
    ci_pats = ["".join(t) for k in range(0, 4 if ctx.quick else 5) for t in itertools.product(ci_alpha, repeat=k)]
    ci_sal = "aAbBéÉ]"
    ci_strings = all_strings(ci_sal, 2)
    ci_cases = [["ei", p, ci_sal, "2"] for p in ci_pats]
    run_match(ctx, V, "glob_m", ci_cases, lambda c: ci_strings)
    T.mark("nocase")
    # (iii) random longer patterns (extended alphabet, nested extglob, classes, escapes) with instances
    nrand = 6000 if ctx.quick else 60000
    rcases, rstrings = [], {}
    for k in range(nrand):
        nocase = rng.random() < 0.15
        g = Gen(rng, nocase)
        p, ss = g.case()
        o = ("e" if rng.random() < 0.85 else "n") + ("i" if nocase else "")
        c = [o, p, ""] + ss
        rcases.append(c)
    run_match(ctx, V, "glob_ms", rcases, lambda c: c[3:])
    nontriv += len({c[1] for c in rcases})
    # (iv) end to end through the in-process shell: case / [[ == ]] with pattern and subject coming from expansions,
    #      optionally with a quoted (literal) prefix, against the model of Pattern::exactly_matches on [Literal q; Pattern p]
    T.mark("random")
    e2e = []    # (kind, opts(e/i letters), p, q, ss)
    e2e_strings = all_strings("ab]\né", 2)
    for p in all_patterns(3 if ctx.quick else 4):
        if rng.random() < (0.35 if ctx.quick else 0.2):
            q = rng.choice(["", "", "", "*", "a[", "\\", "?(", ".", "^$"])
            ss = [q + s for s in e2e_strings] + ([q[:-1], "x" + q] if q else [])
            kind = rng.choice(["case", "cond"])
            e2e.append((kind, "e" if kind == "cond" or rng.random() < 0.7 else "n", p, q, ss))
    for c in rcases[: (1200 if ctx.quick else 8000)]:
        kind = rng.choice(["case", "cond"])
        o = c[0] if kind == "case" else (c[0] if "e" in c[0] else "e" + c[0])
        q = ""
        ss = c[3:]
        if rng.random() < 0.3:
            q = "".join(rng.choice(list("a*?[]().+|\\^$!-{}é\n")) for _ in range(rng.randrange(1, 4)))
            ss = sorted({q + s for s in ss[:6]} | {q, q[:-1], ""})
        e2e.append((kind, o, c[1], q, ss))
    # [[ == ]] with extglob switched off: bash still reads extglob operators there
    for p in ["@(a|b)", "+(a)", "?(a)b", "*(ab)", "!(a)", "a@(b)"]:
        e2e.append(("cond", "n", p, "", ["a", "b", "ab", "", "aa", "@(a|b)", "+(a)"]))

    def shopts(o):
        return ",".join(x for x, f in (("extglob", "e" in o), ("nocasematch", "i" in o)) if f)
    sh_out = ctx.impl("glob_sh", [[k, shopts(o), p, q] + ss for (k, o, p, q, ss) in e2e])
    e2e_model = ctx.model("glob_ms", [[o, p, q] + ss for (k, o, p, q, ss) in e2e])
    forced = [i for i, (k, o, p, q, ss) in enumerate(e2e) if k == "cond" and "e" not in o]
    forced_model = dict(zip(forced, ctx.model("glob_ms", [["e" + e2e[i][1].replace("n", ""), e2e[i][2], e2e[i][3]] + e2e[i][4] for i in forced])))
    e2e_err = 0
    for i, ((k, o, p, q, ss), so, am) in enumerate(zip(e2e, sh_out, e2e_model)):
        code = dec1(so)[0] if so and not so.startswith(("PANIC", "DIED", "TIMEOUT")) else ""
        mf = dec1(am)
        if len(mf) < 4:
            V.inconclusive("glob_sh/" + k, "model runner: %s on %r" % ((am or "")[:20], p[:60]))
            continue
        if len(code) != len(ss):
            V.mism.append({"what": "glob_sh/" + k, "opts": o, "pattern": p, "quoted": q, "why": "no answer from the code: %r" % (so[:60],)})
            continue
        if "E" in code or "E" in mf[0]:
            e2e_err += 1
            # the shell aborts the loop at the first error: compare up to there
            n = min(code.find("E") if "E" in code else len(code), mf[0].find("E") if "E" in mf[0] else len(code))
            if ("E" in code) != ("E" in mf[0]) and "U" not in mf[0]:
                V.mism.append({"what": "glob_sh/" + k, "opts": o, "pattern": p, "quoted": q, "code": code, "model": mf[0],
                               "why": "error behaviour differs"})
            continue
        if i in forced_model:
            ff = dec1(forced_model[i])
            if len(ff) >= 4 and code != ff[1]:
                idxs = [j for j in range(len(ss)) if code[j] != ff[1][j]]
                for j in idxs:
                    rec = {"input": {"op": "glob_sh/cond", "opts": o, "pattern": p, "quoted_prefix": q, "subject": ss[j]},
                           "why": "code says %s; bash reads the right side of [[ == ]] as if extglob were on and says %s" % (code[j], ff[1][j]),
                           "code": code[j], "spec": ff[1][j]}
                    if code[j] == mf[1][j]:
                        rec["known"] = "KF-C08-cond-extglob-forced"
                        V.note_known(rec["known"], rec)
                    else:
                        V.unknown.append(rec)
                V.evals += len(ss)
                continue
        V.pattern("glob_sh/" + k, o, p, q, ss, code, mf[0], mf[1], mf[2], mf[3])
    # (iv-b) the pattern operators of parameter expansion that remove the LONGEST match: ${s##p} and ${s%%p}.
    #        expected: cut off the longest prefix (suffix) of s that the specification matches as a whole
    #        (the shortest-match operators and their empty-match corner are C06's)
    rm_cases = []
    rm_pats = ["@(a|ab)", "@(a|ab|abc)", "+(a|ab)", "*(a|b)", "a*", "*a", "?", "??", "[ab]*", "a?(b)", "@(ab|a)b", "*b*",
               "+(ab)", "a@(|b)", "[!a]*", "*", "é*", "@(é|éa)"]
    for c in rcases[: (250 if ctx.quick else 2500)]:
        if "e" in c[0] and "i" not in c[0]:
            rm_pats.append(c[1])
    rm_subjects = ["", "a", "ab", "abc", "aab", "abab", "ba", "bab", "éab", "aé", "a\nb", "abcabc", "b"]
    for pth in rm_pats:
        kind = rng.choice(["rpp", "rss"])
        rm_cases.append((kind, "e", pth, rm_subjects))
    rm_out = ctx.impl("glob_sh", [[k, "extglob", pth, ""] + ss for (k, o, pth, ss) in rm_cases])
    # specification bits for every prefix / suffix of every subject
    parts_of = {}
    for s_ in rm_subjects:
        parts_of[("rpp", s_)] = [s_[:j] for j in range(len(s_), -1, -1)]
        parts_of[("rss", s_)] = [s_[j:] for j in range(0, len(s_) + 1)]
    rm_model = ctx.model("glob_ms", [["e", pth, ""] + [x for s_ in ss for x in parts_of[(k, s_)]] for (k, o, pth, ss) in rm_cases])
    rm_checked = 0
    for (k, o, pth, ss), so, am in zip(rm_cases, rm_out, rm_model):
        mf = dec1(am)
        if so.startswith(("PANIC", "DIED", "TIMEOUT")) or len(mf) < 4:
            continue
        got = [core.unhx(f).decode("utf-8", "replace") for f in so.strip().split(" ")] if so.strip() else []
        if len(got) != len(ss) or any(g.startswith("\x01E") for g in got):
            continue          # the engine rejected the pattern (error classes are covered by the matching checks)
        pos = 0
        for s_, g in zip(ss, got):
            parts = parts_of[(k, s_)]
            spec = mf[1][pos:pos + len(parts)]
            model = mf[0][pos:pos + len(parts)]
            pos += len(parts)
            def cut(bits):
                for part, b in zip(parts, bits):       # longest first
                    if b == "1":
                        return s_[len(part):] if k == "rpp" else s_[:len(s_) - len(part)]
                return s_
            rm_checked += 1
            V.evals += 1
            if "U" in model or "E" in model or "F" in model or "F" in spec:
                continue
            exp_spec, exp_model = cut(spec), cut(model)
            if g != exp_model:
                V.mism.append({"what": "glob_sh/" + k, "opts": o, "pattern": pth, "subject": s_, "code": g, "model": exp_model,
                               "why": "longest-match removal differs from the model (every candidate tried against the anchored pattern)"})
            if g != exp_spec:
                rec = {"input": {"op": "${s##p}" if k == "rpp" else "${s%%p}", "opts": o, "pattern": pth, "subject": s_},
                       "why": "code gives %r, specification %r" % (g, exp_spec), "code": g, "spec": exp_spec}
                kid = attribute(mf[3], s_, ml_applies=False) if g == exp_model else None
                if kid:
                    rec["known"] = kid
                    V.note_known(kid, rec)
                else:
                    V.unknown.append(rec)
    notes["longest_match_removal_cases"] = rm_checked
    # (iv-c) option flips around the SAME pattern text within ONE shell (off, on, off, on): extglob and nocasematch.
    #        A translation or compilation cached under a key that omits the option would show here.
    flips = []
    for pth in ["+(ab)", "@(a|b)", "?(a)b", "*(a)", "!(a)", "a@(b|c)", "+(a|b)c", "@(ab)", "*(ab)b"]:
        flips.append(("extglob", pth, "", ["abab", "ab", "a", "b", "", "+(ab)", "@(a|b)", "ac", "bc", "abb", pth]))
    for pth in ["a*", "[a-b]B", "A?", "é", "ab", "[[:upper:]]b", "?B*"]:
        flips.append(("nocasematch", pth, "", ["ab", "AB", "aB", "Ab", "é", "É", "bB", "", "ABC", "abc"]))
    for c in rcases[: (150 if ctx.quick else 1500)]:
        if "(" in c[1]:
            flips.append(("extglob", c[1], "", c[3:9]))
        elif any(ch.isalpha() for ch in c[1]):
            flips.append(("nocasematch", c[1], "", c[3:9]))
    fl_out = ctx.impl("glob_flip", [[o, pth, q] + ss for (o, pth, q, ss) in flips])
    off_opts = {"extglob": "n", "nocasematch": "e"}
    on_opts = {"extglob": "e", "nocasematch": "ei"}
    fl_off = ctx.model("glob_ms", [[off_opts[o], pth, q] + ss for (o, pth, q, ss) in flips])
    fl_on = ctx.model("glob_ms", [[on_opts[o], pth, q] + ss for (o, pth, q, ss) in flips])
    flip_checked = 0
    for (o, pth, q, ss), so, a_off, a_on in zip(flips, fl_out, fl_off, fl_on):
        cf, m0, m1 = safe_dec(so), dec1(a_off), dec1(a_on)
        if cf is None or not cf:
            V.unknown.append({"input": {"op": "flip " + o, "pattern": pth}, "why": "the code did not answer: %s" % (so or "")[:80]})
            continue
        if len(m0) < 4 or len(m1) < 4:
            V.inconclusive("glob_flip", "model runner gave no answer on %r" % pth[:60])
            continue
        code = cf[0]
        n = len(ss)
        if len(code) != 4 * n or "E" in code or any(x in m0[0] + m1[0] for x in "EUF"):
            continue          # engine errors abort the loop; covered by the matching checks
        flip_checked += 1
        V.evals += 4 * n
        for seg, (mf, oo, state) in enumerate([(m0, off_opts[o], "off"), (m1, on_opts[o], "on"), (m0, off_opts[o], "off again"), (m1, on_opts[o], "on again")]):
            part = code[seg * n:(seg + 1) * n]
            if part != mf[0]:
                k = next(i for i in range(n) if part[i] != mf[0][i])
                V.mism.append({"what": "glob_flip/" + o, "pattern": pth, "subject": ss[k], "state": state, "code": part[k], "model": mf[0][k],
                               "why": "after switching %s %s in the same shell the same pattern text is matched as before the switch" % (o, state)})
                if "F" not in mf[1] and part[k] != mf[1][k]:
                    rec = {"input": {"op": "case in one shell after `shopt` flips of %s (now %s)" % (o, state), "opts": oo, "pattern": pth,
                                     "subject": ss[k], "script": "p=%r; shopt -u %s; case … in $p); shopt -s %s; case %r in $p)" % (pth, o, o, ss[k])},
                           "why": "code says %s, specification says %s" % (part[k], mf[1][k]), "code": part[k], "spec": mf[1][k]}
                    V.unknown.append(rec)
                break
            V.pattern("glob_flip/" + o, oo, pth, q, ss, part, mf[0], mf[1], mf[2], mf[3])
    notes["option_flip_cases"] = flip_checked
    notes["e2e_cases"] = len(e2e)
    notes["e2e_cases_with_engine_errors"] = e2e_err
    T.mark("e2e")
    # (v) pathname expansion
    fs = run_fs(ctx, V)
    notes.update(fs.pop("notes", {}))
    T.mark("pathname")
    # bash second opinion on every code != spec candidate
    V.settle(use_bash=True)
    T.mark("bash_on_candidates")
    # specification vs bash on a sample (all exhaustive patterns in the thorough tier)
    sample = m_cases if len(m_cases) <= 24000 else [m_cases[i] for i in rng.sample(range(len(m_cases)), 24000)]
    sample_model = ctx.model("glob_m", sample)
    bb = bash_bits([(c[0], c[1], "", strings) for c in sample])
    svb = V.spec_vs_bash
    for c, ml, b in zip(sample, sample_model, bb):
        mf_ = dec1(ml)
        if len(mf_) < 2:
            continue
        sp = mf_[1]
        svb["compared"] += 1
        if sp != b:
            svb["spec_ne_bash"] += 1
            if len(svb["examples"]) < 12 and len(b) == len(sp):
                k = next(i for i in range(len(sp)) if sp[i] != b[i])
                svb["examples"].append({"opts": c[0], "pattern": c[1], "subject": strings[k], "spec": sp[k], "bash": b[k]})
    svb["explanation"] = ("disagreements are confined to bash 5.2 quirks where brush follows the specification: '*' directly followed by an "
                          "unterminated extglob opener matches too much in bash; an unterminated '[' inside an extglob body swallows the ')' in bash; "
                          "'*@()' / '*+()' do not match the empty string in bash although '@()' does")
    T.mark("spec_vs_bash")
    # extraction cross-check
    xs_m = [m_cases[i][:3] + ["2"] for i in rng.sample(range(len(m_cases)), 24)]
    small = [c for c in rcases if len(c[1]) <= 8 and "!(" not in c[1]]
    xs_r = [[c[0], c[1], c[2]] + [x for x in c[3:] if len(x) <= 4][:6] for c in rng.sample(small, min(16, len(small)))]
    xa = ctx.model("glob_m", xs_m) + ctx.model("glob_ms", xs_r)
    xb = ctx.coq_eval("glob_m", xs_m) + ctx.coq_eval("glob_ms", xs_r)
    xs = xs_m + xs_r
    xbad = [i for i in range(len(xs)) if xa[i] != xb[i]]
    if xbad:
        raise core.CheckBroken("extracted runner and vm_compute disagree on case %r: %r vs %r" % (xs[xbad[0]], xa[xbad[0]], xb[xbad[0]]))
    T.mark("extraction_crosscheck")
    notes["phase_seconds"] = T.d
    evals += V.evals + fs["evaluations"]
    notes["patterns_outside_modelled_engine_subset"] = V.unmodelled
    notes["inconclusive"] = {"subjects_where_the_engine_model_ran_out_of_its_step_budget": V.model_fuel,
                             "subjects_where_the_specification_was_not_affordable_(decided_by_bash)": V.spec_fuel,
                             "cases_without_a_model_answer_(shard_died_or_timed_out)": V.model_inconclusive,
                             "bash_only_differences_skipped_as_documented_bash_quirks": V.bash_quirk_skipped,
                             "examples": V.inconclusive_examples}
    notes["negation_patterns_where_the_engine_gave_up"] = getattr(V, "backtrack_limit", 0)
    notes["spec_disagreements_with_bash"] = V.bash_disagree[:10]
    return {
        "evaluations": evals,
        "distinct_nontrivial": nontriv + fs["distinct_nontrivial"],
        "rule": "(i) every pattern over the 16-char alphabet {a b * ? [ ] ! - \\ ( | ) @ + LF é} up to length %d, extglob on and off: "
                "emitted regex text of the code = print_regex(tr(parse p)); (ii) each of them against every subject over {a b ] - LF é !} "
                "up to length %d via Pattern::exactly_matches: code = engine model, code = specification (and = bash for every "
                "disagreement); nocasematch on an 11-char alphabet; (iii) %d random patterns (nested extglob, classes, ranges, escapes, "
                "extended alphabet, quoted literal prefixes) with derived subjects; (iv) case / [[ == ]] in the in-process shell; "
                "(v) pathname expansion in real directories. non-trivial = pattern contains a glob construct (* ? [ \\ or an extglob "
                "opener); counted per distinct pattern" % (NP, NS, nrand),
        "samples": [{"opts": c[0], "pattern": c[1], "subjects": c[3:8]} for c in rcases[:3]] +
                   [{"opts": "e", "pattern": p, "subjects": "all over %r up to length %d" % (SAL, NS)} for p in ("[!a-]b", "+(a|*b)")],
        "distribution": {"exhaustive_patterns": n_pats, "subjects_per_pattern": len(strings),
                         "nocase_patterns": len(ci_pats), "random_patterns": len(rcases), "e2e_cases": len(e2e),
                         "pathname_cases": fs["evaluations"],
                         "known_finding_hits": dict(V.known_count)},
        "extraction_crosscheck": {"cases": len(xs), "agree": len(xs) - len(xbad)},
        "spec_vs_bash": svb,
        "notes": notes,
        "model_mismatches": V.mism,
        "spec_violations": V.spec_violations(),
    }


# ------------------------------------------------------------------ pathname expansion

FS_NAMES = ["a", "b", "ab", ".a", ".b", "a-", "a.b", "é", "B", "d/", "d-/", ".d/", "d/a", "d/.a", "d/b", "d-/a", "d-/ab", ".d/a", ".d/.b", "-", "a b"]
FS_COMPS = ["*", "?", "a*", "*a", ".*", ".?", "[ab]", "[!a]*", "?(a)b", "@(a|b)", "+(a)", "*(a|b)", "d*", "d", ".d", "a", "*b", "[.]*", "??", "*-", "é", "[a-z]*", "*.*"]
KF_SORT = "KF-C08-multilevel-sort"


def bash_expand(cases):
    """cases: (opts, pattern, names) -> list of word lists, by bash in real directories"""
    import tempfile, shutil
    base = os.path.join(core.SCRATCH, "c08bash-%d" % os.getpid())
    shutil.rmtree(base, ignore_errors=True)
    os.makedirs(base, exist_ok=True)
    sc = []
    for k, (o, p, names) in enumerate(cases):
        d = os.path.join(base, str(k))
        os.makedirs(d)
        for n in names:
            path = os.path.join(d, n)
            if n.endswith("/"):
                os.makedirs(path, exist_ok=True)
            else:
                os.makedirs(os.path.dirname(path), exist_ok=True)
                open(path, "w").close()
        sc.append("cd %s; shopt -%s extglob; shopt -%s dotglob; shopt -%s nocaseglob; IFS=; p=%s; printf '%%s\\0' $p; printf '\\n'" % (
            ansi(d), "s" if "e" in o else "u", "s" if "d" in o else "u", "s" if "i" in o else "u", ansi(p)))
    env = dict(os.environ)
    env["LC_ALL"] = "C.utf8"
    pr = subprocess.run(["/usr/bin/bash", "--norc", "--noprofile", "-s"], input=("\n".join(sc) + "\n").encode(), stdout=subprocess.PIPE,
                        stderr=subprocess.DEVNULL, env=env)
    shutil.rmtree(base, ignore_errors=True)
    outs = pr.stdout.decode("utf-8", "replace").split("\0\n")
    return [o.split("\0") for o in outs[:len(cases)]]


def run_fs(ctx, V):
    rng = ctx.rng
    cases = []
    n = 400 if ctx.quick else 6000
    for _ in range(n):
        names = rng.sample(FS_NAMES, rng.randrange(2, 9))
        depth = 1 if rng.random() < 0.6 else 2
        comps = [rng.choice(FS_COMPS) for _ in range(depth)]
        if depth == 2 and rng.random() < 0.5:
            comps[0] = rng.choice(["d", "*", "d*", ".d", ".*", "?", "[d]*", "d-"])
        o = "e" + ("d" if rng.random() < 0.25 else "")
        cases.append([o, "/".join(comps)] + names)

    # directed: an earlier component that starts with a dot must not let later components match dot-files
    dot_trees = [[".d/", ".d/a", ".d/.b", "d/", "d/.a", "d/b", ".c/", ".c/.lock", ".c/x"],
                 [".d/.b", ".d/a", "a", ".a", "d/.a", "d/a"],
                 [".cache/.lock", ".cache/data", "src/.keep", "src/main"]]
    for tree in dot_trees:
        for pat in [".*/*", ".d*/*", ".?/*", ".[dc]/?*", ".*/?", "*/*", ".*/.*", "./*" , ".c*/*", ".d/*", "*/.*"]:
            if pat == "./*":
                continue
            for o in ("e", "ed"):
                cases.append([o, pat] + tree)
    nflip0 = len(cases)

    def shopts(o):
        return ",".join(x for x, f in (("extglob", "e" in o), ("dotglob", "d" in o), ("nocaseglob", "i" in o)) if f)
    impl = ctx.impl("glob_fs", [[shopts(c[0])] + c[1:] for c in cases])
    model = ctx.model("glob_fs", cases)
    bash = bash_expand([(c[0], c[1], c[2:]) for c in cases])
    nontriv = set()
    unm = 0
    for c, il, ml, bw in zip(cases, impl, model, bash):
        code = dec1(il) if il and not il.startswith(("PANIC", "DIED", "TIMEOUT")) else ["?" + il[:40]]
        mf = dec1(ml)
        if ["||"] and "||" in mf:
            k = mf.index("||")
            mw, sw = mf[:k], mf[k + 1:]
        else:
            V.inconclusive("glob_fs", "model runner: %s on %r" % ((ml or "")[:20], c[1]))
            continue
        if len(code) > 1 or code != [c[1]]:
            nontriv.add((c[1], tuple(sorted(c[2:]))))
        if mw == ["?unmodelled"]:
            unm += 1
        elif code != mw:
            V.mism.append({"what": "glob_fs", "opts": c[0], "pattern": c[1], "names": c[2:], "code": code, "model": mw})
        if code != sw:
            rec = {"input": {"op": "pathname expansion", "opts": c[0], "pattern": c[1], "names": c[2:]},
                   "why": "code gives %r, specification %r, bash %r" % (code, sw, bw), "code": code, "spec": sw, "bash": bw}
            if bw == code:
                if len(V.bash_disagree) < 40:
                    V.bash_disagree.append(rec)
            elif sorted(code) == sorted(sw) and "/" in c[1] and KF_SORT in open_ids():
                rec["known"] = KF_SORT
                V.note_known(KF_SORT, rec)
            else:
                flags = None
                # matching-level classes apply to pathname expansion too: ask the runner for the class flags of each component
                V.fs_pending = getattr(V, "fs_pending", []) + [rec]
    # classify the remaining differences by the matching classes of their components
    pend = getattr(V, "fs_pending", [])
    if pend:
        comps = [[r["input"]["opts"].replace("d", ""), comp] for r in pend for comp in r["input"]["pattern"].split("/")]
        fl = ctx.model("glob_re", comps)
        it = iter(fl)
        for r in pend:
            kid = None
            for comp in r["input"]["pattern"].split("/"):
                f = dec1(next(it))
                flags = f[3] if len(f) > 3 else "00000"
                if kid is None:
                    kid = attribute(flags)
            if kid:
                r["known"] = kid
                V.note_known(kid, r)
            else:
                V.unknown.append(r)
    # dotglob switched off, on, off around the same pattern text in ONE shell
    fcases = [c for c in cases if "d" not in c[0]][: (60 if ctx.quick else 600)] + [c for c in cases[nflip0 - 60:nflip0] if "d" not in c[0]]
    f_out = ctx.impl("glob_fs", [["extglob,flipdotglob"] + c[1:] for c in fcases])
    f_off = ctx.model("glob_fs", [["e"] + c[1:] for c in fcases])
    f_on = ctx.model("glob_fs", [["ed"] + c[1:] for c in fcases])
    fchecked = 0
    for c, so, a0, a1 in zip(fcases, f_out, f_off, f_on):
        cf, m0, m1 = safe_dec(so), dec1(a0), dec1(a1)
        if cf is None or "||" not in m0 or "||" not in m1:
            continue
        mw0, mw1 = m0[:m0.index("||")], m1[:m1.index("||")]
        if mw0 == ["?unmodelled"] or mw1 == ["?unmodelled"]:
            continue
        groups, cur = [], []
        for w in cf:
            if w == "\x01":
                groups.append(cur); cur = []
            else:
                cur.append(w)
        groups.append(cur)
        fchecked += 1
        exp = [mw0, mw1, mw0]
        if groups != exp:
            V.mism.append({"what": "glob_fs/flipdotglob", "pattern": c[1], "names": c[2:], "code": groups, "model": exp,
                           "why": "dotglob off/on/off around the same pattern in one shell"})
            sw0, sw1 = m0[m0.index("||") + 1:], m1[m1.index("||") + 1:]
            if groups != [sw0, sw1, sw0]:
                V.unknown.append({"input": {"op": "pathname expansion with dotglob off, on, off in one shell", "pattern": c[1], "names": c[2:]},
                                  "why": "code gives %r, specification %r" % (groups, [sw0, sw1, sw0]), "code": groups, "spec": [sw0, sw1, sw0]})
    return {"evaluations": len(cases) + 3 * fchecked, "distinct_nontrivial": len(nontriv),
            "notes": {"pathname_cases_outside_modelled_domain": unm, "dotglob_flip_cases": fchecked}}


def search(ctx, res):
    """after a broken tie: code vs specification (and bash) only, more and longer inputs"""
    bound_ctx(ctx)
    import random
    rng = random.Random(ctx.seed + 7)
    V = Verdict()
    pats = list(all_patterns(4))
    strings = all_strings(SAL, 3)
    cases = [[o, p, SAL, "3"] for p in pats for o in ("e", "n")]
    for mm in res.get("model_mismatches", [])[:200]:
        if "pattern" in mm:
            cases.append([mm.get("opts", "e"), mm["pattern"], SAL, "3"])
    impl = ctx.impl("glob_m", cases)
    bb = bash_bits([(c[0], c[1], "", strings) for c in cases])
    out = []
    for c, il, b in zip(cases, impl, bb):
        code = dec1(il)[0] if il and not il.startswith(("PANIC", "DIED", "TIMEOUT")) else ""
        if len(code) != len(b):
            continue
        for k in range(len(b)):
            if code[k] != b[k]:
                out.append((c, strings[k], code[k], b[k]))
                break
    # keep only those outside the known classes: ask the spec side of the runner when it exists
    specv = []
    known_ok = True
    try:
        ml = ctx.model("glob_m", [o[0] for o in out])
    except Exception:
        ml, known_ok = [None] * len(out), False
    for (c, s, cb, bbit), m in zip(out, ml):
        rec = {"input": {"op": "glob_m", "opts": c[0], "pattern": c[1], "subject": s},
               "why": "code says %s, bash says %s" % (cb, bbit), "code": cb, "bash": bbit}
        mf = dec1(m) if m else []
        if len(mf) >= 4:
            k = strings.index(s)
            sp, sml, flags = mf[1], mf[2], mf[3]
            if sp[k] == cb:
                continue      # code = spec: a bash quirk
            kid = attribute(flags, s, ml_applies=("\n" in s and sml[k] == cb))
            if kid:
                rec["known"] = kid
        specv.append(rec)
    unknown = [r for r in specv if "known" not in r]
    unknown.sort(key=lambda r: len(r["input"].get("pattern", "")) + len(r["input"].get("subject", "")))
    seen, keep = set(), []
    for r in specv:
        if "known" in r and r["known"] not in seen:
            seen.add(r["known"]); keep.append(r)
    return {"evaluations": len(cases) * len(strings), "spec_violations": keep + unknown[:5]}


def run_code_only(ctx):
    r = search(ctx, {})
    r.update({"distinct_nontrivial": r["evaluations"], "rule": "code vs bash / specification only (model did not build)", "samples": []})
    return r
