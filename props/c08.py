"""C08 — glob, bracket and extglob matching (placeholder driver, extended below)."""
from vlib import core
PID = "C08"
ENTRIES = {"glob_re": ("Glob.Entry", "entry_glob_re"), "glob_m": ("Glob.Entry", "entry_glob_m"),
           "glob_ms": ("Glob.Entry", "entry_glob_ms")}
